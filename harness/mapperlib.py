"""Shared machinery for mapper-level properties (C01–C04, C13, C14, C16–C20, C28).

* a seeded family of small specs (matmul chains and 3-rank Einsums on 2–3 level memory hierarchies, optional spatial fanout),
  described by a plain dict of parameters so that a failing case is a replayable JSON object;
* `build_spec(params)` → accelforge Spec (through the repo's own YAML + jinja front end);
* `run_mapper(params, metrics, **knobs)` → list of result rows (objective values, usage, exported mapping tree);
* `export_mapping(node)` / `mapping_to_yaml(export)` — independent reconstruction of a returned mapping;
* `evaluate(params, export)` → model evaluation of a concrete mapping through the public `evaluate_mapping`.

Everything runs in-process against /repo's current working tree.
"""
from __future__ import annotations

import copy
import json
import os
import tempfile
from fractions import Fraction
from pathlib import Path

SPECS = Path(__file__).resolve().parent / "specs"

_initialised = False


def init(n_jobs: int = 1):
    global _initialised
    import sys

    repo = os.environ.get("AFV_REPO", "/repo")
    if repo not in sys.path:
        sys.path.insert(0, repo)
    import accelforge  # noqa

    assert os.path.realpath(accelforge.__file__).startswith(os.path.realpath(repo)), (accelforge.__file__, repo)
    from accelforge.util.parallel import set_n_parallel_jobs

    set_n_parallel_jobs(n_jobs)
    _initialised = True


# --------------------------------------------------------------------------------------
# spec family
# --------------------------------------------------------------------------------------

DIVISOR_RICH = [1, 2, 3, 4, 6, 8, 12]


def gen_params(rng, *, n_einsums=None, levels=None, allow_fanout=False, finite_glb=None, kind=None) -> dict:
    """One member of the small-spec family, as a JSON-able dict."""
    kind = kind or rng.choice(["matmuls", "matmuls", "einsum3"])
    if kind == "matmuls":
        n = n_einsums or rng.choice([1, 1, 2])
        M = rng.choice([2, 3, 4, 6])
        KN = rng.choice([2, 3, 4, 6] if n > 1 else [2, 3, 4, 6, 8])
        wl = {"kind": "matmuls", "N_EINSUMS": n, "M": M, "KN": KN}
        footprint = 8 * (2 * M * KN + KN * KN)
    else:
        # Z[a,b] = X[a,c] * Y[c,b]  or with a reduction-only / batch rank pattern
        pat = rng.choice(["mm", "red", "batch"])
        A, B, C = (rng.choice([2, 3, 4, 6]) for _ in range(3))
        wl = {"kind": "einsum3", "pattern": pat, "A": A, "B": B, "C": C}
        footprint = 8 * (A * C + C * B + A * B)
    levels = levels or rng.choice([2, 2, 3])
    finite = rng.random() < 0.7 if finite_glb is None else finite_glb
    p = {
        "workload": wl,
        "levels": levels,
        "bits": rng.choice([8, 8, 4, 16]),
        "mm_energy": rng.choice([1, 10, 50, 200]),
        "glb_energy": rng.choice([1, 2, 5]),
        "lb_energy": rng.choice([1, 1, 2]),
        "mac_energy": rng.choice([0, 1, 3]),
        "mm_tp": rng.choice(["inf", 1, 2, 8]),
        "glb_tp": rng.choice(["inf", 2, 4, 16]),
        "lb_tp": rng.choice(["inf", 4, 16]),
        "mac_tp": rng.choice([1, 2]),
        "glb_size": (rng.choice([1, 2, 3, 5, 8]) * footprint // 8 // 1 if finite else "inf"),
        "lb_size": (rng.choice([1, 2, 4]) * 8 * 8 if rng.random() < 0.5 else "inf"),
        "glb_leak": rng.choice([0, 0, 1]),
        "mm_keep": "~Intermediates",
        "mm_may_keep": "All",
        "glb_keep": rng.choice(["~MainMemory", "Nothing", "~MainMemory"]),
        "glb_may_keep": "All",
        "fanout": (rng.choice([2, 4]) if allow_fanout and rng.random() < 0.5 else 0),
        "fanout_at": rng.choice(["glb", "mac"]),
        "min_usage": 0,
        "lb_op": "",
        "lb_expr": "",
        "lb_val": 0,
    }
    if wl.get("N_EINSUMS", 1) > 1:
        p["glb_keep"] = "~MainMemory"  # some memory must be required to hold the intermediates
    if p["glb_size"] != "inf":
        p["glb_size"] = max(int(p["glb_size"]) * p["bits"] // 8, p["bits"] * 3)
    return p


def _jinja(params: dict) -> dict:
    d = {k: v for k, v in params.items() if k != "workload"}
    d.update({k: v for k, v in params["workload"].items() if k != "kind"})
    return d


def build_spec(params: dict, mapping_yaml: str | None = None):
    import accelforge as af
    from accelforge.frontend.spec import Spec

    if not _initialised:
        init()
    arch = SPECS / ("arch_toll.yaml" if params.get("toll") else "arch3.yaml" if params["levels"] == 3 else "arch2.yaml")
    wl = params["workload"]
    workload = SPECS / ("matmuls.yaml" if wl["kind"] == "matmuls" else "einsum3.yaml")
    files = [str(arch), str(workload)]
    tmp = None
    if mapping_yaml is not None:
        tmp = tempfile.NamedTemporaryFile("w", suffix=".yaml", delete=False, dir=os.getcwd())
        tmp.write(mapping_yaml)
        tmp.close()
        files.append(tmp.name)
    try:
        spec = Spec.from_yaml(*files, jinja_parse_data=_jinja(params))
    finally:
        if tmp is not None:
            os.unlink(tmp.name)
    return spec


def metrics_of(names):
    from accelforge.mapper import Metrics

    m = None
    for n in names:
        v = getattr(Metrics, n)
        m = v if m is None else (m | v)
    return m


# --------------------------------------------------------------------------------------
# mapping export / reconstruction
# --------------------------------------------------------------------------------------


def export_mapping(node):
    """Mapping tree → plain JSON (reservations dropped: they are derived, not chosen)."""
    from accelforge.frontend.mapping import mapping as mp

    if isinstance(node, mp.Sequential):
        return {"seq": [export_mapping(c) for c in node.nodes]}
    if isinstance(node, mp.Pipeline):
        return {"pipeline": [export_mapping(c) for c in node.nodes]}
    if isinstance(node, mp.Nested):
        out = []
        for c in node.nodes:
            e = export_mapping(c)
            if e is None:
                continue
            if "nest" in e:  # flatten directly nested Nested
                out.extend(e["nest"])
            else:
                out.append(e)
        return {"nest": out}
    if isinstance(node, mp.Reservation):
        return None
    if isinstance(node, mp.Toll):
        return {"toll": str(node.component), "tensors": sorted(map(str, node.tensors))}
    if isinstance(node, mp.Storage):
        return {"storage": str(node.component), "tensors": sorted(map(str, node.tensors))}
    if isinstance(node, mp.Temporal):
        return {"loop": str(node.rank_variable), "tile": _num(node.tile_shape)}
    if isinstance(node, mp.Spatial):
        return {
            "spatial": str(node.rank_variable),
            "tile": _num(node.tile_shape),
            "component": str(node.component),
            "name": str(node.name),
        }
    if isinstance(node, mp.Compute):
        return {"compute": str(node.component), "einsum": str(node.einsum)}
    raise TypeError(f"unknown mapping node {type(node)}")


def _num(x):
    if x is None:
        return None
    try:
        f = float(x)
        return int(f) if f == int(f) else f
    except Exception:
        return str(x)


def mapping_to_yaml(e: dict) -> str:
    def go(e, ind):
        p = " " * ind
        if "nest" in e:
            return p + "- !Nested\n" + p + "  nodes:\n" + "".join(go(c, ind + 2) for c in e["nest"])
        if "seq" in e:
            return p + "- !Sequential\n" + p + "  nodes:\n" + "".join(go(c, ind + 2) for c in e["seq"])
        if "storage" in e:
            return p + "- !Storage {component: %s, tensors: [%s]}\n" % (e["storage"], ", ".join(e["tensors"]))
        if "toll" in e:
            return p + "- !Toll {component: %s, tensors: [%s]}\n" % (e["toll"], ", ".join(e["tensors"]))
        if "loop" in e:
            return p + "- !Temporal {rank_variable: %s, tile_shape: %s}\n" % (e["loop"], e["tile"])
        if "spatial" in e:
            return p + "- !Spatial {rank_variable: %s, tile_shape: %s, component: %s, name: %s}\n" % (
                e["spatial"], e["tile"], e["component"], e["name"])
        if "compute" in e:
            return p + "- !Compute {einsum: %s, component: %s}\n" % (e["einsum"], e["compute"])
        raise ValueError(e)

    top = e["nest"] if "nest" in e else [e]
    return "mapping:\n  nodes:\n" + "".join(go(c, 2) for c in top)


def flat_einsum_paths(e: dict) -> dict:
    """For each Einsum the root-to-compute node list of the exported tree (shared prefix repeated)."""
    res = {}

    def go(e, prefix):
        if "nest" in e:
            cur = list(prefix)
            for c in e["nest"]:
                if "seq" in c or "pipeline" in c:
                    for b in c.get("seq", c.get("pipeline")):
                        go(b, cur)
                    return
                cur.append(c)
                if "compute" in c:
                    res[c["einsum"]] = cur
            return
        if "seq" in e or "pipeline" in e:
            for b in e.get("seq", e.get("pipeline")):
                go(b, prefix)
            return
        raise ValueError(e)

    go(e, [])
    return res


# --------------------------------------------------------------------------------------
# running the mapper / the model
# --------------------------------------------------------------------------------------

TOTAL = "Total<SEP>"


def run_mapper(params: dict, metrics: list[str], knobs: dict | None = None, arch_edits=None,
               eval_in_detail: bool = True, spec_hook=None, cache_dir=None) -> dict:
    """Run map_workload_to_arch on the spec described by params.

    knobs: attributes to set on spec.mapper (objective_tolerance, max_fused_loops, …).
    arch_edits: list of (component name, dotted attribute, value) applied after loading.
    Returns {"rows": [...], "columns": [...], "error": None | repr}."""
    from accelforge.mapper.FFM.main import map_workload_to_arch

    spec = build_spec(params)
    spec.mapper.metrics = metrics_of(metrics)
    for k, v in (knobs or {}).items():
        setattr(spec.mapper, k, float("inf") if v == "inf" else v)
    for comp, attr, val in arch_edits or []:
        obj = spec.arch.find(comp)
        parts = attr.split(".")
        for a in parts[:-1]:
            obj = getattr(obj, a)
        setattr(obj, parts[-1], val)
    if spec_hook is not None:
        spec_hook(spec)
    try:
        r = map_workload_to_arch(spec, print_progress=False, eval_in_detail=eval_in_detail, cache_dir=cache_dir)
    except Exception as e:  # an observable outcome
        return {"rows": [], "error": f"{type(e).__name__}: {e}"[:500], "columns": []}
    return {"rows": rows_of(r), "error": None, "columns": [str(c) for c in r.data.columns], "_result": r}


def rows_of(r) -> list[dict]:
    rows = []
    cols = list(r.data.columns)
    for i in range(len(r.data)):
        row = r.data.iloc[i]
        d = {
            "energy": _f(row.get(TOTAL + "energy")),
            "latency": _f(row.get(TOTAL + "latency")),
            "edp": _f(row.get(TOTAL + "energy_delay_product")),
            "usage": {c.split("<SEP>")[1]: _f(row[c]) for c in cols
                      if c.startswith("reservation<SEP>") or c.startswith("usage<SEP>memory<SEP>")},
        }
        m = row.get(TOTAL + "mapping")
        if m is not None:
            try:
                mm = m(_for_model=True) if callable(m) else m
                d["mapping"] = export_mapping(mm)
            except Exception as e:
                d["mapping_error"] = repr(e)[:300]
        rows.append(d)
    return rows


def _f(x):
    if x is None:
        return None
    try:
        return float(x)
    except Exception:
        return None


def evaluate(params: dict, export: dict, arch_edits=None, spec_hook=None) -> dict:
    """Evaluate a concrete (exported) mapping with the public model entry point."""
    from accelforge.model.main import evaluate_mapping

    spec = build_spec(params, mapping_to_yaml(export))
    for comp, attr, val in arch_edits or []:
        obj = spec.arch.find(comp)
        parts = attr.split(".")
        for a in parts[:-1]:
            obj = getattr(obj, a)
        setattr(obj, parts[-1], val)
    if spec_hook is not None:
        spec_hook(spec)
    try:
        ev = evaluate_mapping(spec)
    except Exception as e:
        return {"error": f"{type(e).__name__}: {e}"[:400]}
    out = {"error": None, "energy": _f(ev.energy()), "latency": _f(ev.latency()), "_result": ev}
    try:
        out["usage"] = {k: _f(v) for k, v in ev.resource_usage().items()}
    except Exception as e:
        out["usage_error"] = repr(e)[:200]
    return out


def objective(row: dict, metric: str) -> float:
    if metric == "ENERGY":
        return row["energy"]
    if metric == "LATENCY":
        return row["latency"]
    if metric == "ENERGY_DELAY_PRODUCT":
        if row.get("energy") is None or row.get("latency") is None:
            return row["edp"]
        return row["energy"] * row["latency"]
    raise KeyError(metric)


def best(rows: list[dict], metric: str):
    vals = [objective(r, metric) for r in rows]
    return min(vals) if vals else None


def close(a: float, b: float, rel: float = 1e-5) -> bool:
    if a is None or b is None:
        return a is b
    return abs(a - b) <= rel * max(abs(a), abs(b), 1e-30)


def to_int_vec(vals, scale=1 << 20):
    """Exact scaled integers for the Lean front oracle (values are float32/float64 numbers)."""
    return [int(Fraction(v) * scale) for v in vals]


def strip(res: dict) -> dict:
    """JSON-able copy of a run_mapper / evaluate result."""
    return {k: v for k, v in res.items() if not k.startswith("_")}


# --------------------------------------------------------------------------------------
# process pool (mapper calls are independent; each worker is a fresh interpreter)
# --------------------------------------------------------------------------------------


def _worker_init(cwd, env):
    import sys

    os.environ.update(env)
    os.makedirs(cwd, exist_ok=True)
    d = os.path.join(cwd, f"w{os.getpid()}")
    os.makedirs(d, exist_ok=True)
    os.chdir(d)
    sys.setrecursionlimit(10000)
    init(1)


def pool_map(fn, items, workers: int = 8):
    """Map a picklable top-level function over items in worker processes (spawned, scratch cwd each).
    Results come back in item order.  Exceptions inside fn propagate (harness error)."""
    import concurrent.futures as cf
    import multiprocessing as mp

    items = list(items)
    if not items:
        return []
    workers = max(1, min(workers, len(items)))
    if workers == 1:
        init(1)
        return [fn(x) for x in items]
    ctx = mp.get_context("spawn")
    env = {k: os.environ[k] for k in ("ACCELFORGE_VERIF", "NUMBA_CACHE_DIR", "PYTHONPATH", "AFV_REPO") if k in os.environ}
    with cf.ProcessPoolExecutor(workers, mp_context=ctx, initializer=_worker_init, initargs=(os.getcwd(), env)) as ex:
        return list(ex.map(fn, items))


def run_worker_subprocesses(cfgs: list[dict], envs: list[dict] | None = None, concurrency: int = 8, timeout: int = 1500) -> list[dict]:
    """Run harness.mapper_worker once per config, each in a fresh interpreter (own PYTHONHASHSEED etc.)."""
    import subprocess
    import sys
    import time as _t

    verif = str(Path(__file__).resolve().parent.parent)
    procs, results = {}, [None] * len(cfgs)
    pending = list(range(len(cfgs)))

    def start(i):
        env = dict(os.environ)
        env["PYTHONPATH"] = verif + os.pathsep + env.get("PYTHONPATH", "")
        env.update((envs[i] if envs else {}) or {})
        cfg = dict(cfgs[i])
        cfg.setdefault("scratch", os.getcwd())
        return subprocess.Popen([sys.executable, "-W", "ignore", "-m", "harness.mapper_worker", json.dumps(cfg)],
                                stdout=subprocess.PIPE, stderr=subprocess.PIPE, text=True, env=env, cwd=os.getcwd())

    t0 = _t.time()
    while pending or procs:
        while pending and len(procs) < concurrency:
            i = pending.pop(0)
            procs[i] = start(i)
        done = [i for i, p in procs.items() if p.poll() is not None]
        for i in done:
            p = procs.pop(i)
            out, errtxt = p.communicate()
            line = [l for l in out.splitlines() if l.startswith("@@RESULT@@")]
            if not line:
                raise RuntimeError(f"mapper worker produced no result (exit {p.returncode}): {errtxt[-1500:]}")
            results[i] = json.loads(line[-1][len("@@RESULT@@"):])
        if not done:
            _t.sleep(0.2)
        if _t.time() - t0 > timeout:
            for p in procs.values():
                p.kill()
            raise TimeoutError("mapper worker subprocesses timed out")
    return results


def canon_front(rows: list[dict], keys=("energy", "latency"), digits: int = 6) -> list[tuple]:
    """Sorted list of objective vectors rounded to `digits` significant digits (float32 noise removed)."""
    def rnd(x):
        if x is None:
            return None
        return float(f"{x:.{digits}g}")
    return sorted(tuple(rnd(r.get(k)) for k in keys) for r in rows)
