"""The symbolic comparator under test (C09; reused by C08): oracle for the Lean model, verdict judging, formula generators.

The REAL functions are `make_tile_shapes.geq_leq_zero / diff_geq_leq_zero`.  A verdict is judged by brute force:
the formula is evaluated exactly (Fractions) at EVERY integer point of the box.

    GEQ  : min over the box >= 0            LEQ : max <= 0            EQ : min = max = 0
    derivative verdict along s:  GEQ : no adjacent pair (p, p+e_s) with f(p) > f(p+e_s)   (non-decreasing)
                                 LEQ : no adjacent pair with f(p) < f(p+e_s)               (non-increasing)
                                 EQ  : neither
    UNKNOWN is always allowed.
"""
from __future__ import annotations

import signal
from fractions import Fraction

from harness import exprlib9 as X

CR = {"ALWAYS_GEQ_THAN_ZERO": "GEQ", "ALWAYS_LEQ_THAN_ZERO": "LEQ", "ALWAYS_EQUAL_TO_ZERO": "EQ", "unknown": "UNKNOWN"}


class Timeout(Exception):
    pass


class timeout:
    """SIGALRM-based wall-clock limit around one sympy call (sympy's solvers occasionally run away)."""

    def __init__(self, seconds: float):
        self.s = seconds

    def _h(self, *a):
        raise Timeout()

    def __enter__(self):
        self.old = signal.signal(signal.SIGALRM, self._h)
        signal.setitimer(signal.ITIMER_REAL, self.s)

    def __exit__(self, *a):
        signal.setitimer(signal.ITIMER_REAL, 0)
        signal.signal(signal.SIGALRM, self.old)
        return False


_M = None
_ORIG_IS_CONNECTED = None


def _sympy_own_is_connected():
    """sympy's own `MinMaxBase._is_connected`, recompiled from sympy's source (the repo replaces the attribute at import,
    possibly before this harness gets a chance to save it)."""
    import ast
    import sympy.functions.elementary.miscellaneous as m

    tree = ast.parse(open(m.__file__).read())
    for node in tree.body:
        if isinstance(node, ast.ClassDef) and node.name == "MinMaxBase":
            for fn in node.body:
                if isinstance(fn, ast.FunctionDef) and fn.name == "_is_connected":
                    fn.decorator_list = []
                    mod = ast.Module(body=[fn], type_ignores=[])
                    ast.fix_missing_locations(mod)
                    ns = dict(m.__dict__)
                    exec(compile(mod, m.__file__, "exec"), ns)
                    return classmethod(ns["_is_connected"])
    return None


def module():
    """Import the anchored module (which monkeypatches sympy's MinMaxBase._is_connected)."""
    global _M, _ORIG_IS_CONNECTED
    if _M is None:
        _ORIG_IS_CONNECTED = _sympy_own_is_connected()
        from accelforge.mapper.FFM._make_pmappings.make_pmappings_from_templates import make_tile_shapes as M

        _M = M
    return _M


def orig_is_connected():
    module()
    return _ORIG_IS_CONNECTED


def symbols(n: int):
    M = module()
    return [M.makesymbol(nm) for nm in ["a", "b", "c", "d"][:n]]


def bounds_of(syms, box):
    return tuple((s, int(lo), int(hi)) for s, (lo, hi) in zip(syms, box))


# ----------------------------------------------------------------------------------------------------------------
# real calls
# ----------------------------------------------------------------------------------------------------------------


def real_sign(f, syms, box, tdncz: bool, limit: float = 20.0):
    """('v', verdict) | ('exc', type name) | ('timeout', None)"""
    M = module()
    try:
        with timeout(limit):
            r = M.geq_leq_zero(f, bounds_of(syms, box), tdncz)
        return ("v", CR[r.value])
    except Timeout:
        return ("timeout", None)
    except RecursionError:
        return ("exc", "RecursionError")
    except Exception as e:  # observable outcome
        return ("exc", type(e).__name__)


def real_diff(f, s, syms, box, limit: float = 20.0):
    M = module()
    try:
        with timeout(limit):
            r = M.diff_geq_leq_zero(f, s, bounds_of(syms, box))
        return ("v", CR[r.value])
    except Timeout:
        return ("timeout", None)
    except RecursionError:
        return ("exc", "RecursionError")
    except Exception as e:
        return ("exc", type(e).__name__)


# ----------------------------------------------------------------------------------------------------------------
# judging
# ----------------------------------------------------------------------------------------------------------------


def judge_sign(verdict: str, sc: dict, tol: Fraction = Fraction(0)):
    """None if the verdict holds on the scanned box, else (what, witness point, value)."""
    if sc["n"] == 0 or verdict == "UNKNOWN":
        return None
    if verdict in ("GEQ", "EQ") and sc["min"] < -tol:
        return ("negative value", sc["argmin"], sc["min"])
    if verdict in ("LEQ", "EQ") and sc["max"] > tol:
        return ("positive value", sc["argmax"], sc["max"])
    return None


def judge_mono(verdict: str, mo: dict):
    if verdict == "UNKNOWN":
        return None
    if verdict in ("GEQ", "EQ") and mo["dec"] is not None:
        return ("decreases from this point to the next along the symbol", mo["dec"])
    if verdict in ("LEQ", "EQ") and mo["inc"] is not None:
        return ("increases from this point to the next along the symbol", mo["inc"])
    return None


# ----------------------------------------------------------------------------------------------------------------
# sympy as the oracle of the Lean model
# ----------------------------------------------------------------------------------------------------------------


class OracleExc(Exception):
    def __init__(self, name):
        self.name = name


class Oracle:
    """Answers the model's queries with exactly the sympy calls the code makes."""

    def __init__(self, syms, box, limit: float = 20.0):
        self.syms, self.box = syms, box
        self.idx = X.sym_index(syms)
        assert [self.idx[s] for s in syms] == list(range(len(syms))), "symbols must be given in str order"
        self.table = []
        self.limit = limit

    def answer(self, q: dict) -> dict:
        import sympy

        M = module()
        f = X.build(q["f"], self.syms)
        k = q["k"]
        with timeout(self.limit):
            if k == "rel":
                try:
                    a = bool(f >= 0) if q["ge"] else bool(f <= 0)
                except TypeError:
                    a = None
                return {**q, "a": a}
            if k == "norm":
                return {**q, "a": X.export(f, self.idx)}
            if k == "corner":
                corner = {s_: sympy.Integer(b[1] if q["hi"] else b[0]) for s_, b in zip(self.syms, self.box)}
                try:
                    v = f.subs(corner)
                    a = bool(v.is_number and ((v < 0) if q["lt"] else (v > 0)))
                except TypeError:
                    a = None
                return {**q, "a": a}
            if k == "doit":
                return {**q, "a": X.export(f.doit(), self.idx)}
            if k == "expand":
                return {**q, "a": X.export(sympy.expand(f), self.idx)}
            if k == "diff":
                return {**q, "a": X.export(M.diff(f, self.syms[q["s"]]), self.idx)}
            if k == "range":
                s = self.syms[q["s"]]
                lo, hi = self.box[q["s"]]
                try:
                    r = M.function_range(f, s, int(lo), int(hi))
                except (NotImplementedError, TypeError):
                    return {**q, "a": {"t": "fail"}}
                except Timeout:
                    raise
                except Exception as e:
                    raise OracleExc(type(e).__name__)
                if isinstance(r, sympy.FiniteSet):
                    return {**q, "a": {"t": "finite", "l": [X.export(x, self.idx) for x in r]}}
                if not hasattr(r, "left"):
                    raise OracleExc("AttributeError")
                return {**q, "a": {"t": "interval", "lo": X.export(r.left, self.idx), "hi": X.export(r.right, self.idx)}}
        raise ValueError(q)


def cosim(drv, req: dict, oracle: Oracle, max_rounds: int = 400):
    """Run the Lean model with sympy as its oracle.  ('v', verdict) | ('exc', name) | ('timeout',None) | ('unsupported', why)"""
    for _ in range(max_rounds):
        r = drv.ask("C09", {**req, "table": oracle.table})
        if "verdict" in r:
            return ("v", r["verdict"])
        if "exc" in r:
            return ("exc", r["exc"])
        if "need" in r:
            try:
                oracle.table.append(oracle.answer(r["need"]))
            except Timeout:
                return ("timeout", None)
            except X.Unsupported as e:
                return ("unsupported", str(e)[:120])
            except OracleExc as e:
                return ("exc", e.name)
            except RecursionError:
                return ("exc", "RecursionError")
            continue
        raise RuntimeError(f"driver: {r}")
    return ("exc", "too many oracle rounds")


# ----------------------------------------------------------------------------------------------------------------
# generators
# ----------------------------------------------------------------------------------------------------------------


def gen_box(rng, n: int, flavour: str, max_points: int) -> list:
    while True:
        box = []
        for i in range(n):
            if flavour == "lo>1":
                lo = rng.choice([2, 3, 4, 6])
            elif flavour == "mixed":
                lo = rng.choice([1, 1, 2, 3])
            else:
                lo = 1
            w = rng.choice([0, 1, 2, 3, 3, 5, 7, 11])
            if flavour == "width0" and (i == 0 or rng.random() < 0.5):
                w = 0
                lo = rng.choice([1, 2, 3, 4, 6, 8])
            box.append([lo, lo + w])
        if X.n_points(box) <= max_points:
            return box


def _coef(rng, signed=False, rational=True):
    import sympy

    c = rng.choice([1, 1, 2, 3, 4, 6, 8, 12, 18, 72])
    if rational and rng.random() < 0.25:
        c = sympy.Rational(c, rng.choice([2, 3, 4, 8]))
    if signed and rng.random() < 0.45:
        c = -c
    return sympy.sympify(c)


def _monomial(rng, syms, signed=False):
    import sympy

    t = _coef(rng, signed)
    for s in rng.sample(syms, rng.randint(1, min(2, len(syms)))):
        t = t * s ** rng.choice([-1, -1, 1, 1, 2, -2])
    return t


def g_laurent(rng, syms, signed=False):
    import sympy

    f = sympy.Integer(0)
    for _ in range(rng.randint(1, 4)):
        f += _monomial(rng, syms, signed)
    if rng.random() < 0.6:
        f += _coef(rng, signed)
    return f


def _ceil_atom(rng, syms):
    import sympy

    s = rng.choice(syms)
    N = rng.choice([3, 4, 6, 7, 8, 12])
    k = rng.choice([2, 3, 4])
    kind = rng.randrange(7)
    if kind == 0:
        return sympy.ceiling(sympy.Integer(N) / s)
    if kind == 1:
        return s * sympy.ceiling(sympy.Integer(N) / s)
    if kind == 2:
        return sympy.ceiling(s / k)
    if kind == 3 and len(syms) > 1:
        t = rng.choice([x for x in syms if x != s])
        return sympy.ceiling(s / t)
    if kind == 4 and len(syms) > 1:
        t = rng.choice([x for x in syms if x != s])
        return sympy.ceiling(sympy.Integer(N) / (s * t)) * t
    if kind == 5:
        return k * sympy.ceiling(s / k)
    return sympy.ceiling(sympy.Integer(N) / s) / s


def g_ceil(rng, syms):
    """What imperfect factorisation emits (c1*s*ceiling(N/s) + c2*ceiling(N/s) + …) and near misses of it."""
    import sympy

    f = sympy.Integer(0)
    for _ in range(rng.randint(1, 3)):
        f += _coef(rng, signed=rng.random() < 0.25) * _ceil_atom(rng, syms)
    r = rng.random()
    if r < 0.35:
        f += g_laurent(rng, syms, signed=rng.random() < 0.5)
    elif r < 0.6:
        f -= sympy.Rational(rng.choice([1, 1, 3, 5]), rng.choice([2, 4]))
    return f


def g_crossing(rng, syms, box):
    """g - h built so that the difference changes sign (or just touches zero) inside the box."""
    import sympy

    g = g_laurent(rng, syms) if rng.random() < 0.7 else g_ceil(rng, syms)
    idx = X.sym_index(syms)
    fn = X.compile_eval(g, idx)
    pts = list(X.points(box))
    p = rng.choice(pts)
    v = fn(p)
    r = rng.random()
    if r < 0.4:
        return g - sympy.Rational(v.numerator, v.denominator)  # zero at an arbitrary point of the box
    if r < 0.6:
        mn = min(fn(q) for q in pts)
        return g - sympy.Rational(mn.numerator, mn.denominator)  # touches zero at its minimum
    if r < 0.8:
        mx = max(fn(q) for q in pts)
        return g - sympy.Rational(mx.numerator, mx.denominator)
    return g - g_laurent(rng, syms)


def g_minmax(rng, syms, box):
    import sympy

    def term():
        r = rng.random()
        if r < 0.5:
            return g_laurent(rng, syms, signed=rng.random() < 0.3)
        if r < 0.7:
            return sympy.sympify(rng.choice([1, 2, 4, 12, 72]))
        if r < 0.85:
            return g_ceil(rng, syms)
        return g_crossing(rng, syms, box)

    cls = sympy.Max if rng.random() < 0.65 else sympy.Min
    f = cls(*[term() for _ in range(rng.randint(2, 3))])
    r = rng.random()
    if r < 0.25:
        f = f - term()
    elif r < 0.4:
        other = sympy.Min if cls is sympy.Max else sympy.Max
        f = f - other(term(), term())
    elif r < 0.5:
        f = f * _monomial(rng, syms, signed=True)
    elif r < 0.6:
        f = cls(f, (sympy.Min if cls is sympy.Max else sympy.Max)(term(), term()))
    elif r < 0.7:
        f = f + cls(term(), term())
    return f


def g_heaviside(rng, syms):
    import sympy

    def lin():
        s = rng.choice(syms)
        if len(syms) > 1 and rng.random() < 0.5:
            t = rng.choice([x for x in syms if x != s])
            return s - t + rng.choice([-1, 0, 0, 1])
        return rng.choice([1, -1]) * (s - rng.choice([1, 2, 3, 4]))

    f = g_laurent(rng, syms, signed=rng.random() < 0.3) if rng.random() < 0.6 else sympy.Integer(0)
    for _ in range(rng.randint(1, 2)):
        f += _coef(rng, signed=True) * sympy.Heaviside(lin()) * (_monomial(rng, syms) if rng.random() < 0.6 else 1)
    return f


def g_product(rng, syms):
    import sympy

    def fac():
        r = rng.random()
        if r < 0.4:
            return g_laurent(rng, syms, signed=True)
        if r < 0.6:
            s = rng.choice(syms)
            return s - rng.choice([1, 2, 3])
        if r < 0.8 and len(syms) > 1:
            s, t = rng.sample(syms, 2)
            return (s - t) ** rng.choice([1, 2])
        return _monomial(rng, syms, signed=True)

    f = fac() * fac()
    if rng.random() < 0.3:
        f = f * fac()
    if rng.random() < 0.4:
        f = f + _coef(rng, signed=True)
    return f


def g_minmax_top(rng, syms, box):
    """A bare Max/Min (possibly nested one level) whose arguments change sign or touch zero inside the box:
    the only way into the any/all rules of `_compare_to_zero`."""
    import sympy

    def term():
        r = rng.random()
        if r < 0.45:
            return g_crossing(rng, syms, box)
        if r < 0.8:
            s = rng.choice(syms)
            lo, hi = box[X.sym_index(syms)[s]]
            return rng.choice([1, -1]) * (s - rng.randint(lo, hi)) * rng.choice([1, 1, 2, rng.choice(syms)])
        return g_laurent(rng, syms, signed=True)

    cls = sympy.Max if rng.random() < 0.5 else sympy.Min
    other = sympy.Min if cls is sympy.Max else sympy.Max
    args = [term() for _ in range(rng.randint(2, 3))]
    if rng.random() < 0.3:
        args.append(other(term(), term()))
    return cls(*args)


STREAMS = ["laurent", "laurent-signed", "ceil", "crossing", "minmax", "minmax-top", "heaviside", "product"]


def gen_formula(rng, stream: str, syms, box):
    if stream == "laurent":
        return g_laurent(rng, syms)
    if stream == "laurent-signed":
        return g_laurent(rng, syms, signed=True)
    if stream == "ceil":
        return g_ceil(rng, syms)
    if stream == "crossing":
        return g_crossing(rng, syms, box)
    if stream == "minmax":
        return g_minmax(rng, syms, box)
    if stream == "minmax-top":
        return g_minmax_top(rng, syms, box)
    if stream == "heaviside":
        return g_heaviside(rng, syms)
    if stream == "product":
        return g_product(rng, syms)
    raise KeyError(stream)


# ----------------------------------------------------------------------------------------------------------------
# which mechanism produced a contradicted verdict (classifier keys of ctx.fail)
# ----------------------------------------------------------------------------------------------------------------


def strip_ceiling(f):
    import sympy

    if not isinstance(f, sympy.Basic):
        return sympy.sympify(f)
    g = f.doit().replace(lambda e: e.is_Function and e.func == sympy.ceiling, lambda e: e.args[0])
    return sympy.sympify(g).doit()


def heaviside_parts(f):
    import sympy

    if isinstance(f, sympy.Basic) and f.has(sympy.Heaviside):
        rep = lambda v: sympy.sympify(
            f.replace(lambda e: e.is_Function and e.func == sympy.Heaviside, lambda e: sympy.Integer(v)))
        return [rep(1), rep(0)]
    return [f]


def _sign_holds(g, verdict, idx, box):
    """Does the sign verdict hold for expression g at every integer point?  None if g cannot be evaluated."""
    import sympy

    try:
        fn = X.compile_eval(sympy.sympify(g), idx)
        return judge_sign(verdict, X.scan(fn, box)) is None
    except X.Unsupported:
        return None


def validate_oracle_table(table: list, syms, box) -> list:
    """Brute-force check of every sympy answer the model used.  Returns the unsound ones:
    [{"k","f","answer","point","why"}] (formulas as strings)."""
    idx = X.sym_index(syms)
    bad = []

    def ev(tree):
        return X.compile_eval(X.build(tree, syms), idx)

    for q in table:
        try:
            if q["k"] == "rel" and q["a"] is True:
                sc = X.scan(ev(q["f"]), box)
                j = judge_sign("GEQ" if q["ge"] else "LEQ", sc)
                if j:
                    bad.append({"k": "rel", "f": str(X.build(q["f"], syms)), "answer": (">= 0" if q["ge"] else "<= 0") + " is True",
                                "point": j[1], "why": f"{j[0]} {j[2]}"})
            elif q["k"] in ("norm", "doit"):
                f0, f1 = ev(q["f"]), ev(q["a"])
                for p in X.points(box):
                    try:
                        if f0(p) != f1(p):
                            bad.append({"k": q["k"], "f": str(X.build(q["f"], syms)), "answer": str(X.build(q["a"], syms)),
                                        "point": list(p), "why": "rebuilt tree has a different value"})
                            break
                    except X.Undefined:
                        continue
            elif q["k"] == "range" and q["a"]["t"] == "interval":
                f0, lo, hi = ev(q["f"]), ev(q["a"]["lo"]), ev(q["a"]["hi"])
                for p in X.points(box):
                    try:
                        v = f0(p)
                        if not (lo(p) <= v <= hi(p)):
                            bad.append({"k": "range", "f": str(X.build(q["f"], syms)), "s": q["s"],
                                        "answer": f"[{X.build(q['a']['lo'], syms)}, {X.build(q['a']['hi'], syms)}]",
                                        "point": list(p), "why": f"value {v} outside the reported range"})
                            break
                    except X.Undefined:
                        continue
            elif q["k"] == "range" and q["a"]["t"] == "finite":
                f0 = ev(q["f"])
                gs = [ev(g) for g in q["a"]["l"]]
                for p in X.points(box):
                    try:
                        v = f0(p)
                        if all(g(p) != v for g in gs):
                            bad.append({"k": "range", "f": str(X.build(q["f"], syms)), "s": q["s"],
                                        "answer": str([str(X.build(g, syms)) for g in q["a"]["l"]]),
                                        "point": list(p), "why": f"value {v} not in the reported finite set"})
                            break
                    except X.Undefined:
                        continue
        except X.Unsupported:
            continue
    return bad


def classify_sign(f, syms, box, tdncz: bool, verdict: str, limit: float = 20.0) -> str:
    """Key for a sign verdict that brute force contradicts (the oracle transcript is examined by the caller first)."""
    import sympy

    idx = X.sym_index(syms)
    if tdncz:
        fn = X.compile_eval(f, idx)
        lo, hi = fn([b[0] for b in box]), fn([b[1] for b in box])
        if lo == 0 and hi == 0 and verdict == "LEQ" and real_sign(f, syms, box, False, limit) == ("v", "UNKNOWN"):
            return "sign:tdncz-undecided-reported-as-leq"
    g = strip_ceiling(f)
    parts = heaviside_parts(g)
    ok = [_sign_holds(p, verdict, idx, box) for p in parts]
    if all(o is True for o in ok):
        if f.has(sympy.ceiling) and _sign_holds(g, verdict, idx, box):
            return "sign:ceil-strip"
        if len(parts) > 1:
            return "sign:heaviside-joint-partition"
    return "sign:other"


def classify_diff(f, s, syms, box, verdict: str, limit: float = 20.0) -> str:
    """Key for a derivative verdict that finite differences contradict."""
    import sympy

    M = module()
    idx = X.sym_index(syms)
    try:
        with timeout(limit):
            d = M.diff(sympy.expand(f), s)
            d1 = strip_ceiling(d)
    except Exception:
        return "deriv:other"
    parts = heaviside_parts(d1)
    ok = [_sign_holds(p, verdict, idx, box) for p in parts]
    if all(o is True for o in ok):
        if f.has(sympy.ceiling):
            g = strip_ceiling(f)
            try:
                if judge_mono(verdict, X.mono(X.compile_eval(g, idx), box, idx[s])) is None:
                    return "deriv:ceil-strip"
            except X.Unsupported:
                pass
        if len(parts) > 1:
            return "deriv:heaviside-joint-partition"
        if f.has(sympy.ceiling):
            return "deriv:ceil-strip"
    return "deriv:other"


# ----------------------------------------------------------------------------------------------------------------
# everything that is checked about ONE formula on ONE box
# ----------------------------------------------------------------------------------------------------------------

_FLAGS = ("tdnczEarly", "heavIntCrash", "heavPerAtom", "relCorner")
_REPAIRED = {"tdnczEarly": False, "heavIntCrash": False, "heavPerAtom": True, "relCorner": True}
# the model of the code today first; then each repair undone on its own; then the code as it was found
CFGS = {"repaired": dict(_REPAIRED),
        "old:tdncz-early-return": {**_REPAIRED, "tdnczEarly": True},
        "old:heaviside-int-crash": {**_REPAIRED, "heavIntCrash": True},
        "old:joint-heaviside-partition": {**_REPAIRED, "heavPerAtom": False},
        "old:relational-not-validated": {**_REPAIRED, "relCorner": False},
        "asIs": {"tdnczEarly": True, "heavIntCrash": True, "heavPerAtom": False, "relCorner": False}}
MODEL_EXC = {"no free symbol": "ValueError", "symbol not in bounds": "ValueError", "recursion limit": "RecursionError"}
FUEL = 80


def _frac_json(v):
    return [v.numerator, v.denominator]


def tie_evaluators(drv, f, tree, syms, box, sc) -> str | None:
    """The three evaluators agree: python closure (judge), Lean `eval` (every point), sympy `subs` (sample points)."""
    import sympy

    if tree is not None and sc["undefined"] == 0 and sc["n"] > 0:
        r = drv.ask("C09", {"op": "scan", "f": tree, "box": box})
        if "err" in r:
            return f"driver: {r}"
        got = (r["n"], X.frac(r["sum"]), X.frac(r["min"]), X.frac(r["max"]), r["argmin"], r["argmax"])
        want = (sc["n"], sc["sum"], sc["min"], sc["max"], sc["argmin"], sc["argmax"])
        if got != want:
            return f"Lean eval {got} != python eval {want}"
    idx = X.sym_index(syms)
    fn = X.compile_eval(f, idx)
    pts = [[b[0] for b in box], [b[1] for b in box]] + ([sc["argmin"], sc["argmax"]] if sc["n"] else [])

    def subs_at(p):
        return f.subs({s: sympy.Integer(x) for s, x in zip(syms, p)})

    def differs(sv, v):
        if sv.has(sympy.Float):
            return abs(float(sv) - float(v)) > 1e-9 * max(1.0, abs(float(v)))
        sv = sympy.nsimplify(sv) if not sv.is_Rational else sv
        return (not sv.is_Rational) or Fraction(int(sv.p), int(sv.q)) != v

    for p in pts:
        try:
            v = fn(p)
        except X.Undefined:
            continue
        sv = subs_at(p)
        if differs(sv, v):
            if f.has(sympy.Max, sympy.Min) and orig_is_connected() is not None:
                # sympy itself mis-evaluates Max/Min under the repo's `_is_connected` monkeypatch: check with sympy's own
                from sympy.functions.elementary.miscellaneous import MinMaxBase

                cur = MinMaxBase.__dict__["_is_connected"]
                MinMaxBase._is_connected = orig_is_connected()
                sympy.core.cache.clear_cache()
                try:
                    sv2 = subs_at(p)
                finally:
                    MinMaxBase._is_connected = cur
                    sympy.core.cache.clear_cache()
                if not differs(sv2, v):
                    return {"minmax_patch": {"formula": str(f), "point": list(p), "sympy_subs_patched": str(sv),
                                             "sympy_subs_unpatched": str(sv2), "true_value": str(v)}}
            return f"sympy subs {sv} != python eval {v} at {p}"
    return None


def check_formula(drv, f, syms, box, *, limit: float = 15.0, do_cosim: bool = True, tdncz_modes=(False, True),
                  diff_syms=None, tol_rel: float = 0.0) -> dict:
    """All C09 checks of one formula on one box (the formula may use a subset of `syms`)."""
    import sympy

    idx = X.sym_index(syms)
    out = {"f": str(f), "box": box, "checks": [], "tie": None, "oracle_answers": 0, "oracle_unsound": [], "skipped": None}
    try:
        fn = X.compile_eval(f, idx)
    except X.Unsupported as e:
        out["skipped"] = f"unsupported: {e}"[:100]
        return out
    sc = X.scan(fn, box)
    if sc["n"] == 0:
        out["skipped"] = "undefined everywhere"
        return out
    try:
        tree = X.export(f, idx)
    except X.Unsupported:
        tree = None
    out["tie"] = tie_evaluators(drv, f, tree, syms, box, sc)
    out["range"] = [str(sc["min"]), str(sc["max"])]
    out["crosses"] = bool(sc["min"] < 0 < sc["max"])
    # the formula handed to both the code and the model: the rebuilt (rational) tree
    g = X.build(tree, syms) if tree is not None else f
    same = bool(g == f) and not f.has(sympy.Float)
    tol = Fraction(0)
    if f.has(sympy.Float) and tol_rel:
        tol = Fraction(tol_rel) * max(abs(sc["min"]), abs(sc["max"]), 1)

    jobs = [("sign", td, None) for td in tdncz_modes if not (td and out["crosses"])]
    for s in (diff_syms if diff_syms is not None else sorted(f.free_symbols, key=str)):
        jobs.append(("deriv", None, s))
    for kind, td, s in jobs:
        rec = {"kind": kind, "tdncz": td, "s": (str(s) if s is not None else None)}
        real = real_sign(f, syms, box, td, limit) if kind == "sign" else real_diff(f, s, syms, box, limit)
        rec["real"] = list(real)
        model = None
        orc = None
        if do_cosim and tree is not None and real[0] != "timeout":
            real_g = real if same else (real_sign(g, syms, box, td, limit) if kind == "sign" else real_diff(g, s, syms, box, limit))
            orc = Oracle(syms, box, limit)
            req = ({"op": "verdict", "f": tree, "box": box, "tdncz": bool(td), "fuel": FUEL} if kind == "sign"
                   else {"op": "dverdict", "f": tree, "box": box, "s": idx[s], "fuel": FUEL})
            model = cosim(drv, {**req, "cfg": CFGS["repaired"]}, orc)
            rec["model"] = list(model)
            rec["real_on_model_input"] = list(real_g)

            def same_outcome(mod):
                mm = mod if mod[0] == "v" else ("exc", MODEL_EXC.get(mod[1], mod[1]))
                return bool(tuple(mm) == tuple(real_g))

            if model[0] in ("v", "exc") and real_g[0] in ("v", "exc"):
                rec["agree"] = same_outcome(model)
                # which switches can matter on this run at all?
                tab = orc.table
                sens = {"tdnczEarly": bool(td),
                        "heavPerAtom": any(X.has_node(q_["f"], {"H"}) for q_ in tab if q_["k"] in ("norm", "doit")),
                        "heavIntCrash": any(q_["k"] in ("norm", "doit") and q_["a"][0] == "H" for q_ in tab)
                        or "AttributeError" in (model[1], real_g[1]),
                        "relCorner": any(q_["k"] == "rel" and q_["a"] is True for q_ in tab)}
                cons = []
                for name, cfg in CFGS.items():
                    if name == "repaired":
                        ok_v = rec["agree"]
                    elif all(cfg[fl] == _REPAIRED[fl] or not sens[fl] for fl in _FLAGS):
                        ok_v = rec["agree"]          # differs only in switches that cannot matter here
                    elif rec["agree"] and not any(sens[fl] for fl in _FLAGS if cfg[fl] != _REPAIRED[fl]):
                        ok_v = True
                    else:
                        mv = cosim(drv, {**req, "cfg": cfg}, orc)
                        ok_v = mv[0] in ("v", "exc") and same_outcome(mv)
                    if ok_v:
                        cons.append(name)
                rec["consistent_variants"] = cons
            bad_or = validate_oracle_table(orc.table, syms, box)
            out["oracle_answers"] += len(orc.table)
            for b in bad_or:
                if b not in out["oracle_unsound"]:
                    out["oracle_unsound"].append(b)
            rec["oracle_unsound"] = bad_or
        if real[0] == "v":
            if kind == "sign":
                j = judge_sign(real[1], sc, tol)
            else:
                mo = X.mono(fn, box, idx[s])
                j = judge_mono(real[1], mo)
                rec["mono"] = {"inc": mo["inc"] is not None, "dec": mo["dec"] is not None}
                if tree is not None and sc["undefined"] == 0:
                    lm = drv.ask("C09", {"op": "mono", "f": tree, "box": box, "s": idx[s]})
                    if (lm.get("inc"), lm.get("dec"), lm.get("pairs")) != (mo["inc"], mo["dec"], mo["pairs"]):
                        out["tie"] = out["tie"] or f"Lean mono {lm} != python mono {mo}"
            if j:
                if rec.get("oracle_unsound") and same:
                    key = f"{kind}:sympy-{rec['oracle_unsound'][0]['k']}-unsound"
                elif kind == "sign":
                    key = classify_sign(f, syms, box, td, real[1], limit)
                else:
                    key = classify_diff(f, s, syms, box, real[1], limit)
                rec["bad"] = {"key": key, "what": j[0], "point": j[1], "value": (str(j[2]) if len(j) > 2 else None)}
        out["checks"].append(rec)
    return out


# ----------------------------------------------------------------------------------------------------------------
# shrinking a failing (formula, box, check)
# ----------------------------------------------------------------------------------------------------------------


def _still_fails(drv, f, syms, box, kind, td, s, key, limit):
    if s is not None and s not in f.free_symbols:
        return None
    try:
        r = check_formula(drv, f, syms, box, limit=limit, do_cosim=True,
                          tdncz_modes=((td,) if kind == "sign" else ()), diff_syms=([s] if kind == "deriv" else []))
    except Exception:
        return None
    for ch in r["checks"]:
        if ch.get("bad") and ch["bad"]["key"] == key:
            return ch
    return None


def shrink_failure(drv, f, syms, box, kind, td, s, key, limit: float = 10.0, budget: int = 40):
    """Greedy: drop summands / Max-Min arguments, then narrow the box; keeps the classifier key."""
    import sympy

    best = (f, [list(b) for b in box], None)
    changed = True
    while changed and budget > 0:
        changed = False
        f0, box0, _ = best
        cands = []
        if isinstance(f0, (sympy.Add, sympy.Max, sympy.Min)) and len(f0.args) > 1:
            for i in range(len(f0.args)):
                cands.append((f0.func(*[a for j, a in enumerate(f0.args) if j != i]), box0))
        for i, (lo, hi) in enumerate(box0):
            if hi > lo:
                cands.append((f0, [b if j != i else [lo, hi - 1] for j, b in enumerate(box0)]))
                cands.append((f0, [b if j != i else [lo + 1, hi] for j, b in enumerate(box0)]))
        for g, bx in cands:
            if budget <= 0:
                break
            budget -= 1
            ch = _still_fails(drv, sympy.sympify(g), syms, bx, kind, td, s, key, limit)
            if ch is not None:
                best = (sympy.sympify(g), bx, ch)
                changed = True
                break
    return best
