"""C08 machinery: run the real `make_tile_shapes(job)` on a template, capture what `_make_tile_shapes` hands to the
explorer, enumerate ALL valid tile assignments independently and evaluate every formula exactly.

Independent of the explorer: the candidate relation between neighbouring tile shapes (`get_possible_factor_sizes`, proved
exact in C10), exact rational evaluation of the model's formulas, validity straight from the captured Objective list
(max_value / min_value / inclusive) and the loop-count groups.
"""
from __future__ import annotations

import copy
import itertools
from fractions import Fraction

from harness import exprlib9 as X

_M = None


def module():
    global _M
    if _M is None:
        from harness import cmp9

        _M = cmp9.module()
    return _M


class Capture:
    """What `_make_tile_shapes` passes to `get_tile_shape_choices` and what `run_model` returned."""

    def __init__(self):
        self.kw = None
        self.model = None
        self.goals = []          # (formula str, enumerated symbols, {sub-formula: goal}) from make_evalable_objectives_from_formula
        self.coalesced = []      # (enumerated symbols, {formula: goal}) from coalesce_symbols
        self.n_pareto_calls = 0
        self.max_choices = 0


def run_real(job, log_goals: bool = True):
    """make_tile_shapes(job) on a deep copy, with spies. Returns (df | exception, Capture)."""
    M = module()
    cap = Capture()
    job = copy.deepcopy(job)
    o_get, o_run, o_mk, o_co, o_par = (M.get_tile_shape_choices, M.run_model, M.make_evalable_objectives_from_formula,
                                       M.coalesce_symbols, M.makepareto_numpy)

    def spy_get(**kw):
        cap.kw = dict(kw)
        cap.kw["objectives"] = [copy.copy(o) for o in kw["objectives"]]   # max_value is cleared during the run
        return o_get(**kw)

    def spy_run(j):
        r = o_run(j)
        cap.model = r
        return r

    def spy_mk(f, symbols_enumerated, bounds, *a, **k):
        r = o_mk(f, symbols_enumerated, bounds, *a, **k)
        if log_goals:
            try:
                cap.goals.append((f, tuple(sorted(symbols_enumerated, key=str)), {kk: vv.goal for kk, vv in r[0].items()}, bounds,
                                  k.get("outer_goal", a[3] if len(a) > 3 else "min")))
            except Exception:
                pass
        return r

    def spy_co(**k):
        r = o_co(**k)
        if log_goals:
            cap.coalesced.append((tuple(k["symbols_enumerated"]), {kk: vv.goal for kk, vv in r.items()}, k["bounds"]))
        return r

    def spy_par(mappings, goals, **k):
        cap.n_pareto_calls += 1
        cap.max_choices = max(cap.max_choices, mappings.shape[0])
        return o_par(mappings, goals, **k)

    M.get_tile_shape_choices, M.run_model, M.make_evalable_objectives_from_formula, M.coalesce_symbols, M.makepareto_numpy = (
        spy_get, spy_run, spy_mk, spy_co, spy_par)
    try:
        try:
            df, _t2m = M.make_tile_shapes(job)
        except Exception as e:  # an observable outcome
            return e, cap, job
        return df, cap, job
    finally:
        M.get_tile_shape_choices, M.run_model, M.make_evalable_objectives_from_formula, M.coalesce_symbols, M.makepareto_numpy = (
            o_get, o_run, o_mk, o_co, o_par)


def to_sympy(v, symbols):
    import sympy

    f = sympy.sympify(v)
    by = {s.name: s for s in symbols}
    rep = {s: by[s.name] for s in f.free_symbols if s.name in by and s is not by[s.name]}
    return f.xreplace(rep) if rep else f


def all_assignments(cap: Capture, job, limit: int):
    """Every assignment of the template's tile-shape symbols allowed by the candidate relation, in `symbols` order.
    Returns None if there are more than `limit`, or the template has symbols this enumerator does not handle."""
    M = module()
    from accelforge.frontend.mapping import Loop
    from sympy import Symbol

    rel = cap.kw["what_tiles_symbol"]
    symbols = list(cap.kw["symbols"])
    if any(rel.is_initial_tile_shape(s) for s in symbols):
        return None
    sym2loop = {n.tile_shape: n for n in job.mapping.nodes if isinstance(n, Loop) and isinstance(n.tile_shape, Symbol)}
    coarse = job.spec_one_einsum.mapper.tiling_coarseness
    # inner -> outer along every chain
    order = [s for s in reversed(rel.tiling_order_outer_to_inner) if isinstance(s, Symbol) and s in symbols]
    if set(order) != set(symbols):
        return None
    partial = [dict()]
    for s in order:
        inner = rel.get_inner_tiles(s, none_if_fail=True)
        outer = rel.get_outer_tiles(s, none_if_fail=True)
        imp = bool(sym2loop[s]._may_cause_imperfect)
        nxt = []
        for a in partial:
            iv = a[inner] if isinstance(inner, Symbol) else (int(inner) if inner is not None else 1)
            ov = int(outer) if not isinstance(outer, Symbol) else int(rel.get_max_size(outer))
            for v in M.get_possible_factor_sizes(ov, imp, iv, coarse):
                b = dict(a)
                b[s] = int(v)
                nxt.append(b)
            if len(nxt) > limit:
                return None
        partial = nxt
    return [[a[s] for s in symbols] for a in partial]


def loop_count_ok(cap: Capture, symbols, row) -> bool:
    """check_loops on a complete assignment: in every group at most `limit` tile shapes differ from the tile they sit in."""
    from sympy import Symbol

    rel = cap.kw["what_tiles_symbol"]
    val = dict(zip(symbols, row))

    def size(x):
        return val[x] if isinstance(x, Symbol) else x

    for limit, group in cap.kw["max_loop_check_groups"]:
        if len(group) <= limit:
            continue
        n = 0
        for g in group:
            if isinstance(g, Symbol):
                n += int(size(rel.get_outer_tiles(g)) != size(g))
        if n > limit:
            return False
    return True


def exact_table(cap: Capture, job, rows: list, pareto_cols: list):
    """For every assignment: (valid?, borderline?, exact vector of the Pareto columns)."""
    import sympy

    symbols = list(cap.kw["symbols"])
    idx = {s: i for i, s in enumerate(symbols)}
    objs = []
    for o in cap.kw["objectives"]:
        if o.max_value is None and o.min_value is None:
            continue
        objs.append((o, X.compile_eval(to_sympy(o.formula, symbols), idx)))
    _syms, sdf, pmu, usage, _t2m, _act = cap.model
    allf = {**{k: v for k, v in sdf.items()}, **pmu, **usage}
    def col_fn(c):
        if c == "Total<SEP>energy":
            f = to_sympy(allf["Total<SEP>leak_energy"], symbols) + to_sympy(allf["Total<SEP>dynamic_energy"], symbols)
        else:
            f = to_sympy(allf[c], symbols)
        return X.compile_eval(sympy.sympify(f), idx)

    fns = []
    for c in pareto_cols:
        if isinstance(c, (list, tuple)):      # a group of columns the pipeline collapses into their maximum
            gs = [col_fn(x) for x in c]
            fns.append(lambda row, gs=gs: max(g(row) for g in gs))
        else:
            fns.append(col_fn(c))
    out = []
    eps = Fraction(1, 10 ** 6)
    for row in rows:
        valid, border = True, False
        for o, fn in objs:
            v = fn(row)
            if o.max_value is not None:
                mv = Fraction(o.max_value)
                ok = v <= mv if o.inclusive else v < mv
                if abs(v - mv) <= eps * max(1, abs(mv)) and v != mv:
                    border = True
                valid &= ok
            if o.min_value is not None and not o.try_best_if_none_reaches_min:
                mv = Fraction(o.min_value)
                ok = v >= mv if o.inclusive else v > mv
                if abs(v - mv) <= eps * max(1, abs(mv)) and v != mv:
                    border = True
                valid &= ok
        if valid and not loop_count_ok(cap, symbols, row):
            valid = False
        out.append((valid, border, [fn(row) for fn in fns] if valid else None))
    return out


def pipeline_pareto_columns(df_columns, job) -> list:
    """The columns the pipeline's Pareto filter sees for a template without fused loops
    (make_pmappings_from_templates → PmappingDataframe(next_shared_loop_index=-1) → makepareto):
    every `Total<SEP>…` column, and per resource ONE reservation column = max(deepest right reservation, the level-0 one)
    (free_to_loop_index(-1) drops the shallower running totals); reservations of memories tracked for pmappings only are dropped."""
    from accelforge.mapper.FFM._pareto_df.df_convention import col2reservation, is_objective_col

    cols, per_res = [], {}
    for c in df_columns:
        r = col2reservation(c)
        if r is not None:
            if r.name in (job.memories_track_pmappings_only or []):
                continue
            per_res.setdefault(r.name, {})[r.nloops] = c
        elif is_objective_col(c):
            cols.append(c)
    for name in sorted(per_res):
        lv = per_res[name]
        deep = [l for l in lv if l >= 1]
        keep = ([lv[max(deep)]] if deep else []) + ([lv[0]] if 0 in lv else [])
        cols.append(keep)
    return cols


def front(vectors: list) -> list:
    """All-pairs Pareto front (all coordinates minimised) of a list of exact vectors; returns the set of vectors."""
    uniq = sorted(set(tuple(v) for v in vectors))
    res = []
    for v in uniq:
        if not any(all(a <= b for a, b in zip(w, v)) and w != v for w in uniq):
            res.append(v)
    return res
