"""Bridge between the seeded spec family (harness/mapperlib.py) and the Lean reference mapspace (AFV/Spec/Mapspace.lean,
driver ops of C01).

`describe(params)` asks the repo's OWN front end (Spec.from_yaml + per-Einsum expression evaluation) what the spec demands
— rank-variable bounds, tensors and their projections, per memory level keep / may_keep sets, sizes, action energies and
throughputs — and renders it as the JSON spec description of the driver.  Nothing is re-derived from `params`.

Rank variables are numbered globally over the workload (sorted names); a rank variable foreign to an Einsum has bound 1 there.
Tensors are numbered per Einsum (sorted names, the order the model iterates them in).
Encodings: `size: inf` → flag in "inf" (usage 0); `throughput: inf` → 0 (Lean's `Rat` has x / 0 = 0, the limit value).
"""
from __future__ import annotations

import copy
import math
from fractions import Fraction

from harness import mapperlib as ML


def _q(x):
    f = Fraction(x)
    return int(f.numerator) if f.denominator == 1 else [int(f.numerator), int(f.denominator)]


def _thr(x):
    x = float(x)
    return 0 if math.isinf(x) else _q(Fraction(x))


class Unsupported(Exception):
    pass


def describe(params: dict, force_order: bool | None = None) -> dict:
    """→ {"levels": [memory names], "compute": name, "rvs": [names], "einsums": [{"name", "tensors": [names], "spec": <driver JSON>}],
         "D": suggested integer scale}"""
    import accelforge.frontend.arch as A
    from accelforge.frontend._workload_isl._isl import get_rank_variable_bounds

    spec = ML.build_spec(params)
    if force_order is None:
        force_order = bool(spec.mapper.force_memory_hierarchy_order)
    names = [str(e) for e in spec.workload.einsum_names]
    per = []
    all_rvs = set()
    for e in names:
        s = copy.deepcopy(spec)._spec_eval_expressions(einsum_name=e)
        per.append(s)
        all_rvs |= set(map(str, s.workload.einsums[e].rank_variables))
    rvs = sorted(all_rvs)
    out = {"rvs": rvs, "einsums": [], "levels": None, "compute": None}
    dens = set()
    ninst_w = Fraction(spec.workload.n_instances)
    for e, s in zip(names, per):
        ein = s.workload.einsums[e]
        bounds_d = {str(k): int(v) for k, v in get_rank_variable_bounds(s.workload, e).items()}
        tnames = sorted(map(str, ein.tensor_names))
        tensors = []
        for t in tnames:
            ta = next(a for a in ein.tensor_accesses if str(a.name) == t)
            proj = ta.projection
            rv_list = []
            for rank, expr in proj.items():
                ex = str(expr)
                if ex not in rvs:
                    raise Unsupported(f"projection {rank}: {ex} is not a single rank variable")
                rv_list.append(rvs.index(ex))
            tensors.append({"rvs": rv_list, "out": bool(ta.output), "bpv": _q(Fraction(ta.bits_per_value))})
        levels, rules, inf, lnames = [], [], [], []
        compute = None
        for node in s.arch.get_nodes_of_type(A.Leaf):
            if isinstance(node, A.Memory):
                li = len(levels)
                lnames.append(str(node.name))
                acts = {str(a.name): a for a in node.actions}
                size = float(node.size)
                inf.append(math.isinf(size))

                def act(a):
                    return {"e": _q(Fraction(a.energy)), "thr": _thr(a.throughput), "bpa": _q(Fraction(a.bits_per_action)), "vpa": []}

                if getattr(node, "values_per_action", None) or getattr(node, "bits_per_value", None):
                    raise Unsupported("per-component values_per_action / bits_per_value")
                levels.append({
                    "toll": False, "size": 1 if math.isinf(size) else _q(Fraction(size)), "leak": _q(Fraction(node.leak_power)),
                    "ascale": _q(Fraction(getattr(node, "actions_scale", 1))), "skip": bool(node.skip_initial_output_write),
                    "bpv": [], "bpa": None, "vpa": [], "read": act(acts["read"]), "write": act(acts["write"]), "dir": []})
                for a in (acts["read"], acts["write"]):
                    thr = float(a.throughput)
                    if not math.isinf(thr):
                        dens.add(Fraction(thr).numerator)
                if not math.isinf(size):
                    dens.add(Fraction(size).numerator)
                tn = node.tensors

                def tset(x, what):
                    if isinstance(x, str):
                        raise Unsupported(f"{what} expression {x!r} not evaluated")
                    return sorted(tnames.index(str(t)) for t in x if str(t) in tnames)

                k = tn.keep
                notin = None
                if isinstance(k, str):
                    kk = k.strip()
                    if kk.startswith("~") and kk[1:] in lnames[:-1]:
                        notin = lnames.index(kk[1:])
                        keep = []
                    else:
                        raise Unsupported(f"keep expression {k!r}")
                else:
                    keep = tset(k, "keep")
                back = tn.back
                if not isinstance(back, str) and len(list(back)):
                    raise Unsupported("tensors.back")
                may = tset(tn.may_keep, "may_keep")
                if not bool(tn.force_memory_hierarchy_order):
                    raise Unsupported("per-component force_memory_hierarchy_order = False")
                if list(tn.tensor_order_options) or list(tn.tile_shape):
                    raise Unsupported("tensor_order_options / tile_shape constraints")
                rules.append({"keep": keep, "may": may, "notin": notin})
            elif isinstance(node, A.Compute):
                a = {str(x.name): x for x in node.actions}["compute"]
                compute = {"e": _q(Fraction(a.energy)), "thr": _thr(a.throughput), "leak": _q(Fraction(node.leak_power)),
                           "ascale": _q(Fraction(getattr(node, "actions_scale", 1))), "skip": bool(node.skip_initial_output_write)}
                thr = float(a.throughput)
                if not math.isinf(thr):
                    dens.add(Fraction(thr).numerator)
                out["compute"] = str(node.name)
            elif isinstance(node, A.Toll):
                raise Unsupported("Toll level")
            else:
                if getattr(node, "get_fanout", lambda: 1)() > 1:
                    raise Unsupported("spatial fanout")
        out["levels"] = lnames
        ninst = ninst_w * Fraction(ein.n_instances)
        desc = {"arch": {"levels": levels, "compute": compute}, "bounds": [bounds_d.get(r, 1) if r in map(str, ein.rank_variables) else 1 for r in rvs],
                "tensors": tensors, "ninst": _q(ninst), "rules": rules, "inf": inf, "force": bool(force_order)}
        out["einsums"].append({"name": e, "tensors": tnames, "spec": desc})
    D = 1
    for d in dens:
        D = D * d // math.gcd(D, d)
    out["D"] = D
    return out


def mapping_to_export(desc: dict, ei: int, m: list) -> dict:
    """Driver mapping (one Einsum) → the export format of mapperlib (for mapping_to_yaml / evaluate)."""
    e = desc["einsums"][ei]
    nest = []
    for n in m:
        if n[0] == "S":
            nest.append({"storage": desc["levels"][n[1]], "tensors": [e["tensors"][t] for t in n[2]]})
        elif n[0] == "L":
            nest.append({"loop": desc["rvs"][n[1]], "tile": n[2]})
        elif n[0] == "C":
            nest.append({"compute": desc["compute"], "einsum": e["name"]})
        else:
            raise ValueError(n)
    return {"nest": nest}


def export_to_mapping(desc: dict, ei: int, path: list) -> list:
    """Root-to-compute node list of an exported mapping (mapperlib.flat_einsum_paths) → driver mapping of Einsum `ei`:
    multi-tensor storage nodes are split (one node per tensor, sorted), tensors of other Einsums dropped."""
    e = desc["einsums"][ei]
    m = []
    for n in path:
        if "storage" in n:
            l = desc["levels"].index(n["storage"])
            for t in sorted(n["tensors"]):
                if t in e["tensors"]:
                    m.append(["S", l, [e["tensors"].index(t)], True])
        elif "loop" in n:
            m.append(["L", desc["rvs"].index(n["loop"]), int(n["tile"])])
        elif "compute" in n:
            m.append(["C"])
        else:
            raise Unsupported(f"node {n}")
    return m


def qf(q) -> Fraction:
    if isinstance(q, list):
        return Fraction(int(q[0]), int(q[1]))
    return Fraction(int(q))


# ======================================================================================================================
# shared machinery of the mapspace-level checks (C01, C02)
# ======================================================================================================================

REL = 2e-5   # float32 accumulation in the joiner / float64 in the detailed re-evaluation


def supported_params(rng, *, n_einsums=None, levels=None, kind=None) -> dict:
    """A member of the mapperlib family that lies inside the modelled fragment (no spatial fanout, no Toll)."""
    p = ML.gen_params(rng, n_einsums=n_einsums, levels=levels, kind=kind, allow_fanout=False)
    p["fanout"] = 0
    return p


def bounds_of(p):
    wl = p["workload"]
    return [wl["M"], wl["KN"]] if wl["kind"] == "matmuls" else [wl["A"], wl["B"], wl["C"]]


def shrink_bounds(p, rng):
    """Make one rank bound smaller (next smaller value with ≥ 1 proper divisor … down to 2)."""
    wl = p["workload"]
    keys = ["M", "KN"] if wl["kind"] == "matmuls" else ["A", "B", "C"]
    order = [2, 3, 4, 6, 8, 12]
    big = [k for k in keys if wl[k] > 2]
    if not big:
        return False
    k = max(big, key=lambda k: (wl[k], rng.random()))
    wl[k] = order[order.index(wl[k]) - 1] if wl[k] in order else 2
    return True


def _choice_ok(S, held):
    nl, nt = len(S["rules"]), len(S["tensors"])
    hs = set(held)

    def must(r, t):
        return t in r["keep"] or (r["notin"] is not None and (r["notin"], t) not in hs)

    for (l, t) in held:
        r = S["rules"][l]
        if not (must(r, t) or t in r["may"]):
            return False
    for l in range(nl):
        for t in range(nt):
            if must(S["rules"][l], t) and (l, t) not in hs:
                return False
    return all(any(k[1] == t for k in held) for t in range(nt))


def estimate_size(S, cap=10 ** 9) -> int:
    """Number of members of the reference mapspace of one Einsum, by a memoised recursion over the enumerator's states
    (budgeting only: the driver's scan reports the true number, which the check compares with this one)."""
    import itertools
    from functools import lru_cache

    nl, nt = len(S["rules"]), len(S["tensors"])
    force = S["force"]
    rel = [set(t["rvs"]) for t in S["tensors"]]
    keys = [(l, t) for l in range(nl) for t in range(nt)]

    def above(a, b):
        return ((not force) or a[0] <= b[0]) and (a[1] != b[1] or a[0] < b[0]) and (not (a[0] == 0 and b[0] == 0) or a[1] < b[1])

    @lru_cache(maxsize=None)
    def count(shape, todo, seen_loop, held):
        n = 1 if (not todo and all(x == 1 for x in shape)) else 0
        for k in todo:
            rest = tuple(x for x in todo if x != k)
            if all(above(k, o) for o in rest) and not (seen_loop and k[0] == 0):
                n += count(shape, rest, seen_loop, tuple(sorted(set(held) | {k[1]})))
        hs = set(held)
        for rv, cur in enumerate(shape):
            if all(t in hs or rv in rel[t] for t in range(nt)):
                for tile in range(1, cur):
                    if cur % tile == 0:
                        n += count(shape[:rv] + (tile,) + shape[rv + 1:], todo, True, held)
        return n

    total = 0
    for r in range(len(keys) + 1):
        for ch in itertools.combinations(keys, r):
            if _choice_ok(S, ch):
                total += count(tuple(S["bounds"]), tuple(ch), False, ())
                if total > cap:
                    return total
    return total


def space_size(drv, desc, cap=10 ** 9) -> int:
    return sum(estimate_size(e["spec"], cap) for e in desc["einsums"])


def intermediate(desc):
    """For a 2-Einsum chain: (tensor id in Einsum 0, tensor id in Einsum 1) of the tensor both access."""
    t0, t1 = desc["einsums"][0]["tensors"], desc["einsums"][1]["tensors"]
    sh = sorted(set(t0) & set(t1))
    if len(sh) != 1:
        raise Unsupported(f"Einsums share {sh}")
    return t0.index(sh[0]), t1.index(sh[0]), sh[0]


def _rv_bound(p, rv):
    wl = p["workload"]
    if wl["kind"] == "matmuls":
        return wl["M"] if rv == "m" else wl["KN"]
    return wl[rv.upper()]


def _patch_bounds(p, desc):
    """Bounds of `desc` re-derived from params (used only while searching for a size that fits; the accepted candidate is
    re-described by the repo's front end and must give the same description)."""
    for e in desc["einsums"]:
        S = e["spec"]
        S["bounds"] = [(_rv_bound(p, rv) if b != 1 or _rv_in(e, desc, i) else 1) for i, (rv, b) in enumerate(zip(desc["rvs"], S["bounds"]))]


def _rv_in(e, desc, i):
    return any(i in t["rvs"] for t in e["spec"]["tensors"])


def gen_family(ctx, drv, n, limit, mix):
    """Up to n accepted (params, desc, size) with |all| ≤ limit; slot i uses mix[i % len(mix)] = (n_einsums, levels, kind).
    A candidate whose reference mapspace is too large gets its largest rank bound reduced until it fits."""
    import copy as _copy

    out = []
    for i in range(n):
        ne, lv, kind = mix[i % len(mix)]
        for _ in range(6):
            p = supported_params(ctx.rng, n_einsums=ne, levels=lv, kind=kind)
            try:
                desc = describe(p)
            except Unsupported:
                continue
            trial = _copy.deepcopy(desc)
            shrunk = False
            ok = True
            while True:
                size = space_size(drv, trial, 50 * limit)
                if size <= limit:
                    break
                if not shrink_bounds(p, ctx.rng):
                    ok = False
                    break
                shrunk = True
                _patch_bounds(p, trial)
            if not ok:
                continue
            if shrunk:
                if p["glb_size"] != "inf":
                    # keep the buffer size tied to the (new) footprint: 1/8 … 1 of all tensors of one Einsum, so that capacity
                    # binds sometimes and exactly-full mappings (usage = 1) occur
                    wl = p["workload"]
                    elems = (2 * wl["M"] * wl["KN"] + wl["KN"] ** 2) if wl["kind"] == "matmuls" else (wl["A"] * wl["C"] + wl["C"] * wl["B"] + wl["A"] * wl["B"])
                    p["glb_size"] = max(ctx.rng.choice([1, 2, 3, 5, 8]) * elems * p["bits"] // 8, p["bits"] * 3)
                desc = describe(p)   # authoritative: from the repo's front end
                if [e["spec"]["bounds"] for e in desc["einsums"]] != [e["spec"]["bounds"] for e in trial["einsums"]]:
                    raise RuntimeError("bounds patched from params differ from the front end's")
            out.append((p, desc, size))
            break
    return out


def family(ctx, drv, n, limit, mix):
    """The specs of a run: `--replay file` → exactly the spec of that replay; otherwise the corpus of minimised past failures
    (corpus/<id>/*.json, each {"replay": {"params": …}} or {"params": …}) followed by n seeded members."""
    import json
    from pathlib import Path
    from harness.core import CORPUS_DIR

    def entry(body):
        rp = body.get("replay", body)
        p = rp["params"]
        desc = describe(p)
        return (p, desc, space_size(drv, desc))

    if ctx.replay:
        return [entry(json.loads(Path(ctx.replay).read_text()))]
    fam = []
    d = CORPUS_DIR / ctx.pid
    if d.is_dir():
        for f in sorted(d.glob("*.json")):
            fam.append(entry(json.loads(f.read_text())))
    return fam + gen_family(ctx, drv, n, limit, mix)


def mapper_work(job):
    """Worker: run the real mapper for each metric set; keep objective values, usage and the exported mappings."""
    params, metric_sets = job
    out = {}
    for name, mets in metric_sets:
        r = ML.run_mapper(params, mets)
        out[name] = {"error": r["error"], "rows": r["rows"], "columns": r.get("columns", [])}
    return out


def eval_work(job):
    """Worker: evaluate_mapping on an exported mapping."""
    params, export = job
    return ML.strip(ML.evaluate(params, export))


class Scanner:
    """Runs the Lean scans on several driver processes (native; the GIL is released while waiting on the pipe)."""

    def __init__(self, n_proc):
        from harness.core import Driver
        self.drivers = [Driver() for _ in range(max(1, n_proc))]

    def close(self):
        for d in self.drivers:
            d.close()

    def run(self, reqs):
        """reqs: list of driver requests → replies in order (requests are spread over the driver processes)."""
        import concurrent.futures as cf
        import queue

        q = queue.Queue()
        for d in self.drivers:
            q.put(d)

        def one(req):
            d = q.get()
            try:
                return d.ask("C01", req)
            finally:
                q.put(d)

        with cf.ThreadPoolExecutor(len(self.drivers)) as ex:
            return list(ex.map(one, reqs))


OBJS_ALL = {"energy": True, "latency": True, "usage": True}


def scan_requests(desc, parts=1):
    """Driver requests that together cover the whole reference mapspace of `desc` with objective vectors
    (energy, latency, usage per level), scaled by D."""
    if len(desc["einsums"]) == 1:
        S = desc["einsums"][0]["spec"]
        return [{"op": "scan", "spec": S, "objs": OBJS_ALL, "D": desc["D"], "part": [i, parts]} for i in range(parts)]
    x0, x1, _ = intermediate(desc)
    return [{"op": "scan2", "spec0": desc["einsums"][0]["spec"], "spec1": desc["einsums"][1]["spec"], "x0": x0, "x1": x1,
             "objs": OBJS_ALL, "D": desc["D"]}]


def merge_scans(desc, replies):
    """→ {"n", "valid", "best": {metric: (Fraction, witness)}, "rows": [[ints]] (union of the partial fronts), "scale": …}
    witness: ("single", mapping) or ("pair", half0, half1)."""
    D = desc["D"]
    res = {"n": 0, "valid": 0, "best": {}, "strict": {}, "rows": [], "two": len(desc["einsums"]) == 2}
    for r in replies:
        if "err" in r:
            raise RuntimeError(f"driver scan: {r}")
        if not r.get("exact", False):
            raise RuntimeError("driver: scale D does not clear the denominators of the cost vectors")
        if res["two"]:
            res["n"] += r["n0"] + r["n1"]
            res["valid"] += r["valid"]
            res["pairs"] = r["pairs"]
            res["halves"] = (r["halves0"], r["halves1"])
            for k, den in (("energy", D), ("latency", D), ("edp", D * D)):
                b = r["best"][k]
                if b is not None:
                    res["best"][k] = (Fraction(b["v"], den), ("pair", b["a"], b["b"]))
                b = r["bestStrict"][k]
                if b is not None:
                    res["strict"][k] = (Fraction(b["v"], den), ("pair", b["a"], b["b"]))
        else:
            res["n"] += r["n"]
            res["valid"] += r["valid"]
            if r["unevaluable"]:
                raise RuntimeError(f"{r['unevaluable']} members of the reference mapspace are not evaluable by the Lean cost model")
            for k in ("energy", "latency", "edp"):
                b = r["best"][k]
                if b is not None:
                    v = qf(b["v"])
                    if k not in res["best"] or v < res["best"][k][0]:
                        res["best"][k] = (v, ("single", b["m"]))
                b = r["bestStrict"][k]
                if b is not None:
                    v = qf(b["v"])
                    if k not in res["strict"] or v < res["strict"][k][0]:
                        res["strict"][k] = (v, ("single", b["m"]))
        res["rows"] += r["front"]
    return res


def usage_scale(desc):
    """Divisors turning the usage coordinates of a scanned row into fractions of the memory size."""
    S = desc["einsums"][0]["spec"]
    D = desc["D"]
    out = []
    for lv, inf in zip(S["arch"]["levels"], S["inf"]):
        if len(desc["einsums"]) == 1:
            out.append(Fraction(D))
        else:
            out.append(Fraction(D) * qf(lv["size"]))
    return out


def witness_export(drv, desc, wit):
    """Driver witness → exported mapping tree (mapperlib format) of the whole workload."""
    if wit[0] == "single":
        return mapping_to_export(desc, 0, wit[1]), [wit[1]]
    x0, x1, _ = intermediate(desc)
    ms = []
    for ei, (x, h) in enumerate(((x0, wit[1]), (x1, wit[2]))):
        m = drv.ask("C01", {"op": "find", "spec": desc["einsums"][ei]["spec"], "x": x, "D": desc["D"], "half": h})
        if m is None or isinstance(m, dict):
            raise RuntimeError(f"driver find: {m}")
        ms.append(m)
    return fuse_export(desc, ms[0], ms[1]), ms


def _backing_index(m, x):
    for i, n in enumerate(m):
        if n[0] == "S" and x in n[2]:
            return i
    raise ValueError("intermediate tensor not held")


def fuse_export(desc, m0, m1):
    """The LoopTree a compatible pair denotes: shared prefix (storage nodes of both halves around the common loops), then
    Sequential of the two remainders (each starting at the intermediate tensor's backing holder)."""
    x0, x1, _ = intermediate(desc)
    i0, i1 = _backing_index(m0, x0), _backing_index(m1, x1)
    pre0, pre1 = m0[:i0], m1[:i1]
    e0 = mapping_to_export(desc, 0, m0)["nest"]
    e1 = mapping_to_export(desc, 1, m1)["nest"]
    prefix = []
    j = 0
    # walk the prefix of Einsum 0; before each loop (and at the end) emit Einsum 1's storage nodes standing there
    def flush_until_loop():
        nonlocal j
        while j < len(pre1) and pre1[j][0] == "S":
            prefix.append(e1[j])
            j += 1
    for k, n in enumerate(pre0):
        if n[0] == "L":
            flush_until_loop()
            assert j < len(pre1) and pre1[j] == n, "halves are not compatible"
            j += 1
        prefix.append(e0[k])
    flush_until_loop()
    assert j == len(pre1)
    if m0[i0][1] == 0 and not any(n[0] == "L" for n in pre0):
        # unfused (intermediate backed in the outermost memory): two independent nests in sequence
        return {"nest": [{"seq": [{"nest": e0}, {"nest": e1}]}]}
    return {"nest": prefix + [{"seq": [{"nest": e0[i0:]}, {"nest": e1[i1:]}]}]}


def mapping_features(desc, ms):
    """Which template rule of the real mapper would have excluded this reference mapping (classifier for failure keys)."""
    feats = set()
    for ei, m in enumerate(ms):
        tens = desc["einsums"][ei]["spec"]["tensors"]
        held = set()       # tensors with a holder above the current node
        block = []         # rank variables of the loops since the last storage node
        prev = None        # previous node
        prev_backing = False
        for n in m:
            if n[0] == "L":
                if n[1] in block:
                    feats.add("rank-variable-twice-in-block")
                if prev is not None and prev[0] == "S" and not prev_backing and n[1] in tens[prev[2][0]]["rvs"]:
                    feats.add("nonbacking-holder-above-relevant-loop")
                block.append(n[1])
            elif n[0] == "S":
                t = n[2][0]
                if prev is not None and prev[0] == "L" and prev[1] not in tens[t]["rvs"]:
                    feats.add("holder-below-irrelevant-loop")
                if prev is not None and prev[0] == "S" and prev[2][0] == t:
                    feats.add("same-tensor-back-to-back")
                prev_backing = t not in held
                held.add(t)
                block = []
            prev = n
    return sorted(feats) or ["template-like"]


KNOWN_FULL = "exactly-full-mapping-missed:float32-capacity-check"


def exactly_full(ev) -> bool:
    """Does the real evaluate_mapping report some memory filled exactly (usage = 1)?"""
    return any(u is not None and abs(u - 1.0) <= 1e-9 for u in (ev.get("usage") or {}).values())
