"""Join-level machinery shared by the C13 / C14 checks (tuple oracle, table sub-sampling, shrinker).

Everything here drives /repo's CURRENT code in-process:

* `make_tables(params, metrics)`            → MultiEinsumPmappings from the public `make_pmappings`
* `Tables`                                  → per-Einsum list of row ids (einsum, group index, row index) + helpers that build a
                                              MultiEinsumPmappings holding any subset of the rows, in any Einsum order
* `singleton_join(tables, choice)`          → joins ONE row per Einsum with the real code (for_model=True: one join, no thresholds,
                                              no optimality filter; RESOURCE_USAGE switched on so that no memory is "untracked"
                                              and the final reservation columns are visible).  A join of singletons involves no
                                              pruning decision: it yields exactly one row (compatible and within capacity) or none.
* `tuple_oracle(tables)`                    → all compatible one-row-per-Einsum combinations with their final column values
* `public_join(tables, rows, order, …)`     → the public staged join on a subset of the rows
* `exact_join(…)`                           → the internal single exact join (`for_model=True`)

The reference never looks at the code's grouping / pruning / threshold decisions: compatibility of a combination and its combined
reservations come from the singleton joins, objectives are ALSO re-added exactly from the rows (additivity check), the Pareto front
is computed by the Lean driver.
"""
from __future__ import annotations

import itertools
import os
import time
from fractions import Fraction
from pathlib import Path

from harness import mapperlib as ML

SPECS = Path(__file__).resolve().parent / "specs"
SEP = "<SEP>"
TOTAL = "Total" + SEP

# --------------------------------------------------------------------------------------
# spec family for joins
# --------------------------------------------------------------------------------------


def gen_join_params(rng, *, n_einsums=None, shape=None, tight=None, levels=None) -> dict:
    """A small multi-Einsum spec (JSON-able).  shape: chain (matmul chain), fork (one producer, two consumers),
    merge (two producers, one consumer).  `tight`: GlobalBuffer a little above the minimum footprint so that capacity binds."""
    shape = shape or rng.choice(["chain", "chain", "chain", "fork", "merge"])
    n = n_einsums or (rng.choice([2, 2, 3]) if shape == "chain" else 3)
    if shape != "chain":
        n = 3
    p = ML.gen_params(rng, n_einsums=max(n, 2), kind="matmuls", levels=levels or rng.choice([2, 2, 3]), finite_glb=True)
    big = n == 2
    M = rng.choice([2, 3, 4, 6] if big else [2, 3, 4])
    KN = rng.choice([2, 3, 4, 6] if big else [2, 3, 4])
    p["workload"] = {"kind": "matmuls" if shape == "chain" else shape, "N_EINSUMS": n, "M": M, "KN": KN}
    bits = p["bits"]
    tile = M * KN * bits  # one full intermediate tensor, in bits
    tight = (rng.random() < 0.6) if tight is None else tight
    if tight:
        # between "one row of the intermediate" and "a few full tensors": fused mappings fit, unfused/large tiles may not
        p["glb_size"] = max(int(tile * rng.choice([0.5, 0.75, 1, 1.25, 1.25, 1.5, 1.5, 2, 2.5, 3, 4])), 3 * bits)
    else:
        p["glb_size"] = int(tile * rng.choice([6, 8, 16]))
    p["glb_keep"] = "~MainMemory"
    if rng.random() < 0.12:
        p["mm_keep"] = "All"  # intermediates may not be fused away: MainMemory keeps everything
        p["glb_keep"] = "Nothing"
    return p


def build_spec(params: dict):
    kind = params["workload"]["kind"]
    if kind in ("matmuls", "einsum3"):
        return ML.build_spec(params)
    from accelforge.frontend.spec import Spec

    if not ML._initialised:
        ML.init()
    arch = SPECS / ("arch3.yaml" if params["levels"] == 3 else "arch2.yaml")
    wl = SPECS / f"join_{kind}.yaml"
    return Spec.from_yaml(str(arch), str(wl), jinja_parse_data=ML._jinja(params))


def make_tables(params: dict, metrics: list[str], knobs: dict | None = None):
    from accelforge.mapper.FFM.main import make_pmappings

    spec = build_spec(params)
    spec.mapper.metrics = ML.metrics_of(metrics)
    for k, v in (knobs or {}).items():
        setattr(spec.mapper, k, float("inf") if v == "inf" else v)
    return make_pmappings(spec, print_progress=False)


# --------------------------------------------------------------------------------------
# tables, row ids, sub-tables
# --------------------------------------------------------------------------------------


def is_res(c: str) -> bool:
    return c.startswith("reservation" + SEP)


def is_obj(c: str) -> bool:
    return c.startswith(TOTAL) and not c.endswith(SEP + "mapping")


class Tables:
    """Row-addressable view of a MultiEinsumPmappings.  A row id is (einsum, group index, row index in the group)."""

    def __init__(self, pm):
        self.pm = pm
        self.einsums = list(pm.einsum2pmappings)
        self.rows = {
            e: [(e, gi, ri) for gi, g in enumerate(pm.einsum2pmappings[e]) for ri in range(len(g.mappings.data))]
            for e in self.einsums
        }

    def n_rows(self):
        return {e: len(v) for e, v in self.rows.items()}

    def row_values(self, rid) -> dict:
        e, gi, ri = rid
        d = self.pm.einsum2pmappings[e][gi].mappings.data
        r = d.iloc[ri]
        return {str(c): float(r[c]) for c in d.columns if is_obj(str(c))}

    def sub(self, rows: dict, order: list | None = None):
        """MultiEinsumPmappings holding exactly `rows` ({einsum: [row ids]}), Einsums in `order`.  Data frames are copies."""
        from accelforge.mapper.FFM._join_pmappings.pmapping_group import PmappingGroup
        from accelforge.mapper.FFM.pmappings import MultiEinsumPmappings

        pm = self.pm
        e2p = {}
        for e in order or self.einsums:
            by_group: dict = {}
            for _, gi, ri in rows[e]:
                by_group.setdefault(gi, []).append(ri)
            groups = []
            for gi in sorted(by_group):
                g = pm.einsum2pmappings[e][gi]
                data = g.mappings.data.iloc[sorted(by_group[gi])].copy()
                groups.append(PmappingGroup(g.compatibility, g.mappings.update(data=data, skip_pareto=True)))
            e2p[e] = groups
        return MultiEinsumPmappings(
            spec=pm.spec,
            einsum2pmappings=e2p,
            pmapping_objects=pm.pmapping_objects,
            einsum2jobs=pm.einsum2jobs,
            can_combine_multiple_runs=pm.can_combine_multiple_runs,
            einsums_with_pmappings_generated=pm.einsums_with_pmappings_generated,
            flattened_arches=pm.flattened_arches,
            evaluated_specs=pm.evaluated_specs,
        )


def _result_rows(mappings) -> list[dict]:
    d = mappings.data
    cols = [str(c) for c in d.columns if is_obj(str(c)) or is_res(str(c))]
    return [{c: float(d.iloc[i][c]) for c in cols} for i in range(len(d))]


def _reset_private_knobs(spec):
    spec.mapper._skip_invalid = True
    spec.mapper._combine_reservations = True


ORACLE_METRICS = ["ENERGY", "LATENCY", "RESOURCE_USAGE"]  # never EDP (recomputed exactly), always RESOURCE_USAGE (nothing untracked)


def singleton_join(tables: Tables, choice: list, order: list | None = None):
    """One row per Einsum (row ids; joined in the Einsum order `order`, default workload order) → (final columns | None, reason).

    The Einsum order is part of the input: it is the execution order of the fused mapping, so lifetimes (hence reservations and
    capacity validity) depend on it."""
    from accelforge.mapper.FFM._join_pmappings.join_pmappings import clean_compress_and_join_pmappings

    rows = {rid[0]: [rid] for rid in choice}
    order = [e for e in (order or tables.einsums) if e in rows]
    pm1 = tables.sub(rows, order)
    mets = ML.metrics_of(ORACLE_METRICS)
    _reset_private_knobs(pm1.spec)
    try:
        r = clean_compress_and_join_pmappings(pm1, mets, for_model=True, require_all_einsums=False, print_progress=False)
    except ValueError as ex:
        msg = str(ex)
        if msg.startswith("No match found for any group. Left and right joined"):
            return None, "lookahead"
        if msg.startswith("No match found"):
            return None, "incompatible"
        if msg.startswith("No mappings found"):
            return None, "empty-merge"  # tile shapes differ or over capacity
        raise
    out = _result_rows(r)
    if len(out) != 1:
        raise RuntimeError(f"singleton join returned {len(out)} rows for {choice}")
    return out[0], "ok"


def tuple_oracle(tables: Tables, rows: dict, order: list | None = None, rng=None, verify_rejected: int = 12, budget_s: float = 1e9) -> dict:
    """All combinations of one row per Einsum (rows restricted to `rows`) that the real code joins into a row.

    Enumeration: all pairs of the first two Einsums (in `order`), then compatible prefixes are extended by every row of the
    next Einsum.  Extending only joinable prefixes relies on "a joinable combination has a joinable prefix"; a sample of the
    rejected prefixes is re-checked with every continuation (counted in `rejected_prefix_checked`; a contradiction is a harness error).
    """
    es = list(order or tables.einsums)
    t0 = time.time()
    reasons: dict = {}
    n_joins = 0
    disagreements: list = []
    indep_counts: dict = {}

    def cross_check(choice, why):
        """pair joined alone: the code's decision vs the independent predicate"""
        ind = indep_pair(tables, choice[0], choice[1])
        indep_counts[ind] = indep_counts.get(ind, 0) + 1
        if ind == "match" and why == "empty-merge":  # agrees on every shared tensor, rejected: over capacity
            indep_counts["match-but-over-capacity"] = indep_counts.get("match-but-over-capacity", 0) + 1
        kind = None
        if ind == "ambiguous":
            return
        if why == "incompatible" and ind != "incompatible":
            kind = "compatible-pair-rejected"
        elif why in ("ok", "empty-merge") and ind == "incompatible":
            kind = "incompatible-pair-joined"
        elif why == "ok" and ind == "tile-mismatch":
            kind = "tile-mismatched-pair-joined"
        if kind and len(disagreements) < 20:
            disagreements.append({"kind": kind, "choice": [list(r) for r in choice], "code": why, "independent": ind})

    prefixes = [((rid,), None) for rid in rows[es[0]]]
    rejected = []
    for k in range(1, len(es)):
        nxt = []
        last = k == len(es) - 1
        for pre, _ in prefixes:
            for rid in rows[es[k]]:
                choice = list(pre) + [rid]
                vec, why = singleton_join(tables, choice, es)
                n_joins += 1
                reasons[why] = reasons.get(why, 0) + 1
                if k == 1:
                    cross_check(choice, why)
                if vec is not None:
                    nxt.append((tuple(choice), vec))
                elif not last:
                    rejected.append(tuple(choice))
                if time.time() - t0 > budget_s:
                    raise TimeoutError("tuple oracle over budget")
        prefixes = nxt
    checked = 0
    if rejected and rng is not None and len(es) > 2:
        for pre in rng.sample(rejected, min(verify_rejected, len(rejected))):
            for rid in rows[es[len(pre)]]:
                vec, _ = singleton_join(tables, list(pre) + [rid], es)
                n_joins += 1
                checked += 1
                if vec is not None:
                    raise RuntimeError(f"tuple oracle: rejected prefix {pre} has a joinable extension {rid}")
    # accepted full combinations: every pair of rows must agree on its shared tensors
    if len(es) > 2:
        for c, _ in prefixes:
            for a, b in itertools.combinations(c, 2):
                ind = indep_pair(tables, a, b)
                if ind in ("incompatible", "tile-mismatch") and len(disagreements) < 20:
                    disagreements.append({"kind": "incompatible-pair-joined" if ind == "incompatible" else "tile-mismatched-pair-joined",
                                          "choice": [list(r) for r in c], "pair": [list(a), list(b)], "code": "ok", "independent": ind})
        # pairs other than the first two Einsums, joined alone (sample)
        extra = [(es[i], es[j]) for i in range(len(es)) for j in range(i + 1, len(es)) if (i, j) != (0, 1)]
        for ea, eb in extra:
            pairs = [(a, b) for a in rows[ea] for b in rows[eb]]
            if rng is not None and len(pairs) > 40:
                pairs = rng.sample(pairs, 40)
            for a, b in pairs[:40]:
                try:
                    _, why = singleton_join(tables, [a, b], es)
                except ValueError:
                    continue  # e.g. the pair alone violates a data dependency
                n_joins += 1
                cross_check([a, b], why)
    if len(es) == 1:
        prefixes = []
        for rid in rows[es[0]]:
            vec, why = singleton_join(tables, [rid], es)
            n_joins += 1
            reasons[why] = reasons.get(why, 0) + 1
            if vec is not None:
                prefixes.append(((rid,), vec))
    return {"combos": [{"choice": [list(r) for r in c], "vec": v} for c, v in prefixes], "reasons": reasons, "n_joins": n_joins,
            "compat_disagreements": disagreements, "independent_predicate": indep_counts,
            "rejected_prefix_checked": checked, "seconds": round(time.time() - t0, 2)}


def additivity_errors(tables: Tables, combos: list[dict], rel: float = 2e-5) -> list[dict]:
    """Objective columns of a joined combination must be the exact sum of the rows' columns (float32 tolerance)."""
    bad = []
    cache: dict = {}
    for c in combos:
        tot: dict = {}
        for rid in c["choice"]:
            rid = tuple(rid)
            if rid not in cache:
                cache[rid] = tables.row_values(rid)
            for col, v in cache[rid].items():
                tot[col] = tot.get(col, Fraction(0)) + Fraction(v)
        for col, s in tot.items():
            got = c["vec"].get(col)
            if got is None or not ML.close(float(s), got, rel):
                bad.append({"choice": c["choice"], "column": col, "sum_of_rows": float(s), "joined": got})
    return bad


def public_join(tables: Tables, rows: dict, order: list | None, metrics: list[str], skip_invalid=True, combine_reservations=True) -> dict:
    """The public staged join (`accelforge.mapper.FFM.main.join_pmappings`) on the given rows."""
    from accelforge.mapper.FFM.main import join_pmappings

    pm = tables.sub(rows, order)
    _reset_private_knobs(pm.spec)
    try:
        r = join_pmappings(pm, metrics=ML.metrics_of(metrics), require_all_einsums=False, print_progress=False,
                           _skip_invalid=skip_invalid, _combine_reservations=combine_reservations)
    except Exception as ex:  # an observable outcome
        _reset_private_knobs(pm.spec)
        return {"rows": None, "error": f"{type(ex).__name__}: {str(ex)[:160]}"}
    _reset_private_knobs(pm.spec)
    return {"rows": _result_rows(r), "error": None}


def exact_join(tables: Tables, rows: dict, order: list | None, metrics: list[str], combine_reservations=False) -> dict:
    """One exact join with the accelerations that can be switched off switched off (`for_model=True`: a single join, no dirty
    rounds, no optimality filter; reservation combining off)."""
    from accelforge.mapper.FFM._join_pmappings.join_pmappings import clean_compress_and_join_pmappings

    pm = tables.sub(rows, order)
    _reset_private_knobs(pm.spec)
    pm.spec.mapper._combine_reservations = combine_reservations
    try:
        r = clean_compress_and_join_pmappings(pm, ML.metrics_of(metrics), for_model=True, require_all_einsums=False, print_progress=False)
    except Exception as ex:
        _reset_private_knobs(pm.spec)
        return {"rows": None, "error": f"{type(ex).__name__}: {str(ex)[:160]}"}
    _reset_private_knobs(pm.spec)
    return {"rows": _result_rows(r), "error": None}


def valid_orders(spec, einsums: list) -> list[list]:
    """Every Einsum order in which no Einsum precedes the producer of one of its tensors (what join_pmappings accepts)."""
    outs = {e: set(map(str, spec.workload.einsums[e].output_tensor_names)) for e in einsums}
    tens = {e: set(map(str, spec.workload.einsums[e].tensor_names)) for e in einsums}
    res = []
    for perm in itertools.permutations(einsums):
        ok = True
        for i, e in enumerate(perm):
            for later in perm[i + 1:]:
                if tens[e] & outs[later]:
                    ok = False
        if ok:
            res.append(list(perm))
    return res


def subsample(tables: Tables, rng, max_rows: int, mode: str | None = None) -> dict:
    """{einsum: [row ids]} with at most max_rows per Einsum.  Modes: all / rows (uniform rows) / groups (whole groups first)."""
    out = {}
    mode = mode or rng.choice(["rows", "groups"])
    for e in tables.einsums:
        allr = tables.rows[e]
        if len(allr) <= max_rows or mode == "all":
            out[e] = list(allr) if len(allr) <= max_rows else sorted(rng.sample(allr, max_rows))
            continue
        if mode == "rows":
            out[e] = sorted(rng.sample(allr, max_rows))
        else:
            gids = sorted({r[1] for r in allr})
            rng.shuffle(gids)
            chosen = []
            for gi in gids:
                grp = [r for r in allr if r[1] == gi]
                if len(chosen) + len(grp) > max_rows:
                    grp = grp[: max_rows - len(chosen)]
                chosen += grp
                if len(chosen) >= max_rows:
                    break
            out[e] = sorted(chosen)
    return out


# --------------------------------------------------------------------------------------
# vectors, judge (Lean driver), shrinker
# --------------------------------------------------------------------------------------

SCALE = 1 << 40  # float32/float64 values of the sizes seen here become exact integers
PPM = 20  # relative tolerance of the comparison, parts per million (float32 accumulation order in the joiner)
E_COL, L_COL, EDP_COL = TOTAL + "energy", TOTAL + "latency", TOTAL + "energy_delay_product"


def _ival(x: float) -> int:
    return int(round(Fraction(x) * SCALE))


def project(vec: dict, metrics: list[str], res_cols: list[str], oracle: bool) -> list[int] | None:
    """Exact integer vector of a result row on the columns the join with `metrics` reports.

    Oracle rows carry energy/latency (never EDP: it is recomputed here exactly); rows returned by a join carry what the join
    reported.  Column order: energy, latency, EDP (those requested and present), then the reservation columns `res_cols`."""
    out = []
    has_edp = "ENERGY_DELAY_PRODUCT" in metrics
    if E_COL in vec and ("ENERGY" in metrics or not has_edp):
        out.append(_ival(vec[E_COL]) * SCALE)
    if L_COL in vec and ("LATENCY" in metrics or not has_edp):
        out.append(_ival(vec[L_COL]) * SCALE)
    if has_edp:
        if oracle:
            if E_COL not in vec or L_COL not in vec:
                return None
            out.append(_ival(vec[E_COL]) * _ival(vec[L_COL]))
        else:
            if EDP_COL not in vec:
                return None
            out.append(int(round(Fraction(vec[EDP_COL]) * SCALE * SCALE)))
    for c in res_cols:
        out.append(_ival(vec.get(c, 0.0)) * SCALE)
    return out


def columns_for(metrics: list[str], combos_vecs: list[dict], got_rows: list[dict]) -> list[str]:
    if "RESOURCE_USAGE" not in metrics:
        return []
    cols = set()
    for v in combos_vecs:
        cols |= {c for c in v if is_res(c)}
    for v in got_rows:
        cols |= {c for c in v if is_res(c)}
    return sorted(cols)


_driver = None


def driver():
    global _driver
    if _driver is None:
        from harness.core import Driver

        _driver = Driver()
    return _driver


def judge(all_vecs: list[dict], got: dict, metrics: list[str], drv=None) -> dict:
    """Verdict on one join outcome `got` ({"rows": [...]|None, "error": …}) against the combinations `all_vecs` (oracle rows).

    Returns {"ok": bool, "kind": str|None, …details…}."""
    drv = drv or driver()
    got_rows = got["rows"] or []
    res_cols = columns_for(metrics, all_vecs, got_rows)
    A = [project(v, metrics, res_cols, True) for v in all_vecs]
    G = [project(v, metrics, res_cols, False) for v in got_rows]
    if any(a is None for a in A):
        raise RuntimeError("oracle rows lack energy/latency although EDP was requested")
    out = {"ok": True, "kind": None, "n_all": len(A), "res_cols": res_cols,
           "got_has_reservation_cols": any(is_res(c) for r in got_rows for c in r)}
    if got["rows"] is None:
        out["front"] = drv.ask("C13", {"op": "front", "rows": A}) if A else []
        if A:
            out.update(ok=False, kind="join-raises-but-combinations-exist", error=got["error"])
        return out
    if any(g is None for g in G) or len({len(x) for x in A + G}) > 1:
        out.update(ok=False, kind="columns-differ", got_columns=sorted({c for r in got_rows for c in r}),
                   oracle_columns=sorted({c for r in all_vecs for c in r}))
        return out
    if not G:
        out.update(ok=not A, kind=None if not A else "join-returns-nothing-but-combinations-exist")
        return out
    rep = drv.ask("C13", {"op": "check", "all": A, "got": G, "ppm": PPM})
    if "err" in rep:
        raise RuntimeError(f"driver: {rep}")
    out["front_size"] = len(rep["front"])
    out["n_got"] = len(G)
    if rep["unachievable"]:
        out.update(ok=False, kind="returned-row-is-no-combination", idx=rep["unachievable"])
    elif rep["missing"]:
        out.update(ok=False, kind="front-point-missing", idx=rep["missing"],
                   missing=[[float(Fraction(x, SCALE * SCALE)) for x in rep["front"][i]] for i in rep["missing"][:4]])
    elif rep["dominated"]:
        out.update(ok=False, kind="dominated-row-returned", idx=rep["dominated"])
    return out


def combos_within(combos: list[dict], rows: dict) -> list[dict]:
    keep = {e: {tuple(r) for r in v} for e, v in rows.items()}
    return [c for c in combos if all(tuple(r) in keep[r[0]] for r in c["choice"])]


def shrink(tables: Tables, rows: dict, combos: list[dict], run_join, metrics: list[str], kind: str, budget_s: float = 25.0):
    """Greedy row removal: keep a removal when the same kind of failure persists.  `run_join(rows)` → join outcome."""
    t0 = time.time()
    rows = {e: list(v) for e, v in rows.items()}
    best = None
    changed = True
    while changed and time.time() - t0 < budget_s:
        changed = False
        for e in list(rows):
            # try halves first, then single rows
            chunks = []
            n = len(rows[e])
            if n > 3:
                chunks += [rows[e][: n // 2], rows[e][n // 2:]]
            chunks += [[r] for r in rows[e]]
            for ch in chunks:
                if time.time() - t0 > budget_s:
                    break
                cand = [r for r in rows[e] if r not in ch]
                if not cand or not all(r in rows[e] for r in ch):
                    continue
                trial = dict(rows)
                trial[e] = cand
                got = run_join(trial)
                v = judge([c["vec"] for c in combos_within(combos, trial)], got, metrics)
                if not v["ok"] and v["kind"] == kind:
                    rows = trial
                    best = (got, v)
                    changed = True
    return rows, best


# --------------------------------------------------------------------------------------
# one spec = one worker job: tables, oracle, many join cases, verdicts, shrinking
# --------------------------------------------------------------------------------------


def _captured(fn):
    """Run fn with stdout captured (the joiner's progress messages tell which acceleration paths ran)."""
    import contextlib
    import io

    buf = io.StringIO()
    with open(os.devnull, "w") as dn, contextlib.redirect_stdout(buf), contextlib.redirect_stderr(dn):
        res = fn()
    return res, buf.getvalue()


def path_branches(log: str) -> list[str]:
    b = []
    if "Dirty joining uses" in log:
        b.append("dirty-prune-removed-rows")
    if "Oversubscribed" in log:
        b.append("oversubscribed-retry")
    if "Error with optimality threshold" in log:
        b.append("dirty-round-failed")
    if "Filtering out pmappings worse than" in log:
        b.append("optimality-thresholder-built")
    if "Not tracking" in log:
        b.append("memory-untracked")
    if "valid & optimal" in log:
        b.append("relaxed-round-accepted")
    return b


def public_join_logged(tables: Tables, rows: dict, order, metrics, combine_reservations=True) -> dict:
    from accelforge.mapper.FFM.main import join_pmappings

    pm = tables.sub(rows, order)
    _reset_private_knobs(pm.spec)

    def go():
        try:
            r = join_pmappings(pm, metrics=ML.metrics_of(metrics), require_all_einsums=False, print_progress=True,
                               _combine_reservations=combine_reservations)
            return {"rows": _result_rows(r), "error": None}
        except Exception as ex:
            return {"rows": None, "error": f"{type(ex).__name__}: {str(ex)[:160]}"}

    out, log = _captured(go)
    _reset_private_knobs(pm.spec)
    out["branches"] = path_branches(log)
    return out


def describe_rows(tables: Tables, rows: dict) -> dict:
    """Content of the selected rows (compatibility + objective values), so that a replay can be checked against regenerated tables."""
    out = {}
    for e, rids in rows.items():
        out[e] = [{"id": list(r), "compat": str(tables.pm.einsum2pmappings[e][r[1]].compatibility)[:400], "values": tables.row_values(tuple(r))}
                  for r in rids]
    return out


def _by_einsum(choice) -> dict:
    out: dict = {}
    for r in choice:
        out.setdefault(r[0], []).append(tuple(r))
    return out


def run_job(job: dict) -> dict:
    """job: {"params", "table_metrics", "seed", "max_rows", "cases": [{"metrics", "order_index", "sub": "all"|"rows"|"groups",
    "sub_rows": int, "exact": bool, "combine_reservations": bool}], "shrink_s"}  → JSON-able record."""
    import random

    rng = random.Random(job["seed"])
    rec = {"job": job, "cases": [], "make_error": None}
    t0 = time.time()
    c0 = time.process_time()
    try:
        pm = make_tables(job["params"], job["table_metrics"])
    except Exception as ex:  # a spec for which no pmappings exist is an outcome of make_pmappings, not of the join
        rec["make_error"] = f"{type(ex).__name__}: {str(ex)[:200]}"
        return rec
    rec["make_s"] = round(time.time() - t0, 1)
    rec["make_cpu_s"] = round(time.process_time() - c0, 1)
    T = Tables(pm)
    rec["n_rows"] = T.n_rows()
    if "fixed_rows" in job:  # replay of a stored case
        base = {e: [tuple(r) for r in v] for e, v in job["fixed_rows"].items()}
        content = job.get("fixed_rows_content") or {}
        for e, v in list(base.items()):
            fixed = []
            for k, r in enumerate(v):
                want = (content.get(e) or [None] * len(v))[k] if content.get(e) else None
                ok = r in T.rows.get(e, [])
                if ok and want is not None:
                    ok = describe_rows(T, {e: [r]})[e][0]["values"] == want["values"] and \
                        describe_rows(T, {e: [r]})[e][0]["compat"] == want["compat"]
                if not ok and want is not None:  # the tables were regenerated in a different order: find the row by content
                    for cand in T.rows.get(e, []):
                        d = describe_rows(T, {e: [cand]})[e][0]
                        if d["values"] == want["values"] and d["compat"] == want["compat"]:
                            r, ok = cand, True
                            break
                if not ok:
                    rec["make_error"] = f"replay row {r} does not exist in the regenerated tables"
                    return rec
                fixed.append(r)
            base[e] = fixed
    else:
        base = subsample(T, rng, job["max_rows"])
    present = [e for e in T.einsums if base.get(e)]  # a replay may hold rows of only some Einsums (pair-level cases)
    orders = valid_orders(pm.spec, present)
    rec["n_orders"] = len(orders)
    rec["base_rows"] = {e: [list(r) for r in v] for e, v in base.items()}
    oracles: dict = {}
    rec["oracle"] = {}
    rec["additivity_errors"] = []
    rec["compat_disagreements"] = []

    def oracle_for(order):
        key = tuple(order)
        if key not in oracles:
            o = tuple_oracle(T, base, order=order, rng=rng)
            oracles[key] = o
            rec["oracle"]["|".join(order)] = {k: o[k] for k in ("reasons", "n_joins", "rejected_prefix_checked", "seconds", "independent_predicate")} | {"n_combos": len(o["combos"])}
            for dis in o["compat_disagreements"]:
                rec["compat_disagreements"].append({**dis, "order": list(order), "rows": describe_rows(T, _by_einsum(dis["choice"]))})
            rec["additivity_errors"] += additivity_errors(T, o["combos"])[:5]
        return oracles[key]

    for ci, case in enumerate(job["cases"]):
        crng = random.Random(job["seed"] * 7919 + ci)
        if "order" in case:
            order = [e for e in case["order"] if e in present]
        else:
            order = orders[case.get("order_index", 0) % len(orders)]
        orc = oracle_for(order)
        if case.get("sub", "all") == "all" or "fixed_rows" in job:
            rows = base
        else:
            tmp = Tables.__new__(Tables)
            tmp.pm, tmp.einsums, tmp.rows = pm, T.einsums, base
            rows = subsample(tmp, crng, case.get("sub_rows", 8), mode=case["sub"])
        mets = case["metrics"]
        combos = combos_within(orc["combos"], rows)
        all_vecs = [c["vec"] for c in combos]
        got = public_join_logged(T, rows, order, mets, combine_reservations=case.get("combine_reservations", True))
        v = judge(all_vecs, got, mets)
        out = {"case": case, "order": order, "n_rows": {e: len(x) for e, x in rows.items()}, "n_all": len(all_vecs),
               "verdict": {k: v.get(k) for k in ("ok", "kind", "front_size", "n_got", "got_has_reservation_cols")},
               "branches": got["branches"], "error": got["error"]}
        if case.get("exact"):
            ex = exact_join(T, rows, order, mets, combine_reservations=False)
            vx = judge(all_vecs, ex, mets)
            out["exact_verdict"] = {k: vx.get(k) for k in ("ok", "kind", "front_size", "n_got")}
            out["exact_error"] = ex["error"]
            if not vx["ok"]:
                out["exact_rows"] = ex["rows"]
        if not v["ok"] or (case.get("exact") and not out["exact_verdict"]["ok"]):
            # minimise on the failing side (public join first)
            use_public = not v["ok"]
            kind = v["kind"] if use_public else out["exact_verdict"]["kind"]

            def run(rr, _o=order, _m=mets, _c=case, _p=use_public):
                if _p:
                    return public_join(T, rr, _o, _m, combine_reservations=_c.get("combine_reservations", True))
                return exact_join(T, rr, _o, _m, combine_reservations=False)

            small, best = shrink(T, rows, orc["combos"], run, mets, kind, budget_s=job.get("shrink_s", 25.0))
            got_s = best[0] if best else (got if use_public else ex)
            out["failing"] = {
                "side": "public-join" if use_public else "exact-join(for_model)",
                "kind": kind,
                "rows": describe_rows(T, small),
                "order": order,
                "metrics": mets,
                "combinations": [{"choice": c["choice"], "vec": c["vec"]} for c in combos_within(orc["combos"], small)][:5000],
                "join_result": got_s,
                "exact_join_result": exact_join(T, small, order, mets, combine_reservations=False) if use_public else None,
                "verdict": (best[1] if best else v if use_public else vx),
                "n_rows_before_shrink": {e: len(x) for e, x in rows.items()},
            }
            fv = out["failing"]["verdict"]
            out["failing"]["verdict"] = {k: fv.get(k) for k in ("ok", "kind", "idx", "missing", "error", "res_cols", "got_has_reservation_cols",
                                                                "got_columns", "oracle_columns", "front_size", "n_got", "n_all")}
        rec["cases"].append(out)
    rec["wall_s"] = round(time.time() - t0, 1)
    rec["cpu_s"] = round(time.process_time() - c0, 1)
    return rec


# --------------------------------------------------------------------------------------
# worker pool with a dispatch deadline (the machine is shared: mapper calls can be many times slower than on an idle machine)
# --------------------------------------------------------------------------------------


def pool_run(fn, items: list, workers: int, dispatch_deadline_s: float, hard_deadline_s: float, min_done: int = 0,
             extended_deadline_s: float | None = None, must_finish: int = 0):
    """Run fn over items in spawned worker processes.  Items are handed out in order; no new item is started after
    `dispatch_deadline_s` (except the first `must_finish` items, which are always started); items still running at
    `hard_deadline_s` are abandoned (workers killed) — unless fewer than `min_done` items have completed, in which case
    waiting continues until `extended_deadline_s`.
    Returns a list aligned with items: result | None (not run / abandoned).  Exceptions inside fn propagate."""
    import concurrent.futures as cf
    import multiprocessing as mp

    t0 = time.time()
    results = [None] * len(items)
    if not items:
        return results
    workers = max(1, min(workers, len(items)))
    ctx = mp.get_context("spawn")
    env = {k: os.environ[k] for k in ("ACCELFORGE_VERIF", "NUMBA_CACHE_DIR", "PYTHONPATH", "AFV_REPO") if k in os.environ}
    ex = cf.ProcessPoolExecutor(workers, mp_context=ctx, initializer=ML._worker_init, initargs=(os.getcwd(), env))
    pending = list(range(len(items)))
    running: dict = {}
    try:
        while pending or running:
            while pending and len(running) < workers and (time.time() - t0 < dispatch_deadline_s or pending[0] < must_finish):
                i = pending.pop(0)
                running[ex.submit(fn, items[i])] = i
            if not running:
                break
            n_done = sum(r is not None for r in results)
            limit = hard_deadline_s if n_done >= min_done else max(hard_deadline_s, extended_deadline_s or hard_deadline_s)
            left = limit - (time.time() - t0)
            if left <= 0:
                break
            done, _ = cf.wait(list(running), timeout=min(left, 2.0), return_when=cf.FIRST_COMPLETED)
            for f in done:
                results[running.pop(f)] = f.result()
            if time.time() - t0 >= dispatch_deadline_s:
                pending = [i for i in pending if i < must_finish]
    finally:
        abandoned = bool(running)
        if abandoned:
            for pr in list(getattr(ex, "_processes", {}).values()):
                try:
                    pr.kill()
                except Exception:
                    pass
        ex.shutdown(wait=not abandoned, cancel_futures=True)
    return results


# --------------------------------------------------------------------------------------
# independent pairwise compatibility predicate
# --------------------------------------------------------------------------------------
# The spec side of "agrees on the storage, loops and tile shapes of every shared tensor, modulo permutations of loops inside a
# block between reservation stops".  It reads the DATA of the Compatibility objects attached to the tables (which tensor is backed
# where, under which loops, where the reservation stops are) and the rows' tile-shape columns, but none of the joiner's matching
# logic (no clear_dead_tensors / make_equivalent_compatibilities / group keys / merge_next).


def _blocks_perms(n: int, stops: set) -> list[tuple]:
    blocks, cur = [], []
    for i in range(n):
        if i in stops and cur:
            blocks.append(cur)
            cur = []
        cur.append(i)
    if cur:
        blocks.append(cur)
    per_block = [list(itertools.permutations(b)) for b in blocks]
    return [tuple(itertools.chain(*choice)) for choice in itertools.product(*per_block)]


def _compat_view(compat, shared: set) -> dict:
    res = {}
    for t in compat.tensors:
        if str(t.name) in shared:
            res[str(t.name)] = t
    n = max((len(t.loops) for t in res.values()), default=0)
    longest = max(res.values(), key=lambda t: len(t.loops)).loops if res else ()
    for t in res.values():
        assert tuple(t.loops) == tuple(longest[: len(t.loops)]), "tensor loop lists of one compatibility are not nested"
    stops = {len(t.loops) for t in res.values()} | {min(int(i), n) for i in compat.reservation_indices}
    stops |= {int(s.above_loop_index) for s in compat.splits if int(s.above_loop_index) < n}
    return {"res": res, "n": n, "loops": list(longest), "perms": _blocks_perms(n, stops)}


def _loop_sig(l) -> tuple:
    return (str(l.rank_name), bool(l.is_spatial), None if l.spatial_dim is None else str(l.spatial_dim))


def _tile_vals(l, row) -> tuple:
    out = []
    tp = l.tile_pattern
    for attr in ("initial_tile_shape", "tile_shape", "calculated_n_iterations"):
        v = getattr(tp, attr, None)
        if isinstance(v, str):
            v = float(row[v])
        elif v is not None:
            v = float(v)
        out.append(v)
    return tuple(out)


def indep_pair(tables: Tables, ra, rb) -> str:
    """'match' | 'incompatible' | 'tile-mismatch' | 'ambiguous' for two rows of different Einsums."""
    ea, ga, ia = ra
    eb, gb, ib = rb
    A = tables.pm.einsum2pmappings[ea][ga]
    B = tables.pm.einsum2pmappings[eb][gb]
    shared = {str(t) for t in A.compatibility.tensor_names} & {str(t) for t in B.compatibility.tensor_names}
    if not shared:
        return "match"
    va, vb = _compat_view(A.compatibility, shared), _compat_view(B.compatibility, shared)
    for t in shared:
        x, y = va["res"][t], vb["res"][t]
        if str(x.resource_name) != str(y.resource_name) or bool(x.persistent) != bool(y.persistent) or len(x.loops) != len(y.loops):
            return "incompatible"
        if len(x.physical_spatial_loops) != len(y.physical_spatial_loops):
            return "incompatible"
    if va["n"] != vb["n"]:
        return "incompatible"
    rowa, rowb = A.mappings.data.iloc[ia], B.mappings.data.iloc[ib]
    verdicts = set()
    for pa in va["perms"]:
        sa = [_loop_sig(va["loops"][i]) for i in pa]
        for pb in vb["perms"]:
            sb = [_loop_sig(vb["loops"][i]) for i in pb]
            if sa != sb:
                continue
            ok = True
            for i, j in zip(pa, pb):
                ta, tb = _tile_vals(va["loops"][i], rowa), _tile_vals(vb["loops"][j], rowb)
                for u, w in zip(ta, tb):
                    if (u is None) != (w is None) or (u is not None and u != w):
                        ok = False
            verdicts.add("match" if ok else "tile-mismatch")
    if not verdicts:
        return "incompatible"
    return verdicts.pop() if len(verdicts) == 1 else "ambiguous"
