"""C06 — reported memory usage equals the execution-time peak occupancy.

Spec:   AFV/Spec/FusedPeak.lean  `peak`: explicit timeline over the execution of a (fused) mapping tree — residencies live from
                                 first to last use, kept for the whole execution of a shared loop they survive, only backing
                                 stores shared between Einsums, persistent holders live throughout × n_instances.  Nothing of the
                                 joiner's reservation algebra appears in it.
Proof:  AFV/Props/C06.lean       single Einsum: `peak_single` (reported bits = reference peak, all well-formed Toll-free nests) via
                                 tracker_allocation_points, peak_single_timeline / uses_contiguous, memBits_eq_reservations; liveness facts
                                 of the reference for trees; oversubscription verdict.  Fused trees: correspondence only (see the file).
Tie:    correspondence through evaluate_mapping of the CURRENT tree — which combines the per-Einsum reservations of run_model
        with the joiner's reservation algebra (merge_next / free_to_loop_index / adjust_reservations): for generated fused
        mappings of 1-3 Einsums (matmul chains, one-producer-two-consumers, two-producers-one-consumer; flat and nested
        Sequentials; shared loops; holders at arbitrary depth incl. multi-tensor and non-hierarchical ones; persistent tensors;
        n_instances > 1; per-level bit widths) `resource_usage()` × size must equal the Lean peak exactly, and a mapping whose
        peak exceeds a memory's size must raise InvalidMappingError (and only then).  Mapper-returned mappings are exported,
        re-evaluated and compared in the same way.
"""
from __future__ import annotations

import copy
import json
from fractions import Fraction

from harness import fusedlib as F
from harness.core import Ctx, CORPUS_DIR

ANCHORS = [
    "accelforge.mapper.FFM._join_pmappings.pmapping_dataframe:PmappingDataframe.merge_next",
    "accelforge.mapper.FFM._join_pmappings.pmapping_dataframe:PmappingDataframe.free_to_loop_index",
    "accelforge.mapper.FFM._join_pmappings.pmapping_dataframe:PmappingDataframe.shift_bottom_reservation_left",
    "accelforge.mapper.FFM._join_pmappings.pmapping_dataframe:PmappingDataframe._adjust_reservations_one_resource",
    "accelforge.mapper.FFM._join_pmappings.pmapping_dataframe:PmappingDataframe.max_right_to_left",
    "accelforge.mapper.FFM._join_pmappings.pmapping_dataframe:PmappingDataframe.limit_capacity",
    "accelforge.model.run_model:run_model",
    "accelforge.model._looptree.reuse.symbolic._symbolic:insert_reservation_nodes",
    "accelforge.model.main:evaluate_mapping",
]


def spec_peak(drv, c):
    rep = drv.ask("C06", F.driver_req(c))
    if isinstance(rep, dict):
        raise RuntimeError(f"driver: {rep}")
    return [Fraction(p, q) for p, q in rep]


def pow2(n):
    return n > 0 and n & (n - 1) == 0


def compare(c, usage, want):
    """first (level, got bits, want bits) that differs, else None"""
    for l in range(c["n_levels"]):
        size = c["sizes"][l]
        u = usage.get(f"L{l}", 0.0)
        got = Fraction(float(u)) * size
        if pow2(size):
            ok = got == want[l]
        else:
            ok = abs(got - want[l]) <= Fraction(1, 10 ** 5) * max(abs(want[l]), 1)
        if not ok:
            return (l, got, want[l])
    return None


def shrink(drv, c, key, check):
    """Greedy structural shrinking keeping the same verdict `key`."""
    best = c
    budget = 60

    def cands(c):
        t = c["tree"]

        def edits(tree, path):
            for i, n in enumerate(tree["pre"]):
                if n[0] == "S":
                    yield path, i, None            # drop holder
                    if len(n[2]) > 1:
                        for k in range(len(n[2])):
                            yield path, i, ("drop-tensor", k)
            if "bs" in tree:
                for bi, b in enumerate(tree["bs"]):
                    yield from edits(b, path + [bi])

        for path, i, how in edits(t, []):
            c2 = copy.deepcopy(c)
            tr = c2["tree"]
            for bi in path:
                tr = tr["bs"][bi]
            if how is None:
                del tr["pre"][i]
            else:
                del tr["pre"][i][2][how[1]]
            yield c2
        if c.get("ninst", 1) != 1:
            c2 = copy.deepcopy(c); c2["ninst"] = 1; yield c2

    progress = True
    while progress and budget > 0:
        progress = False
        for c2 in cands(best):
            budget -= 1
            if budget <= 0:
                break
            try:
                if check(c2) == key:
                    best = c2
                    progress = True
                    break
            except Exception:
                continue
    return best


def run(ctx: Ctx):
    ctx.lean_gate()
    ctx.anchors(ANCHORS)
    ctx.cov["rule"] = (
        "mapping trees over 1-3 Einsums (matmul chain; fork: one producer, two consumers; merge: two producers, one consumer), "
        "bounds 1-4, 2-3 memory levels with per-(level,tensor) bit widths; top holders (some persistent), shared loops over the "
        "common rank variables incl. single-iteration loops and two loops on one rank variable, backing holders of the "
        "intermediates at any level below the shared loops, further prefix holders, flat or once-nested Sequential, branches with "
        "holders of every tensor at any subset of levels in any order, below loops, merged into multi-tensor nodes; n_instances "
        "1-3. Streams: fused (must agree exactly), oversubscription (sizes around the peak), shared-not-fused (directed at the "
        "known finding), single-nest-model-vs-reference (instances of the theorem AFV.C06.peak_single_check evaluated natively on nests of the C05 generator, "
        "no Tolls), mapper-returned mappings. non-trivial = at least two Einsums and a holder below a shared loop or a "
        "nested Sequential"
    )
    ctx.cov["tolerance"] = "exact rationals (usage × size) when the size is a power of two, else 1e-5 relative"
    ctx.cov["trusted_base"] += ["harness/fusedlib.py (YAML rendering of mapping trees, conversion to the spec's input)"]
    ctx.assumptions += [
        "no Lean model of the joiner's reservation algebra: the tie is a correspondence of evaluate_mapping with the Lean reference",
        "trees in which a Sequential stands below shared loops that carry no fused tensor are evaluated by the code as if the Einsums "
        "ran one after the other (known finding shared-loops-without-fused-tensor); the main stream generates trees whose shared "
        "loops all stand above the backing holder of an intermediate exchanged below them",
        "temporal loops only, perfect factorisation, no Tolls in fused trees",
    ]
    drv = ctx.driver()
    rng = ctx.rng
    reported = {}

    def classify(c):
        """verdict key of one case: None (agrees) or a failure key"""
        want = spec_peak(drv, c)
        over = any(want[l] > c["sizes"][l] for l in range(c["n_levels"]))
        usage, err = F.run_impl(c)
        if err is not None:
            # rejections: InvalidMappingError (one Einsum's own reservations exceed a memory) or the joiner finding no valid
            # combination ("No mappings found for A <--> B") when the joint peak exceeds it
            if err[0] == "InvalidMappingError" or (err[0] == "ValueError" and "No mappings found" in err[1]):
                return None if over else "spurious-invalid-mapping"
            return "impl-exception-" + err[0]
        if over:
            return "oversubscription-accepted"
        d = compare(c, usage, want)
        if d is None:
            return None
        n_e = len(c["wl"]["einsums"])
        return ("usage-single-einsum" if n_e == 1 else f"usage-{c['wl']['kind']}-{c.get('mode')}") + ("-over" if d[1] > d[2] else "-under")

    def handle(c, stream, expect_key=None):
        want = spec_peak(drv, c)
        feats = F.tree_features(c["tree"])
        n_e = len(c["wl"]["einsums"])
        ctx.case({"tree": c["tree"], "bounds": c["wl"]["bounds"], "kind": c["wl"]["kind"]},
                 nontrivial=n_e >= 2 and bool(feats & {"prefix-holder-below-shared-loop", "nested-sequential", "shared-loops"}),
                 branches=sorted(feats) + [f"einsums={n_e}", f"kind={c['wl']['kind']}", f"mode={c.get('mode')}"])
        ctx.dist(stream)
        key = classify(c)
        if key is None:
            return
        if expect_key is not None and key.startswith("usage-"):
            key = expect_key
        reported[key] = reported.get(key, 0) + 1
        ctx.cov["failing_cases_by_key"] = dict(reported)
        if reported[key] > 1 or len(reported) > 6:
            return
        small = c if expect_key is not None else shrink(drv, c, key, classify)
        w2 = spec_peak(drv, small)
        usage, err = F.run_impl(small)
        ctx.fail(key, f"evaluate_mapping reports usage {usage} (error {err}) but the execution-time peak is "
                      f"{[str(x) for x in w2]} bits for sizes {small['sizes']}",
                 {"case": small, "yaml": F.case_yaml(small), "spec_peak_bits": [str(x) for x in w2],
                  "impl_usage": {k: float(v) for k, v in (usage or {}).items()}, "impl_error": err})

    cdir = CORPUS_DIR / "C06"
    if cdir.exists():
        for f in sorted(cdir.glob("*.json")):
            handle(json.loads(f.read_text())["case"], "corpus")
    if ctx.replay:
        handle(json.loads(open(ctx.replay).read())["replay"]["case"], "replay")
        return

    n_fused = 2500 if ctx.thorough else 110
    n_over = 400 if ctx.thorough else 20
    n_nofuse = 12 if ctx.thorough else 3
    for _ in range(n_fused):
        handle(F.gen_case(rng), "fused")
    for _ in range(n_over):
        c = F.gen_case(rng)
        want = spec_peak(drv, c)
        for l in range(c["n_levels"]):
            p = 1
            while p < want[l]:
                p *= 2
            c["sizes"][l] = max(1, rng.choice([p, p, 2 * p, p // 2, p // 2, max(1, p // 4)]))
        handle(c, "oversubscription")
    for _ in range(n_nofuse):
        c = F.gen_case(rng, N=rng.choice([2, 3]), kind="chain", fused=False)
        handle(c, "shared-not-fused", expect_key="shared-loops-without-fused-tensor")

    # single Einsum: instances of the theorem `peak_single_check` evaluated by the native driver (consistency of the compiled model,
    # the reference and the theorem's statement; does not touch /repo)
    from harness import nestlib as NL
    n_nest = 800 if ctx.thorough else 60
    bad_nest = 0
    for i in range(n_nest):
        case = NL.gen_case(rng, exact=True, small=(i % 3 != 0), toll_prob=0.0)
        rep = drv.ask("C06", NL.driver_req(case, "peaksingle"))
        if "err" in rep:
            raise RuntimeError(f"driver: {rep}")
        if not (rep["wf"] and rep["notoll"]):
            ctx.dist("nest-model-skipped")
            continue
        ctx.case({"nest": case["mapping"], "bounds": case["workload"]["bounds"]}, nontrivial=False, branches=["single-nest-model-vs-reference"])
        ctx.dist("single-nest-model-vs-reference")
        if not rep["holds"]:
            bad_nest += 1
            if bad_nest == 1:
                ctx.broken("an instance of AFV.C06.PeakSingleStatement is false: the Lean model of run_model's reservations (analytic.memBits) "
                           "and the reference peak disagree on a single-Einsum nest", {"case": case})

    # mapper-returned mappings
    try:
        from harness import mapperlib as ML
    except Exception:
        ML = None
    if ML is not None:
        n_map = 10 if ctx.thorough else (1 if ctx.elapsed() < 110 else 0)
        for _ in range(n_map):
            params = ML.gen_params(rng, kind="matmuls", n_einsums=rng.choice([2, 2, 3]), levels=rng.choice([2, 3]), finite_glb=True)
            r = ML.run_mapper(params, ["ENERGY", "LATENCY"])
            if r["error"] or not r["rows"]:
                ctx.dist("mapper-no-result")
                continue
            for row in r["rows"][: (4 if ctx.thorough else 2)]:
                if "mapping" not in row:
                    continue
                c = F.case_from_export(params, row["mapping"])
                if c is None:
                    ctx.dist("mapper-export-not-convertible")
                    continue
                ev = ML.evaluate(params, row["mapping"])
                want = spec_peak(drv, c)
                ctx.case({"mapper": True, "tree": c["tree"]}, nontrivial=True, branches=["mapper-returned"])
                ctx.dist("mapper-returned")
                if ev.get("error"):
                    continue
                bad = None
                for l, name in enumerate(c["level_names"]):
                    size = c["sizes"][l]
                    if size is None:
                        continue
                    got = ev["usage"].get(name)
                    if got is None:
                        continue
                    if abs(got * size - float(want[l])) > 1e-4 * max(1.0, float(want[l])):
                        bad = (name, got * size, float(want[l]))
                if bad:
                    key = "usage-mapper-returned"
                    reported[key] = reported.get(key, 0) + 1
                    if reported[key] == 1:
                        ctx.fail(key, f"usage of {bad[0]} for a mapper-returned mapping is {bad[1]} bits, the execution-time peak is {bad[2]}",
                                 {"params": params, "mapping": row["mapping"], "spec_case": c})
