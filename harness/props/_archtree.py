"""Shared helpers for the architecture-tree properties C25 / C26 / C27 (not a property module).

A generated tree is a list of node dicts

    {"k": "leaf", "kind": "Memory"|"Toll"|"Container"|"Compute", "name": str, "spatial": [int, ...],
     "area": int|None, "leak": int|None, "area_scale": int, "leak_scale": int, "energy_scale": int,
     "throughput_scale": int, "n_parallel": int, "dummy": bool,
     "actions": [{"name", "energy": int|None, "energy_scale": int, "throughput": int|None, "throughput_scale": int}]}
    {"k": "hier"|"fork", "nodes": [...]}

`build_arch` turns it into the real pydantic objects of /repo, `to_yaml` into YAML text for `Spec.from_yaml`,
`to_driver` into the JSON the Lean driver parses.
"""
from __future__ import annotations

import copy
import math
from functools import lru_cache

NONCOMPUTE = ("Memory", "Toll", "Container")
DEFAULT_ACTIONS = {"Memory": ("read", "write"), "Toll": ("read",), "Compute": ("compute",)}


def load_replay(path):
    """Load a replay file; a relative path is taken relative to the verification root (./check cds there)."""
    import json
    from pathlib import Path

    from harness.core import VERIF

    q = Path(path)
    if not q.is_absolute():
        q = VERIF / q
    return json.loads(q.read_text())


def mk_leaf(kind: str, name: str, spatial=(), area=0, leak=0, **kw) -> dict:
    d = {
        "k": "leaf", "kind": kind, "name": name, "spatial": list(spatial), "area": area, "leak": leak,
        "area_scale": 1, "leak_scale": 1, "energy_scale": 1, "throughput_scale": 1, "n_parallel": 1, "dummy": False,
        "actions": [
            {"name": a, "energy": 1, "energy_scale": 1, "throughput": 1, "throughput_scale": 1}
            for a in DEFAULT_ACTIONS.get(kind, ())
        ],
    }
    d.update(kw)
    return d


def walk(tree):
    """All node dicts, document order, branches included."""
    for n in tree:
        yield n
        if n["k"] != "leaf":
            yield from walk(n["nodes"])


def leaves(tree):
    return [n for n in walk(tree) if n["k"] == "leaf"]


def size(tree) -> int:
    return sum(1 for _ in walk(tree))


def depth(tree) -> int:
    return max([0] + [1 + depth(n["nodes"]) for n in tree if n["k"] != "leaf"])


def fanout(leaf) -> int:
    return int(math.prod(leaf["spatial"]))


def shape(tree) -> str:
    """Compact shape string, e.g. `M F[T H[C K]] M K`."""
    out = []
    for n in tree:
        if n["k"] == "leaf":
            s = {"Memory": "M", "Toll": "T", "Container": "C", "Compute": "K"}[n["kind"]]
            f = fanout(n)
            out.append(s + (f"*{f}" if f != 1 else ""))
        else:
            out.append(("H" if n["k"] == "hier" else "F") + "[" + shape(n["nodes"]) + "]")
    return " ".join(out)


# ----------------------------------------------------------------------------- driver JSON
def to_driver(tree, area_of=None, leak_of=None) -> list:
    """JSON for the Lean driver.  `area_of/leak_of`: name -> per-instance value (defaults: declared)."""
    out = []
    for n in tree:
        if n["k"] == "leaf":
            a = n["area"] if area_of is None else area_of.get(n["name"], 0)
            l = n["leak"] if leak_of is None else leak_of.get(n["name"], 0)
            out.append({
                "k": "leaf", "name": n["name"], "compute": n["kind"] == "Compute",
                "component": n["kind"] != "Container", "fanout": fanout(n),
                "area": int(a or 0), "leak": int(l or 0),
            })
        else:
            out.append({"k": n["k"], "nodes": to_driver(n["nodes"], area_of, leak_of)})
    return out


# ----------------------------------------------------------------------------- real objects
def _spatial(n):
    return [{"name": f"d_{n['name']}_{i}", "fanout": f} for i, f in enumerate(n["spatial"])]


def _component_kwargs(n) -> dict:
    kw = {}
    if n["dummy"]:
        kw["component_class"] = "dummy"
    if n["area"] is not None:
        kw["area"] = n["area"]
    if n["leak"] is not None:
        kw["leak_power"] = n["leak"]
    for k_src, k_dst in (("area_scale", "area_scale"), ("leak_scale", "leak_power_scale"), ("energy_scale", "energy_scale"),
                         ("throughput_scale", "throughput_scale"), ("n_parallel", "n_parallel_instances")):
        if n[k_src] != 1:
            kw[k_dst] = n[k_src]
    acts = []
    for a in n["actions"]:
        d = {"name": a["name"]}
        if a["energy"] is not None:
            d["energy"] = a["energy"]
        if a["throughput"] is not None:
            d["throughput"] = a["throughput"]
        if a["energy_scale"] != 1:
            d["energy_scale"] = a["energy_scale"]
        if a["throughput_scale"] != 1:
            d["throughput_scale"] = a["throughput_scale"]
        acts.append(d)
    kw["actions"] = acts
    return kw


def build_nodes(tree):
    from accelforge.frontend.arch import Compute, Container, Fork, Hierarchical, Memory, Toll

    out = []
    for n in tree:
        if n["k"] == "hier":
            out.append(Hierarchical(nodes=build_nodes(n["nodes"])))
        elif n["k"] == "fork":
            out.append(Fork(nodes=build_nodes(n["nodes"])))
        elif n["kind"] == "Container":
            out.append(Container(name=n["name"], spatial=_spatial(n)))
        else:
            kw = _component_kwargs(n)
            sp = _spatial(n)
            if sp:
                kw["spatial"] = sp
            if n["kind"] == "Memory":
                out.append(Memory(name=n["name"], size=64, **kw))
            elif n["kind"] == "Toll":
                out.append(Toll(name=n["name"], direction="up_and_down", **kw))
            elif n["kind"] == "Compute":
                out.append(Compute(name=n["name"], **kw))
            else:
                raise ValueError(n["kind"])
    return out


def build_spec(tree):
    from accelforge.frontend.arch import Arch
    from accelforge.frontend.spec import Spec

    return Spec(arch=Arch(nodes=build_nodes(tree)))


def to_yaml(tree) -> str:
    def flow(d):
        return "{" + ", ".join(f"{k}: {v}" for k, v in d.items()) + "}"

    def emit(nodes, ind):
        lines = []
        p = " " * ind
        for n in nodes:
            if n["k"] != "leaf":
                lines.append(f"{p}- !{'Hierarchical' if n['k'] == 'hier' else 'Fork'}")
                if n["nodes"]:
                    lines.append(f"{p}  nodes:")
                    lines += emit(n["nodes"], ind + 2)
                else:
                    lines.append(f"{p}  nodes: []")
                continue
            lines.append(f"{p}- !{n['kind']}")
            lines.append(f"{p}  name: {n['name']}")
            sp = _spatial(n)
            if sp:
                lines.append(f"{p}  spatial:")
                lines += [f"{p}  - {flow(s)}" for s in sp]
            if n["kind"] == "Container":
                continue
            if n["kind"] == "Memory":
                lines.append(f"{p}  size: 64")
            if n["kind"] == "Toll":
                lines.append(f"{p}  direction: up_and_down")
            kw = _component_kwargs(n)
            acts = kw.pop("actions")
            for k, v in kw.items():
                lines.append(f"{p}  {k}: {v}")
            lines.append(f"{p}  actions:")
            lines += [f"{p}  - {flow(a)}" for a in acts]
        return lines

    body = emit(tree, 2)
    return "arch:\n  nodes:" + ("\n" + "\n".join(body) if body else " []") + "\n"


def spec_from_yaml(tree, scratch_name="arch.yaml"):
    from accelforge.frontend.spec import Spec

    with open(scratch_name, "w") as f:
        f.write(to_yaml(tree))
    return Spec.from_yaml(scratch_name)


# ----------------------------------------------------------------------------- generation
def rename(tree):
    """Give every leaf a fresh unique name (document order), in place; returns the tree."""
    for i, n in enumerate(leaves(tree)):
        n["name"] = {"Memory": "M", "Toll": "T", "Container": "C", "Compute": "K"}[n["kind"]] + str(i)
    return tree


def gen_tree(rng, max_depth=3, max_len=4, p_branch=0.3, fan=(1, 1, 1, 2, 3, 4, 5), want_compute=True):
    """Random tree: at most `max_depth` levels of Fork/Hierarchical below the root, lists of 0..max_len nodes."""

    def leaf():
        kind = rng.choice(["Memory", "Memory", "Toll", "Container", "Compute", "Compute"])
        nsp = rng.choice([0, 1, 1, 2])
        sp = [rng.choice(fan) for _ in range(nsp)]
        return mk_leaf(kind, "?", sp, area=rng.randint(0, 9), leak=rng.randint(0, 9))

    def nodes(d, top=False):
        n = rng.randint(1 if top else 0, max_len)
        out = []
        for _ in range(n):
            if d > 0 and rng.random() < p_branch:
                out.append({"k": rng.choice(["hier", "fork", "fork"]), "nodes": nodes(d - 1)})
            else:
                out.append(leaf())
        return out

    for _ in range(50):
        t = nodes(max_depth, top=True)
        if not want_compute or any(l["kind"] == "Compute" for l in leaves(t)):
            return rename(t)
    t.append(mk_leaf("Compute", "?"))
    return rename(t)


@lru_cache(None)
def _forests(n: int, d: int):
    """All node-list shapes with exactly n nodes (branches count) and branch depth <= d, over N|K|H[..]|F[..]."""
    if n == 0:
        return ((),)
    res = []
    for first_size in range(1, n + 1):
        firsts = []
        if first_size == 1:
            firsts += ["N", "K"]
        if d > 0:
            for inner in _forests(first_size - 1, d - 1):
                firsts.append(("H", inner))
                firsts.append(("F", inner))
        for f in firsts:
            for rest in _forests(n - first_size, d):
                res.append((f,) + rest)
    return tuple(res)


def enumerate_shapes(max_nodes: int, max_depth: int = 3):
    for n in range(0, max_nodes + 1):
        yield from _forests(n, max_depth)


def shape_to_tree(sh, rng=None, fan=(1,), kinds=NONCOMPUTE):
    """Instantiate a shape; non-compute kinds cycle through Memory/Toll/Container, fanouts drawn from `fan`."""
    ctr = [0]

    def conv(nodes):
        out = []
        for x in nodes:
            if x == "N" or x == "K":
                kind = "Compute" if x == "K" else kinds[ctr[0] % len(kinds)]
                ctr[0] += 1
                f = rng.choice(fan) if rng else fan[0]
                out.append(mk_leaf(kind, "?", [f] if f != 1 else [], area=(ctr[0] * 3) % 7 + 1, leak=(ctr[0] * 5) % 7 + 1))
            else:
                out.append({"k": "hier" if x[0] == "H" else "fork", "nodes": conv(x[1])})
        return out

    return rename(conv(sh))


# ----------------------------------------------------------------------------- shrinking
def _variants(tree):
    """Strictly smaller / simpler trees: drop a node, splice a branch's contents, drop a fanout."""
    for i, n in enumerate(tree):
        yield tree[:i] + tree[i + 1:]
        if n["k"] != "leaf":
            yield tree[:i] + n["nodes"] + tree[i + 1:]
            if n["k"] == "fork":
                yield tree[:i] + [{"k": "hier", "nodes": n["nodes"]}] + tree[i + 1:]
            for sub in _variants(n["nodes"]):
                yield tree[:i] + [{"k": n["k"], "nodes": sub}] + tree[i + 1:]
        else:
            if n["spatial"]:
                for j in range(len(n["spatial"])):
                    m = dict(n)
                    m["spatial"] = n["spatial"][:j] + n["spatial"][j + 1:]
                    yield tree[:i] + [m] + tree[i + 1:]
            if n["kind"] in ("Toll", "Container") and not n.get("_keepkind"):
                m = mk_leaf("Memory", n["name"], n["spatial"], n["area"] or 0, n["leak"] or 0)
                yield tree[:i] + [m] + tree[i + 1:]


def shrink(tree, fails, budget=400):
    """Greedy delta debugging: `fails(tree) -> bool` must hold for the input; returns a locally minimal tree."""
    cur = copy.deepcopy(tree)
    steps = 0
    progress = True
    while progress and steps < budget:
        progress = False
        for cand in _variants(cur):
            steps += 1
            if steps >= budget:
                break
            cand = copy.deepcopy(cand)
            try:
                ok = fails(cand)
            except Exception:
                ok = False
            if ok:
                cur = cand
                progress = True
                break
    return cur
