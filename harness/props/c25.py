"""C25 — architecture flattening yields exactly the root-to-compute path.

Proof:  AFV/Props/C25.lean   flatten_eq_path, flatten_last, other_compute_excluded, fork_excluded, getFlattened_ok
Model:  AFV/Model/ArchTree.lean  (`flatten`, `find`, `getFlattened` follow Hierarchical._flatten /
        Spec._get_flattened_architecture); reference semantics AFV/Spec/ArchTree.lean (explicit rooted tree,
        root-to-node path).
Tie:    correspondence.  Generated trees are built as real pydantic objects (or YAML through Spec.from_yaml),
        evaluated with Spec._spec_eval_expressions, and `Spec._get_flattened_architecture` is called for every
        Compute of the tree (by name, by Compute object, and with compute_node=None).  The Lean driver returns
        the proved spec (tree path) and the model output for the same tree.  Observable compared: the list of
        (leaf name, leaf class) top-down.
Verdict: the spec path is the judge.  impl != spec on a valid query is a failing input (shrunk, classified).
"""
from __future__ import annotations

import copy
import json

from harness.core import Ctx, CORPUS_DIR
from harness.props import _archtree as A

ANCHORS = [
    "accelforge.frontend.arch.structure:Hierarchical._flatten",
    "accelforge.frontend.arch.structure:ArchNode.find",
    "accelforge.frontend.spec:Spec._get_flattened_architecture",
]


# ------------------------------------------------------------------ the implementation side
def impl_paths(tree, via="objects", mode="name"):
    """Run the real code.  Returns {compute name: [[leaf name, class name], ...] | {"exc": type}}."""
    spec = A.spec_from_yaml(tree) if via == "yaml" else A.build_spec(tree)
    spec = spec._spec_eval_expressions()
    computes = [l["name"] for l in A.leaves(tree) if l["kind"] == "Compute"]
    out = {}
    if mode == "all":
        try:
            res = spec._get_flattened_architecture()
            if len(res) != len(computes):
                return {c: {"exc": f"all-mode returned {len(res)} paths for {len(computes)} computes"} for c in computes}
            for c, f in zip(computes, res):
                out[c] = [[n.name, type(n).__name__] for n in f]
        except Exception as e:  # noqa: BLE001 - an exception on a valid tree is an observable outcome
            out = {c: {"exc": type(e).__name__} for c in computes}
        return out
    for c in computes:
        try:
            arg = spec.arch.find(c) if mode == "object" else c
            f = spec._get_flattened_architecture(compute_node=arg)
            out[c] = [[n.name, type(n).__name__] for n in f]
        except Exception as e:  # noqa: BLE001
            out[c] = {"exc": type(e).__name__}
    return out


def classify(tree, c, got, want, excluded):
    """Key of a (minimised) failing query."""
    if isinstance(got, dict):
        return "exception-" + got["exc"].split()[0]
    kinds = {l["name"]: l["kind"] for l in A.leaves(tree)}
    gn, wn = [g[0] for g in got], [w[0] for w in want]
    if any(n in excluded for n in gn):
        return "fork-without-compute-included"
    if any(kinds.get(n) == "Compute" and n != c for n in gn):
        return "other-compute-included"
    if not gn or gn[-1] != c:
        return "compute-not-last"
    if any(n not in gn for n in wn):
        return "path-leaf-missing"
    if sorted(gn) == sorted(wn) and gn != wn:
        return "path-order"
    if any(n not in wn for n in gn):
        return "off-path-leaf-included"
    if gn == wn:
        return "leaf-class-changed"
    return "path-differs"


def run(ctx: Ctx):
    ctx.lean_gate()
    ctx.anchors(ANCHORS)
    ctx.cov["rule"] = (
        "architecture trees over Memory/Toll/Container/Compute leaves, Fork and nested Hierarchical branches, depth <= 4 "
        "(root + 3 levels): (A) every tree shape with at most N nodes, N=4 quick / 5 thorough (+ a seeded sample of the 6- and 7-node shapes), (B) seeded random trees with "
        "lists of 0..4 nodes per branch incl. empty branches, computes inside forks, several computes per chain; each tree is "
        "queried for every Compute it contains by name / by object / all at once. non-trivial = the tree has a Fork or a "
        "nested Hierarchical or a second compute"
    )
    ctx.cov["trusted_base"] += [
        "pydantic construction / YAML loading / Spec._spec_eval_expressions leave the node structure as generated (exercised, not proved)",
        "harness/props/_archtree.py: conversion of a generated tree to real arch objects and to the driver's JSON",
    ]
    ctx.assumptions += [
        "Array nodes are outside the property's quantifier and the model",
        "leaf names are distinct (Arch.model_post_init and _get_flattened_architecture reject duplicates)",
        "the fanout bookkeeping inside _flatten is not observable through _get_flattened_architecture and is not modelled",
    ]
    drv = ctx.driver()
    rng = ctx.rng
    state = {"fails": 0}

    def check_tree(tree, via="objects", mode="name", stream="random", report=True):
        """Returns list of failing (c, got, want) of this tree."""
        d = drv.ask("C25", {"op": "all", "tree": A.to_driver(tree)})
        if "err" in d or not d["wf"]:
            raise RuntimeError(f"generator produced a tree the driver rejects: {d}")
        kinds = {l["name"]: l["kind"] for l in A.leaves(tree)}
        got = impl_paths(tree, via, mode)
        bad = []
        br = []
        for p in d["paths"]:
            c = p["c"]
            if p["spec"] is None or p["model"].get("ok") != p["spec"]:
                raise RuntimeError(f"Lean model disagrees with its proved spec on {A.shape(tree)} / {c}: {p}")
            want = [[n, kinds[n]] for n in p["spec"]]
            br += p["branches"]
            if got.get(c) != want:
                bad.append((c, got.get(c), want))
        if report:
            nontrivial = any(n["k"] != "leaf" for n in A.walk(tree)) or len(d["computes"]) > 1
            ctx.case({"shape": A.shape(tree), "names": [l["name"] for l in A.leaves(tree)]}, nontrivial=nontrivial,
                     branches=sorted(set(br)))
            ctx.dist(f"stream={stream}")
            ctx.dist(f"via={via}")
            ctx.dist(f"mode={mode}")
            ctx.dist(f"depth={A.depth(tree) + 1}")
            ctx.dist(f"computes={min(len(d['computes']), 4)}{'+' if len(d['computes']) > 4 else ''}")
        return bad

    def handle(tree, via, mode, stream):
        bad = check_tree(tree, via, mode, stream)
        if not bad or state["fails"] >= 12:
            return
        state["fails"] += 1
        c0 = bad[0][0]

        def fails(t):
            t = copy.deepcopy(t)
            if c0 not in [l["name"] for l in A.leaves(t) if l["kind"] == "Compute"]:
                return False
            return any(b[0] == c0 for b in check_tree(t, "objects", "name", report=False))

        small = A.shrink(tree, fails) if fails(tree) else tree
        bad2 = [b for b in check_tree(small, via if small is tree else "objects", mode if small is tree else "name",
                                      report=False) if b[0] == c0] or bad
        c, got, want = bad2[0]
        excl = _excluded(small, c)
        key = classify(small, c, got, want, excl)
        if (key, A.shape(small)) in state.setdefault("seen", set()):
            return
        state["seen"].add((key, A.shape(small)))
        ctx.fail(key, f"_get_flattened_architecture({c!r}) is not the root-to-compute path of {A.shape(small)}",
                 {"tree": small, "shape": A.shape(small), "compute": c, "got": got, "want_path": want,
                  "original_shape": A.shape(tree), "via": via, "mode": mode})

    def _excluded(tree, c):
        """Names inside forks that do not contain c."""
        out = set()

        def rec(nodes):
            for n in nodes:
                if n["k"] == "fork" and c not in [l["name"] for l in A.leaves(n["nodes"])]:
                    out.update(l["name"] for l in A.leaves(n["nodes"]))
                elif n["k"] != "leaf":
                    rec(n["nodes"])

        rec(tree)
        return out

    # ---------------- replay / corpus first
    if ctx.replay:
        body = A.load_replay(ctx.replay)
        handle(body["replay"]["tree"], "objects", "name", "replay")
        return
    cdir = CORPUS_DIR / "C25"
    if cdir.exists():
        for f in sorted(cdir.glob("*.json")):
            handle(json.load(open(f))["tree"], "objects", "name", "corpus")

    # ---------------- stream A: exhaustive small shapes
    max_nodes = 5 if ctx.thorough else 4
    n_ex = 0
    for sh in A.enumerate_shapes(max_nodes, 3):
        tree = A.shape_to_tree(sh)
        if not any(l["kind"] == "Compute" for l in A.leaves(tree)):
            continue
        n_ex += 1
        handle(tree, "objects", "name", "exhaustive")
    ctx.cov["exhaustive"] = True
    ctx.cov["exhaustive_scope"] = (
        f"all {n_ex} tree shapes with <= {max_nodes} nodes (leaves and branches), branch depth <= 3 below the root, "
        "containing at least one Compute; non-compute kinds cycle through Memory/Toll/Container"
    )
    if ctx.thorough:  # seeded sample of the 6- and 7-node shapes (104320 and 910080 shapes)
        for n in (6, 7):
            shapes = A._forests(n, 3)
            for _ in range(6000):
                tree = A.shape_to_tree(shapes[rng.randrange(len(shapes))])
                if any(l["kind"] == "Compute" for l in A.leaves(tree)):
                    handle(tree, "objects", "name", f"shapes-{n}-sample")

    # ---------------- stream B: seeded random trees
    n_rand = 12000 if ctx.thorough else 1500
    for i in range(n_rand):
        r = rng.random()
        tree = A.gen_tree(rng, max_depth=3, max_len=rng.choice([2, 3, 4, 4, 5]), p_branch=rng.choice([0.2, 0.35, 0.5]))
        via = "yaml" if r < 0.15 else "objects"
        mode = rng.choice(["name", "name", "object", "all"])
        handle(tree, via, mode, "random")
