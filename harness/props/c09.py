"""C09 — symbolic sign and monotonicity verdicts hold at every point of the box.

Proof:  AFV/Props/C09.lean over AFV/Model/Verdict.lean + AFV/Model/Expr9.lean: the repo's own combination logic
        (`ComparisonResult.__or__`, `_compare_to_zero`, `geq_leq_zero`, `diff_geq_leq_zero`) with sympy as an explicit
        oracle; `verdict_sound`, `verdict_sound_plain`, `ceil_strip_sound_mono`, `minmax_rules_sound`, `shortcut_sound`,
        `verdict_sound_tdncz_partial`, … and three machine-checked counterexamples.
Tie:    (1) PROPERTY: the REAL geq_leq_zero / diff_geq_leq_zero run on generated and harvested formulas; every verdict is
            judged by exact evaluation at EVERY integer point of the box (python Fractions, the Lean `eval` through the
            driver, sympy `subs` at sample points — all three must agree);
        (2) MODEL = CODE: the Lean model is run on the same formula with sympy answering its oracle queries through the
            harness (the very calls the code makes); its verdict must equal the real one; every oracle answer used is
            itself validated by brute force on the box (trusted-base validation per sampled formula);
        (3) the Lean counterexample witnesses are replayed on the real code;
        (4) `ComparisonResult.__or__` exhaustively; Min/Max construction under the `_is_connected` monkeypatch against
            the true extremum of the arguments at every point.
"""
from __future__ import annotations

import json
import os

from harness.core import Ctx, HarnessError
from harness import mapperlib as ML

MTS = "accelforge.mapper.FFM._make_pmappings.make_pmappings_from_templates.make_tile_shapes"
ANCHORS = [f"{MTS}:_compare_to_zero", f"{MTS}:geq_leq_zero", f"{MTS}:diff_geq_leq_zero", f"{MTS}:_is_connected_cached",
           f"{MTS}:ComparisonResult", f"{MTS}:partition_heaviside", f"{MTS}:expr_replace", f"{MTS}:function_range", f"{MTS}:diff"]

# (formula, box, number of symbols, what the Lean witness theorem says the sign verdict is | None)
FIXED = [
    ("ceiling(a/4) - 1/2", [[1, 2]], 1, ("sign", False, "LEQ")),                      # ceil_strip_unsound_example
    ("Heaviside(a - 2) - Heaviside(b - 2)", [[1, 4], [1, 4]], 2, ("sign", False, "EQ")),   # heaviside_partition_counterexample
    ("Max(a, b) - a", [[1, 4], [1, 4]], 2, ("sign", True, "LEQ")),                     # tdncz_fallthrough_counterexample
    ("a - 1", [[1, 4]], 1, ("sign", False, "GEQ")),                                    # the sound run of Props/C09
    ("b*ceiling(a/4) - a*b/8", [[1, 8], [1, 4]], 2, None),
    ("a*ceiling(8/a)", [[1, 8]], 1, None),
    ("288*a*ceiling(4/a) + 57888*ceiling(4/a) + 79176", [[1, 4]], 1, None),             # emitted by the cost model (imperfect)
    ("1 - 1/(a*b)", [[1, 3], [1, 3]], 2, None),
    ("4*a/3 - 17/2 + 18/(a**2*b)", [[1, 6], [1, 1]], 2, None),
    ("Max(-a + 575/8 + 7/(2*a), a**2/2 + 18*a + 3/2)", [[1, 2]], 1, None),
    ("a*b - 4", [[2, 5], [2, 3]], 2, None),
    ("(a - b)**2", [[1, 4], [1, 4]], 2, None),
    ("Max(72, 288 + 72/a + 72/b)", [[1, 4], [1, 6]], 2, None),
    ("81480 + 231552/a + 231552/b", [[1, 4], [1, 6]], 2, None),
    ("a - b", [[3, 3], [3, 3]], 2, None),
    ("Min(a, 4)/a", [[1, 8]], 1, None),
    ("Max(a - 3, 1 - a)", [[1, 4]], 1, None),                 # any/all rules, both directions
    ("Min(a - 3, 1 - a)", [[1, 4]], 1, None),
    ("Max(a - b, b - a)", [[1, 4], [1, 4]], 2, None),
    ("Min(a - 2, b - 2, 3 - a)", [[1, 4], [1, 4]], 2, None),
    ("Max(a - 5, b - 5)", [[1, 4], [1, 5]], 2, None),
    ("Min(a, b) - 1", [[1, 4], [1, 4]], 2, None),
    ("Max(Min(a - 2, 2 - b), a - 4)", [[1, 4], [1, 4]], 2, None),
    ("a + b - 2", [[1, 3], [1, 3]], 2, None),                # touches zero at the low corner (terms_do_not_cross_zero shortcuts)
    ("a + b - 6", [[1, 3], [1, 3]], 2, None),                # touches zero at the high corner
    ("(a - 1)*(3 - a)", [[1, 3]], 1, None),                  # zero at both corners, positive inside
    ("2 - a", [[1, 1]], 1, None),
]


def parse(expr: str, syms):
    import sympy

    loc = {str(s): s for s in syms}
    loc.update(ceiling=sympy.ceiling, floor=sympy.floor, Max=sympy.Max, Min=sympy.Min, Heaviside=sympy.Heaviside)
    return sympy.sympify(expr, locals=loc)


# ----------------------------------------------------------------------------------------------------------------
# worker side
# ----------------------------------------------------------------------------------------------------------------

_DRV = None


def _driver():
    global _DRV
    if _DRV is None:
        from harness.core import Driver

        _DRV = Driver()
    return _DRV


def _minimise(res, f, syms, box, known):
    """Shrink every failing check whose key is not a known finding."""
    from harness import cmp9 as C

    for ch in res["checks"]:
        bad = ch.get("bad")
        if not bad or bad["key"] in known:
            continue
        s = next((x for x in syms if str(x) == ch["s"]), None)
        g, bx, ch2 = C.shrink_failure(_driver(), f, syms, box, ch["kind"], ch["tdncz"], s, bad["key"])
        if ch2 is not None:
            bad["minimised"] = {"f": str(g), "box": bx, "point": ch2["bad"]["point"], "value": ch2["bad"].get("value")}


def work(case: dict) -> dict:
    """One case = one formula on one box (or one spec to harvest)."""
    import random

    from harness import cmp9 as C

    C.module()
    drv = _driver()
    known = set(case.get("known", []))
    limit = case.get("limit", 15.0)
    if case["kind"] == "harvest":
        return harvest(case)
    if case["kind"] == "minmax":
        return minmax_case(case)
    syms = C.symbols(case["n"])
    if case["kind"] == "gen":
        rng = random.Random(case["seed"])
        box = C.gen_box(rng, case["n"], case["flavour"], case["max_points"])
        try:
            f = C.gen_formula(rng, case["stream"], syms, box)
        except Exception as e:  # a generator hitting 0/0 etc.
            return {"case": case, "skipped": f"generator: {type(e).__name__}", "checks": []}
    else:
        box = case["box"]
        f = parse(case["expr"], syms)
    import sympy

    if not isinstance(f, sympy.Expr) or not f.free_symbols or f.has(sympy.zoo, sympy.nan, sympy.oo):
        return {"case": case, "skipped": "degenerate formula", "checks": []}
    res = C.check_formula(drv, f, syms, box, limit=limit)
    res["case"] = case
    _minimise(res, f, syms, box, known)
    return res


def minmax_case(case: dict) -> dict:
    """Max/Min built by sympy in this process (with the repo's `_is_connected` patch active) vs the true extremum."""
    import random

    import sympy
    from harness import cmp9 as C, exprlib9 as X
    from sympy.functions.elementary.miscellaneous import MinMaxBase

    rng = random.Random(case["seed"])
    syms = C.symbols(case["n"])
    idx = X.sym_index(syms)
    box = C.gen_box(rng, case["n"], "mixed", 200)
    out = {"case": case, "pairs": []}
    for _ in range(case["count"]):
        x = C.g_laurent(rng, syms) if rng.random() < 0.5 else rng.choice(syms) * rng.choice([1, 2, 3])
        s = rng.choice(syms)
        r = rng.random()
        if r < 0.3:
            y = x + (s - 1) * rng.choice([1, 2, rng.choice(syms)])          # y ≥ x, equal where s = 1
        elif r < 0.5:
            y = x * s                                                        # y ≥ x for positive x
        elif r < 0.7:
            y = x + rng.choice([-1, 1]) * (rng.choice(syms) - rng.choice([1, 2]))
        elif r < 0.85:
            y = x - (s - 1)
        else:
            y = C.g_laurent(rng, syms)
        args = [x, y] if rng.random() < 0.5 else [y, x]
        if rng.random() < 0.25:
            args.append(C.g_laurent(rng, syms))
        for cls, op in ((sympy.Max, max), (sympy.Min, min)):
            built = cls(*args)
            fb = X.compile_eval(sympy.sympify(built), idx)
            fa = [X.compile_eval(sympy.sympify(a), idx) for a in args]
            bad = None
            for p in X.points(box):
                want = op(g(p) for g in fa)
                if fb(p) != want:
                    bad = {"point": list(p), "built_value": str(fb(p)), "true_value": str(want)}
                    break
            rec = {"cls": cls.__name__, "args": [str(a) for a in args], "built": str(built), "box": box, "bad": bad}
            if bad:
                # what sympy's own `_is_connected` builds
                orig = C.orig_is_connected()
                if orig is not None:
                    cur = MinMaxBase.__dict__["_is_connected"]
                    MinMaxBase._is_connected = orig
                    sympy.core.cache.clear_cache()
                    try:
                        rec["built_by_unpatched_sympy"] = str(cls(*args))
                    finally:
                        MinMaxBase._is_connected = cur
                        sympy.core.cache.clear_cache()
            out["pairs"].append(rec)
    return out


def harvest(case: dict) -> dict:
    """Every objective formula of the templates of one small spec, as `_make_tile_shapes` builds them."""
    import copy

    import sympy
    from harness import cmp9 as C, exprlib9 as X

    M = C.module()
    from accelforge.mapper.FFM._make_pmappings.make_pmappings import get_jobs, _fill_jobs_with_memories_to_track
    from accelforge.model.run_model import run_model
    from accelforge.mapper.FFM._make_pmappings.make_pmappings_from_templates.symbol_relations import SymbolRelations

    params = case["params"]
    spec = ML.build_spec(params)
    spec.mapper.metrics = ML.metrics_of(case["metrics"])
    spec.mapper.explore_imperfect_temporal_loops = bool(case["imperfect"])
    spec.mapper.explore_imperfect_spatial_loops = bool(case["imperfect"])
    out = {"case": case, "formulas": [], "templates": 0, "skipped_big": 0, "error": None}
    try:
        spec = copy.deepcopy(spec)._spec_eval_expressions(eval_arch=False, eval_non_arch=True)
        einsum = spec.workload.einsum_names[0]
        e2j = get_jobs(spec, spec.mapper.metrics, [einsum], True, False)
        _fill_jobs_with_memories_to_track(e2j, spec, spec.mapper.metrics, False, False)
    except Exception as e:
        out["error"] = f"{type(e).__name__}: {e}"[:300]
        return out
    jobs = [j for v in e2j.values() for jl in v.values() for j in jl]
    seen = set()
    drv = _driver()
    for job in jobs:
        if out["templates"] >= case["max_templates"]:
            break
        job = copy.deepcopy(job)
        job.constraints.set_loop_indices(job.mapping.nodes)
        M.set_last_tile_shape_to_one(job.mapping)
        try:
            symbols, df, pmu, usage, _t2m, actions = run_model(job)
        except Exception as e:
            continue
        if not symbols:
            continue
        rel = SymbolRelations.from_pmapping_and_shape(job.mapping, job.rank_variable_bounds, job.initial_delta_choices)
        syms = sorted(symbols, key=str)
        bmap = {s: (lo, hi) for s, lo, hi in rel.bounds}
        if any(s not in bmap for s in syms):
            continue
        box = [[int(bmap[s][0]), int(bmap[s][1])] for s in syms]
        if X.n_points(box) > case["max_points"] or len(syms) > 4:
            out["skipped_big"] += 1
            continue
        out["templates"] += 1
        objs = []
        for k, v in {**pmu, **usage}.items():
            objs.append((k, v, True))
        for k, v in df.items():
            if "Total" in k:
                objs.append((k, v, ("energy" in k or "latency" in k)))
        for name, v, tdncz in objs:
            try:
                f = sympy.sympify(v)
                f = f.xreplace({s: next(t for t in syms if t.name == s.name) for s in f.free_symbols})
            except Exception:
                continue
            if not f.free_symbols:
                continue
            pieces = [f] + ([a for a in f.args if a.free_symbols] if isinstance(f, (sympy.Add, sympy.Max, sympy.Min, sympy.Mul)) else [])
            for g in pieces:
                key = (str(g), json.dumps(box))
                if key in seen:
                    continue
                seen.add(key)
                r = C.check_formula(drv, g, syms, box, limit=case.get("limit", 15.0),
                                    tdncz_modes=((False, True) if tdncz else (False,)), tol_rel=1e-9)
                r["objective"] = name
                r["symbols"] = [str(s) for s in syms]
                out["formulas"].append(r)
    return out


# ----------------------------------------------------------------------------------------------------------------
# main side
# ----------------------------------------------------------------------------------------------------------------


def _report(ctx: Ctx, res: dict, origin: str, drift: list, symbols=None):
    """Fold one check_formula result into the evidence / verdicts."""
    if res.get("skipped"):
        ctx.dist(f"skipped:{res['skipped'][:30]}")
        return
    tie = res.get("tie")
    if isinstance(tie, dict) and "minmax_patch" in tie:
        ctx.fail("minmax:is-connected-wrong-extremum",
                 f"sympy evaluates {tie['minmax_patch']['formula']} at {tie['minmax_patch']['point']} to "
                 f"{tie['minmax_patch']['sympy_subs_patched']} (true value {tie['minmax_patch']['true_value']}) once "
                 "make_tile_shapes has installed _is_connected_cached", {**tie["minmax_patch"], "box": res["box"]})
    elif tie:
        raise HarnessError(f"evaluators disagree on {res['f']} {res['box']}: {tie}")
    ctx.cov["oracle_answers_validated"] = ctx.cov.get("oracle_answers_validated", 0) + res.get("oracle_answers", 0)
    for b in res.get("oracle_unsound", []):
        lst = ctx.cov.setdefault("oracle_answers_unsound", [])
        if len(lst) < 12:
            lst.append({"formula": b["f"], "answer": b["answer"], "point": b["point"], "why": b["why"], "in": res["f"]})
        ctx.cov["oracle_answers_unsound_count"] = ctx.cov.get("oracle_answers_unsound_count", 0) + 1
    for ch in res["checks"]:
        real = ch["real"]
        tag = f"{ch['kind']}{'/tdncz' if ch['tdncz'] else ''}"
        ctx.dist(f"{tag}:{real[1] if real[0] == 'v' else real[0]}")
        nontrivial = real[0] == "v" and real[1] != "UNKNOWN"
        ctx.case({"f": res["f"], "box": res["box"], "check": tag, "s": ch["s"], "verdict": real},
                 nontrivial=nontrivial, branches=[f"model:{ch['model'][0]}:{ch['model'][1]}"] if ch.get("model") else [])
        if "consistent_variants" in ch:
            drift.append({"f": res["f"], "box": res["box"], "check": tag, "s": ch["s"], "real": ch.get("real_on_model_input"),
                          "model": ch.get("model"), "variants": ch["consistent_variants"]})
        bad = ch.get("bad")
        if bad:
            m = bad.get("minimised")
            replay = {"origin": origin, "formula": (m or {}).get("f", res["f"]), "symbols": symbols or ["a", "b", "c", "d"],
                      "box": (m or {}).get("box", res["box"]), "check": ch["kind"], "tdncz": ch["tdncz"], "symbol": ch["s"],
                      "verdict": real[1], "point": (m or {}).get("point", bad["point"]), "value": (m or {}).get("value", bad.get("value")),
                      "what": bad["what"], "unminimised": {"formula": res["f"], "box": res["box"]},
                      "oracle_unsound": ch.get("oracle_unsound")}
            what = (f"{'geq_leq_zero' if ch['kind'] == 'sign' else 'diff_geq_leq_zero'} reported {real[1]}"
                    f"{' (terms_do_not_cross_zero)' if ch['tdncz'] else ''} but the formula has a {bad['what']} at {replay['point']}")
            ctx.fail(bad["key"], what, replay)


def run(ctx: Ctx):
    ctx.lean_gate()
    ctx.cov["timing_s"] = {"lean_gate": round(ctx.elapsed(), 1)}
    ctx.anchors(ANCHORS)
    ctx.cov["rule"] = (
        "formulas over ≤3 positive integer symbols on boxes with bounds ≤ 15 (lower bounds 1..8, widths 0..11), 7 generated streams "
        "(Laurent polynomials as the cost model emits, signed Laurent, ceilings of quotients incl. s*ceiling(N/s), differences built "
        "to cross / touch zero inside the box, Max/Min of crossing terms, Heaviside terms, products) + fixed witnesses + every "
        "objective formula (and its top-level terms) of templates of small specs in perfect and imperfect mode; per formula: "
        "geq_leq_zero without and (when the formula does not cross zero) with terms_do_not_cross_zero, diff_geq_leq_zero per symbol. "
        "non-trivial = a definite (GEQ/LEQ/EQ) verdict")
    ctx.cov["trusted_base"] += [
        "sympy 1.14 relational evaluation, function_range, diff, expand, automatic evaluation: ORACLES; every answer the model "
        "consumed is validated by brute force on the box per sampled formula (counts in coverage), not for all formulas",
        "harness/exprlib9.py exporter/evaluator (cross-checked three ways on every formula: python Fractions, Lean eval, sympy subs)",
    ]
    ctx.assumptions += [
        "derivative verdicts are judged as monotonicity of the formula itself (ceilings included) on adjacent integer points; "
        "the calculus link (DerivLink in Props/C09.lean) is not proved",
        "an exception raised by the comparator is not a verdict (counted, not a violation)",
        "float coefficients of harvested formulas are taken at their exact binary value; sign verdicts on them are judged with relative tolerance 1e-9",
    ]
    ctx.cov["tolerance"] = "exact for generated formulas; 1e-9 relative for harvested formulas with float coefficients"
    known = sorted(ctx._known.keys())
    rng = ctx.rng
    cases = []
    if ctx.replay:
        rp = json.loads(open(ctx.replay).read())["replay"]
        cases.append({"kind": "fixed", "expr": rp["formula"], "box": rp["box"], "n": len(rp["box"]), "expect": None, "known": []})
    else:
        for expr, box, n, expect in FIXED:
            cases.append({"kind": "fixed", "expr": expr, "box": box, "n": n, "expect": expect, "known": known})
        import glob

        for fpath in sorted(glob.glob(str(ctx_corpus_dir() / "*.json"))):
            rp = json.loads(open(fpath).read())
            rp = rp.get("replay", rp)
            cases.append({"kind": "fixed", "expr": rp["formula"], "box": rp["box"], "n": len(rp["box"]), "expect": None, "known": known})
        from harness import cmp9 as C

        n_gen = 800 if ctx.thorough else 40
        for i in range(n_gen):
            stream = C.STREAMS[i % len(C.STREAMS)]
            cases.append({"kind": "gen", "stream": stream, "n": rng.choice([1, 2, 2, 3]),
                          "flavour": rng.choice(["unit", "unit", "lo>1", "mixed", "width0"]),
                          "seed": rng.randrange(1 << 48), "max_points": 600 if ctx.thorough else 300, "known": known,
                          "limit": 20.0 if ctx.thorough else 10.0})
        for i in range(6 if ctx.thorough else 2):
            cases.append({"kind": "minmax", "seed": rng.randrange(1 << 48), "n": rng.choice([1, 2]), "count": 60 if ctx.thorough else 15})
        n_specs = 10 if ctx.thorough else 2
        for i in range(n_specs):
            p = ML.gen_params(rng, n_einsums=1, allow_fanout=False)
            wl = p["workload"]
            for k in ("M", "KN", "A", "B", "C"):
                if k in wl:
                    wl[k] = rng.choice([2, 3, 4, 6])
            cases.append({"kind": "harvest", "params": p, "imperfect": i % 2 == 1,
                          "metrics": rng.choice([["ENERGY", "LATENCY"], ["ENERGY"], ["LATENCY"]]),
                          "max_templates": 6 if ctx.thorough else 2, "max_points": 1500 if ctx.thorough else 700,
                          "limit": 20.0 if ctx.thorough else 10.0})
    workers = int(os.environ.get("AFV_WORKERS", "4"))
    _t_pool = ctx.elapsed()
    results = ML.pool_map(work, cases, workers=min(workers, 4))
    ctx.cov["timing_s"]["workers"] = round(ctx.elapsed() - _t_pool, 1)

    drift: list = []
    n_minmax = 0
    for case, res in zip(cases, results):
        if case["kind"] == "harvest":
            ctx.dist("harvest-imperfect" if case["imperfect"] else "harvest-perfect", res["templates"])
            ctx.cov["harvested_templates"] = ctx.cov.get("harvested_templates", 0) + res["templates"]
            ctx.cov["harvest_skipped_big"] = ctx.cov.get("harvest_skipped_big", 0) + res["skipped_big"]
            if res["error"]:
                ctx.dist("harvest-error")
                ctx.cov.setdefault("harvest_errors", []).append(res["error"])
            for r in res["formulas"]:
                _report(ctx, r, f"harvest:{r['objective']}:{'imperfect' if case['imperfect'] else 'perfect'}", drift, r.get("symbols"))
            ctx.cov["harvested_formulas"] = ctx.cov.get("harvested_formulas", 0) + len(res["formulas"])
            continue
        if case["kind"] == "minmax":
            for rec in res["pairs"]:
                n_minmax += 1
                ctx.case({"minmax": rec["cls"], "args": rec["args"], "box": rec["box"]},
                         nontrivial=rec["built"] not in rec["args"] or True, branches=["minmax-construct"])
                if rec["bad"]:
                    ctx.fail("minmax:is-connected-wrong-extremum",
                             f"sympy.{rec['cls']}({', '.join(rec['args'])}) built after importing make_tile_shapes is {rec['built']}, "
                             f"whose value differs from the true extremum at {rec['bad']['point']}", rec)
            continue
        ctx.dist(f"stream:{case.get('stream', 'fixed')}")
        _report(ctx, res, case["kind"] + (":" + case.get("stream", "") if case["kind"] == "gen" else ""), drift)
    ctx.cov["minmax_constructions"] = n_minmax

    # ComparisonResult.__or__ : exhaustive
    from harness import cmp9 as C

    M = C.module()
    drv = ctx.driver()
    names = {"GEQ": M.ComparisonResult.ALWAYS_GEQ_THAN_ZERO, "LEQ": M.ComparisonResult.ALWAYS_LEQ_THAN_ZERO,
             "EQ": M.ComparisonResult.ALWAYS_EQUAL_TO_ZERO, "UNKNOWN": M.ComparisonResult.UNKNOWN}
    sample = {"GEQ": [0, 1, 5], "LEQ": [0, -1, -5], "EQ": [0], "UNKNOWN": [-3, 0, 2]}
    for a in names:
        for b in names:
            got = C.CR[(names[a] | names[b]).value]
            want = drv.ask("C09", {"op": "or", "a": a, "b": b})
            ctx.case({"or": [a, b]}, branches=["or"])
            # property level (or_sound): the combined verdict must hold for x + y whenever a holds for x and b for y
            for x in sample[a]:
                for y in sample[b]:
                    v = x + y
                    if (got == "GEQ" and v < 0) or (got == "LEQ" and v > 0) or (got == "EQ" and v != 0):
                        ctx.fail("or:unsound", f"ComparisonResult {a} | {b} = {got} does not hold for {x} + {y}", {"a": a, "b": b, "x": x, "y": y})
            if got != want:
                drift.append({"check": "or", "a": a, "b": b, "real": got, "model": want, "variants": []})
    # which variant of the model (as-is / with the one-line repairs) does the code on this tree match, on EVERY check?
    from harness.cmp9 import CFGS

    alive = [v for v in CFGS if all(v in d["variants"] for d in drift)]
    bad = [d for d in drift if not d["variants"]]
    ctx.cov["model_code_agreements"] = len(drift) - len(bad)
    ctx.cov["model_code_disagreements"] = len(bad)
    ctx.cov["model_variants_matching_the_code"] = alive
    ctx.cov["model_variant"] = alive[0] if alive else None
    if not alive:
        ctx.cov["model_code_disagreement_samples"] = (bad or drift)[:8]
        # model and code differ: by itself not a violation — search harder around the differing formulas
        extra = []
        for d in (bad or drift)[:12]:
            if "f" not in d:
                continue
            n = len(d["box"])
            for j in range(5):
                bx = [[max(1, lo + rng.choice([0, 0, 1, 2])), 0] for lo, _ in d["box"]]
                bx = [[lo, lo + rng.choice([1, 2, 3, 5, 7])] for lo, _ in bx]
                extra.append({"kind": "fixed", "expr": d["f"], "box": bx, "n": n, "expect": None, "known": known})
        for case, res in zip(extra, ML.pool_map(work, extra, workers=min(workers, 4))):
            _report(ctx, res, "search-after-disagreement", [])
        if ctx.n_violations() == 0:
            ctx.broken("no variant of the Lean model of the comparator (as-is, or with the early returns removed / the Heaviside "
                       "replacement wrapped) computes what the code computes under identical sympy answers; no verdict was "
                       "contradicted on the explored inputs", {"disagreements": (bad or drift)[:20]})
    ctx.cov["exhaustive"] = "every integer point of every box; the __or__ table"


def ctx_corpus_dir():
    from harness.core import CORPUS_DIR

    d = CORPUS_DIR / "C09"
    d.mkdir(parents=True, exist_ok=True)
    return d
