"""C20 — mapper results do not depend on scheduling, hashing or caching.

Proof:  AFV/Props/C20.lean (front_perm: the Pareto front as a set of objective vectors is invariant under any permutation of
        the candidate rows; front_of_union_fronts: splitting a group in halves, pruning each and merging gives the same front, so
        the fan-out used when there are fewer groups than workers cannot change it; collect_perm from C32: the parallel runner
        restores job order whatever the completion order).
Tie:    the real mapper is run in fresh interpreters on the same spec with 1 and N workers (real joblib), with seeded permuted
        completion orders injected through a stand-in for joblib.Parallel, with PYTHONHASHSEED ∈ {0,1,12345}, and with a cold then
        warm cache_dir; the returned fronts (objective vectors; mapping structures for rows whose objective vector is unique)
        must coincide.  What the theorems cannot exhibit (OS scheduling, hash randomisation, joblib's cache) is explored, not proved.
"""
from __future__ import annotations

import json
import os
import shutil
import tempfile

from harness.core import Ctx
from harness import mapperlib as ML

ANCHORS = [
    "accelforge.util.parallel:parallel",
    "accelforge.mapper.FFM._join_pmappings.join_pmappings:join_pmappings",
    "accelforge.mapper.FFM.main:make_pmappings",
]


def run(ctx: Ctx):
    ctx.lean_gate()
    ctx.anchors(ANCHORS)
    ctx.cov["rule"] = ("seeded small specs × configurations {1 worker, N workers (real joblib), 3 injected completion-order seeds, "
                       "PYTHONHASHSEED 0/1/12345, cold cache, warm cache}; non-trivial = spec with a front of ≥ 2 points or 2 Einsums")
    ctx.assumptions += [
        "process scheduling, PYTHONHASHSEED and joblib.Memory are runtime behaviour: explored here, not proved",
        "mapping structures are compared only for rows whose objective vector is unique in the front (which of several "
        "equal-cost mappings is kept is tie-dependent by design of first-of-duplicates deduplication)",
    ]
    n_specs = 6 if ctx.thorough else 2
    n_specs = int(os.environ.get("AFV_C20_SPECS", n_specs))
    cache_root = tempfile.mkdtemp(prefix="c20cache-", dir=os.getcwd())
    cfgs, envs, meta = [], [], []
    for s in range(n_specs):
        p = ML.gen_params(ctx.rng, n_einsums=2 if s % 2 == 0 else None, kind="matmuls" if s % 2 == 0 else None)
        mets = ["ENERGY", "LATENCY"]
        base = {"params": p, "metrics": mets, "eval_in_detail": False}
        variants = [("seq", {**base, "n_jobs": 1}, {"PYTHONHASHSEED": "0"}),
                    ("par4", {**base, "n_jobs": 4}, {"PYTHONHASHSEED": "0"})]
        if ctx.thorough:
            variants.append(("par16", {**base, "n_jobs": 16}, {"PYTHONHASHSEED": "0"}))
        for sd in ([1, 2, 3, 4, 5, 6] if ctx.thorough else [1, 2]):
            variants.append((f"sched{sd}", {**base, "n_jobs": 4, "fake_parallel": True, "schedule_seed": ctx.seed * 100 + sd},
                             {"PYTHONHASHSEED": "0"}))
        for hs in (("1", "12345") if ctx.thorough else (str(1 + ctx.seed % 7919),)):
            variants.append((f"hash{hs}", {**base, "n_jobs": 1}, {"PYTHONHASHSEED": hs}))
        cdir = os.path.join(cache_root, f"s{s}")
        variants.append(("cache-cold", {**base, "n_jobs": 1, "cache_dir": cdir}, {"PYTHONHASHSEED": "0"}))
        for name, cfg, env in variants:
            cfgs.append(cfg); envs.append(env); meta.append((s, name, p))
    try:
        results = ML.run_worker_subprocesses(cfgs, envs, concurrency=8)
        # warm cache runs must come after the cold ones finished
        warm_cfgs, warm_meta = [], []
        for (s, name, p), cfg in zip(meta, cfgs):
            if name == "cache-cold":
                warm_cfgs.append(dict(cfg)); warm_meta.append((s, "cache-warm", p))
        warm = ML.run_worker_subprocesses(warm_cfgs, [{"PYTHONHASHSEED": "0"}] * len(warm_cfgs), concurrency=8)
    finally:
        shutil.rmtree(cache_root, ignore_errors=True)
    meta += warm_meta
    results += warm
    drv = ctx.driver()
    by_spec = {}
    for (s, name, p), r in zip(meta, results):
        by_spec.setdefault(s, {"params": p, "runs": {}})["runs"][name] = r
    for s, d in by_spec.items():
        ref = d["runs"]["seq"]
        ref_front = ML.canon_front(ref["rows"])
        uniq = {v for v in ref_front if ref_front.count(v) == 1}
        # Lean oracle: the reference run itself is a front (no dominated / duplicated vector) → set comparison is meaningful
        fr = drv.ask("C20", {"op": "frontOf", "rows": [ML.to_int_vec([e, l]) for (e, l) in ref_front]})
        if isinstance(fr, dict) and "err" in fr:
            raise RuntimeError(f"driver: {fr}")
        for name, r in d["runs"].items():
            ctx.dist(name.rstrip("0123456789"))
            nontrivial = len(ref_front) >= 2 or d["params"]["workload"].get("N_EINSUMS", 1) > 1
            ctx.case({"spec": s, "config": name, "params": d["params"], "front": ref_front[:5]}, nontrivial=nontrivial and name != "seq",
                     branches=[name.rstrip("0123456789")])
            rep = {"params": d["params"], "config": name, "reference_config": "seq", "reference_front": ref_front,
                   "front": ML.canon_front(r["rows"]), "errors": [ref["error"], r["error"]]}
            kind = name.rstrip("0123456789")
            if (ref["error"] is None) != (r["error"] is None):
                ctx.fail(f"outcome-differs:{kind}", "the mapper succeeds under one configuration and fails under another", rep)
                continue
            if ML.canon_front(r["rows"]) != ref_front:
                ctx.fail(f"front-differs:{kind}", "the returned objective vectors depend on the run configuration", rep)
                continue
            # structures of uniquely-valued rows
            def structs(rows):
                out = {}
                for row in rows:
                    v = ML.canon_front([row])[0]
                    if v in uniq:
                        out[v] = json.dumps(row.get("mapping"), sort_keys=True)
                return out
            a, b = structs(ref["rows"]), structs(r["rows"])
            diff = [v for v in a if a[v] != b.get(v)]
            if diff:
                ctx.fail(f"mapping-differs:{kind}", "a uniquely-valued front point carries a different mapping structure under another configuration",
                         {**rep, "points": diff[:3], "ref_mapping": json.loads(a[diff[0]]), "mapping": json.loads(b.get(diff[0], "null"))})
