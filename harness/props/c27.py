"""C27 — recomputing component costs on a costed spec changes nothing.

Proof:  AFV/Props/C27.lean
          fixed model (scale factors applied to the declared values):  costing_idempotent, costing_history_invariant
          current model (/repo today, scale factors applied to the stored, already scaled values):
              costing_idempotent_counterexample, recost_area, recost_leak, area_stable_iff,
              costing_idempotent_partial, costing_history_partial (all scale factors and n_parallel_instances = 1)
Model:  AFV/Model/ArchTree.lean `costFrom`, `costStep`, `runHistory` (Component.calculate_area / _leak_power /
        _action_energy / _action_throughput as driven by Spec.calculate_component_costs).
Tie:    correspondence.  A generated architecture (random tree, integer area / leak / energy / throughput, every scale
        factor, n_parallel_instances, dummy components with missing values) is built as real arch objects (or YAML);
        `Spec.calculate_component_costs` is called along a history of 1-3 calls (first call full, later calls with random
        flags), each call on the spec returned by the previous one; after every call area, leak_power and per-action
        energy / throughput of every component are read and compared with both Lean models run on the same history.
Verdict: the property is the judge: the observation after call k must equal the observation after call 1.  A failing
        history is minimised (nodes, scale factors, calls) and classified by the field that changes and whether the change
        is the re-application of one scale factor.  Known findings: `<field>-scale-reapplied` for the four fields.
"""
from __future__ import annotations

import copy
import json
import math

from harness.core import Ctx, CORPUS_DIR
from harness.props import _archtree as A

ANCHORS = [
    "accelforge.frontend.spec:Spec.calculate_component_costs",
    "accelforge.frontend.arch.components:Component.calculate_area",
    "accelforge.frontend.arch.components:Component.calculate_leak_power",
    "accelforge.frontend.arch.components:Component.calculate_action_energy",
    "accelforge.frontend.arch.components:Component.calculate_action_throughput",
    "accelforge.frontend.arch.components:Component._copy_for_component_modeling",
]
FULL = [True, True, True, True]
FIELDS = ("area", "leak", "energy", "throughput")
SCALES_OF = {
    "area": (("c", "area_scale"), ("c", "n_parallel")),
    "leak": (("c", "leak_scale"), ("c", "n_parallel")),
    "energy": (("c", "energy_scale"), ("a", "energy_scale")),
    "throughput": (("c", "throughput_scale"), ("a", "throughput_scale"), ("c", "n_parallel")),
}


def canon(x):
    """Canonical exact form of an implementation number."""
    if x is None:
        return None
    if isinstance(x, bool):
        raise ValueError(f"unexpected bool {x!r}")
    if isinstance(x, int):
        return x
    if isinstance(x, float):
        if math.isnan(x):
            return "nan"
        if math.isinf(x):
            return "inf" if x > 0 else "-inf"
        if x == int(x):
            return int(x)
    raise ValueError(f"non-integral value {x!r}: generator must keep arithmetic exact")


def observe(spec, tree):
    out = []
    for l in A.leaves(tree):
        if l["kind"] == "Container":
            continue
        n = spec.arch.find(l["name"])
        out.append([l["name"], canon(n.area), canon(n.leak_power),
                    [[a.name, canon(a.energy), canon(a.throughput)] for a in n.actions]])
    return out


def impl_history(tree, history, via="objects"):
    """Run the real code along the history. -> {"obs": [obs after each call], "mutated": k|None} | {"exc":…}"""
    try:
        spec = A.spec_from_yaml(tree) if via == "yaml" else A.build_spec(tree)
        obs, mutated = [], None
        s = spec
        for k, fl in enumerate(history):
            before = observe(s, tree)
            s2 = s.calculate_component_costs(area=fl[0], energy=fl[1], throughput=fl[2], leak=fl[3])
            if observe(s, tree) != before and mutated is None and s2 is not s:
                mutated = k
            obs.append(observe(s2, tree))
            s = s2
        return {"obs": obs, "mutated": mutated}
    except ValueError:
        raise
    except Exception as e:  # noqa: BLE001 - an exception on a valid architecture is an observable outcome
        return {"exc": type(e).__name__, "msg": str(e)[:300]}


def driver_comps(tree):
    out = []
    for l in A.leaves(tree):
        if l["kind"] == "Container":
            continue
        out.append({
            "name": l["name"], "dummy": bool(l["dummy"]), "area": l["area"], "area_scale": l["area_scale"],
            "leak": l["leak"], "leak_scale": l["leak_scale"], "energy_scale": l["energy_scale"],
            "throughput_scale": l["throughput_scale"], "n_parallel": l["n_parallel"],
            "actions": [{"name": a["name"], "energy": a["energy"], "energy_scale": a["energy_scale"],
                         "throughput": a["throughput"], "throughput_scale": a["throughput_scale"]} for a in l["actions"]],
        })
    return out


def changed_fields(obs):
    """Set of (field, component, action|None, call index k>=1) whose value after call k differs from call 0."""
    res = []
    base = obs[0]
    for k in range(1, len(obs)):
        for c0, ck in zip(base, obs[k]):
            if c0[1] != ck[1]:
                res.append(("area", c0[0], None, k))
            if c0[2] != ck[2]:
                res.append(("leak", c0[0], None, k))
            for a0, ak in zip(c0[3], ck[3]):
                if a0[1] != ak[1]:
                    res.append(("energy", c0[0], a0[0], k))
                if a0[2] != ak[2]:
                    res.append(("throughput", c0[0], a0[0], k))
            if [a[0] for a in c0[3]] != [a[0] for a in ck[3]]:
                res.append(("actions", c0[0], None, k))
        if [c[0] for c in base] != [c[0] for c in obs[k]]:
            res.append(("components", None, None, k))
    return res


def unit_scales(tree):
    for l in A.leaves(tree):
        if l["kind"] == "Container":
            continue
        if any(l[k] != 1 for k in ("area_scale", "leak_scale", "energy_scale", "throughput_scale", "n_parallel")):
            return False
        if any(a["energy_scale"] != 1 or a["throughput_scale"] != 1 for a in l["actions"]):
            return False
    return True


def neutralise(tree):
    t = copy.deepcopy(tree)
    for l in A.leaves(t):
        for k in ("area_scale", "leak_scale", "energy_scale", "throughput_scale", "n_parallel"):
            l[k] = 1
        for a in l["actions"]:
            a["energy_scale"] = a["throughput_scale"] = 1
    return t


def case_variants(tree, history):
    """Smaller / simpler (tree, history) pairs."""
    if len(history) > 1:
        for i in range(1, len(history)):
            yield tree, history[:i] + history[i + 1:]
    for i in range(1, len(history)):
        if history[i] != FULL:
            yield tree, history[:i] + [FULL] + history[i + 1:]
    for t in A._variants(tree):
        yield t, history
    ls = A.leaves(tree)
    for i, l in enumerate(ls):
        if l["kind"] == "Container":
            continue
        for k in ("area_scale", "leak_scale", "energy_scale", "throughput_scale", "n_parallel"):
            if l[k] != 1:
                t = copy.deepcopy(tree)
                A.leaves(t)[i][k] = 1
                yield t, history
        for j, a in enumerate(l["actions"]):
            for k in ("energy_scale", "throughput_scale"):
                if a[k] != 1:
                    t = copy.deepcopy(tree)
                    A.leaves(t)[i]["actions"][j][k] = 1
                    yield t, history
            if a["name"] not in A.DEFAULT_ACTIONS.get(l["kind"], ()):
                t = copy.deepcopy(tree)
                del A.leaves(t)[i]["actions"][j]
                yield t, history
        if l["dummy"]:
            t = copy.deepcopy(tree)
            m = A.leaves(t)[i]
            m["dummy"] = False
            m["area"] = 1 if m["area"] is None else m["area"]
            m["leak"] = 1 if m["leak"] is None else m["leak"]
            for a in m["actions"]:
                a["energy"] = 1 if a["energy"] is None else a["energy"]
                a["throughput"] = 1 if a["throughput"] is None else a["throughput"]
            yield t, history


def shrink_case(tree, history, pred, budget=250):
    cur = (copy.deepcopy(tree), [list(h) for h in history])
    steps, progress = 0, True
    while progress and steps < budget:
        progress = False
        for t, h in case_variants(*cur):
            steps += 1
            if steps >= budget:
                break
            t, h = copy.deepcopy(t), [list(x) for x in h]
            try:
                ok = pred(t, h)
            except Exception:  # noqa: BLE001
                ok = False
            if ok:
                cur = (t, h)
                progress = True
                break
    return cur


def _valmul(v, s):
    """Python value of canonical v times integer s."""
    if v is None:
        return None
    f = {"inf": math.inf, "-inf": -math.inf, "nan": math.nan}.get(v, v)
    try:
        return canon(f * s)
    except ValueError:
        return None


def classify(tree, history, obs, ch):
    """Key of a minimised failing history; ch = (field, component, action, k)."""
    field, cname, aname, k = ch
    if field in ("actions", "components"):
        return field + "-changed-on-recompute"
    leaf = next(l for l in A.leaves(tree) if l["name"] == cname)
    act = next((a for a in leaf["actions"] if a["name"] == aname), None)
    c0 = next(c for c in obs[0] if c[0] == cname)
    ck = next(c for c in obs[k] if c[0] == cname)
    if field == "area":
        v0, vk = c0[1], ck[1]
    elif field == "leak":
        v0, vk = c0[2], ck[2]
    else:
        idx = 1 if field == "energy" else 2
        v0 = next(a for a in c0[3] if a[0] == aname)[idx]
        vk = next(a for a in ck[3] if a[0] == aname)[idx]
    nonunit = []
    for where, name in SCALES_OF[field]:
        s = leaf[name] if where == "c" else (act[name] if act else 1)
        if s != 1:
            nonunit.append(s)
    # flags order is [area, energy, throughput, leak]
    flag_idx = {"area": 0, "energy": 1, "throughput": 2, "leak": 3}[field]
    n_recomputed = sum(1 for fl in history[1:k + 1] if fl[flag_idx])
    if len(nonunit) == 1 and n_recomputed >= 1:
        want = v0
        for _ in range(n_recomputed):
            want = _valmul(want, nonunit[0])
        if want is not None and want == vk:
            return f"{field}-scale-reapplied"
    if vk is None:
        return f"{field}-lost-on-recompute"
    return f"{field}-changed-on-recompute"


def run(ctx: Ctx):
    import logging

    logging.disable(logging.WARNING)  # the code warns about negative values; negative scale factors are generated on purpose
    ctx.lean_gate()
    ctx.anchors(ANCHORS)
    ctx.cov["rule"] = (
        "architectures of 1-7 leaves (random trees with Fork / nested Hierarchical) whose components have integer area, leak, "
        "per-action energy and throughput in 0..50, area_scale / leak_power_scale / energy_scale / throughput_scale (component and "
        "action) in {1,2,3,5, rarely 0 and -1}, n_parallel_instances in {1,2,4}, optional extra actions, dummy components with "
        "missing values (area 0, throughput inf); call histories of length 1-3: first call full, later calls full (60%) or a random "
        "subset of area/energy/throughput/leak (incl. none). (W) the Lean witness, (A) hypothesis-directed: exactly one non-unit "
        "scale factor per case, each of the 9 (field, factor) pairs in turn; all factors 1, (B) random. non-trivial = history of "
        "length >= 2 and at least one non-unit scale factor or a dummy"
    )
    ctx.cov["trusted_base"] += [
        "pydantic construction / YAML loading / Spec._spec_eval_expressions keep declared integer values and scale factors as generated",
        "harness/props/_archtree.py: conversion of a generated architecture to real arch objects and to the driver's JSON",
    ]
    ctx.assumptions += [
        "components whose costs would come from an external hwcomponents model (value missing and not a dummy) are outside the model; "
        "only explicit values and component_class 'dummy' are exercised",
        "generated values and scale factors are integers (floats appear only as inf/-inf/nan from a dummy's throughput), so Python "
        "arithmetic is exact and compared exactly (tolerance 0); IEEE rounding of fractional scale factors is not modelled",
        "component names and the action names of one component are distinct",
        "component_modeling_log, total_area / total_leak_power (C26) and component_model are not part of the observation",
        "today's code violates the property (known findings); the theorems proved in full are about the `fixed` model, the `current` "
        "model is proved to violate the property and to satisfy it when every scale factor is 1",
    ]
    ctx.cov["tolerance"] = 0
    drv = ctx.driver()
    rng = ctx.rng
    stats = {"idempotent": 0, "follows_current_model": 0, "follows_fixed_model": 0, "follows_neither": 0}
    by_key: dict[str, int] = {}
    shrunk: dict[str, int] = {}
    seen = set()

    def evaluate(tree, history, via="objects"):
        impl = impl_history(tree, history, via)
        d = drv.ask("C27", {"op": "history", "comps": driver_comps(tree), "history": history})
        if "err" in d or not d["in_scope"]:
            raise RuntimeError(f"generator produced a case the driver rejects: {d}")
        if any(o != d["fixed"][0] for o in d["fixed"]) and history[0] == FULL:
            raise RuntimeError("Lean `fixed` model is not idempotent: contradicts theorem costing_history_invariant")
        probs = []
        if "exc" in impl:
            return impl, d, [("exception", None, None, 0)]
        if impl["mutated"] is not None:
            probs.append(("input-spec-mutated", None, None, impl["mutated"]))
        probs += changed_fields(impl["obs"])
        return impl, d, probs

    def minimise(tree, history, want_field, cond):
        def pick(t, h):
            i2, d2, p2 = evaluate(t, h)
            px = [p for p in p2 if p[0] == want_field]
            if not px or (cond is not None and not cond(t)):
                return None
            return i2, d2, px

        if pick(tree, history) is None:
            return None
        t, h = shrink_case(tree, history, lambda t, h: pick(t, h) is not None)
        return (t, h) + pick(t, h)

    def report(tree, history, via, impl, d, probs, stream):
        done = set()
        if sum(shrunk.values()) >= 40:
            return
        for field in dict.fromkeys(p[0] for p in probs):
            if field in done:
                continue
            done.add(field)
            key0 = f"{field}-scale-reapplied"
            new = None
            if field in FIELDS:
                if impl.get("obs") == d["current"] and shrunk.get(key0, 0) >= 2:
                    # exactly today's-code behaviour (theorems recost_*: the scale factors are applied again); already minimised twice
                    by_key[key0] = by_key.get(key0, 0) + 1
                    continue
                if impl.get("obs") != d["current"]:
                    # does it still fail where the known defect provably cannot show (theorem costing_history_partial)?
                    new = minimise(neutralise(tree), history, field, unit_scales)
            m = new or minimise(tree, history, field, None)
            if m is None:
                continue
            t, h, i2, d2, px = m
            if px[0][0] == "exception":
                key = "exception-" + i2["exc"]
            elif px[0][0] == "input-spec-mutated":
                key = "input-spec-mutated"
            else:
                key = classify(t, h, i2["obs"], px[0])
            shrunk[key] = shrunk.get(key, 0) + 1
            by_key[key] = by_key.get(key, 0) + 1
            sig = (key, A.shape(t), len(h))
            if sig in seen:
                continue
            seen.add(sig)
            ctx.fail(key, f"calculate_component_costs on an already costed spec changed {px[0][0]} of {px[0][1]}"
                          f"{'.' + px[0][2] if px[0][2] else ''} (call {px[0][3] + 1} vs call 1) on {A.shape(t)}",
                     {"tree": t, "history": h, "shape": A.shape(t), "changed": [list(p) for p in px[:6]],
                      "impl_obs": i2.get("obs"), "impl_exc": i2.get("exc"), "model_current": d2["current"], "model_fixed": d2["fixed"],
                      "fails_with_all_scale_factors_1": new is not None, "via": via, "stream": stream,
                      "original_shape": A.shape(tree)})

    def handle(tree, history, via="objects", stream="random"):
        impl, d, probs = evaluate(tree, history, via)
        nontrivial = len(history) >= 2 and (not unit_scales(tree) or any(l["dummy"] for l in A.leaves(tree)))
        br = []
        if len(history) >= 2:
            br.append("recompute")
        if any(h != FULL for h in history[1:]):
            br.append("partial-flags")
        if any(l["dummy"] for l in A.leaves(tree)):
            br.append("dummy")
        if not unit_scales(tree):
            br.append("non-unit-scale")
        ctx.case({"shape": A.shape(tree), "comps": driver_comps(tree), "history": history}, nontrivial=nontrivial, branches=br)
        ctx.dist(f"stream={stream}")
        ctx.dist(f"via={via}")
        ctx.dist(f"calls={len(history)}")
        if "obs" in impl:
            if impl["obs"] == d["current"] and impl["obs"] == d["fixed"]:
                pass
            elif impl["obs"] == d["current"]:
                stats["follows_current_model"] += 1
            elif impl["obs"] == d["fixed"]:
                stats["follows_fixed_model"] += 1
            else:
                stats["follows_neither"] += 1
        if not probs:
            stats["idempotent"] += 1
            return
        report(tree, history, via, impl, d, probs, stream)

    def finish():
        ctx.cov["agreement"] = dict(stats)
        ctx.cov["failing_cases_by_key"] = dict(by_key)
        ctx.cov["model_variant_followed_by_code"] = (
            "current (today's code: violates the property, see known findings)" if stats["follows_current_model"]
            else ("fixed" if not stats["follows_neither"] else "neither")
        )

    # ---------------- replay / corpus / witness
    if ctx.replay:
        body = A.load_replay(ctx.replay)
        handle(body["replay"]["tree"], body["replay"]["history"], "objects", "replay")
        finish()
        return
    cdir = CORPUS_DIR / "C27"
    if cdir.exists():
        for f in sorted(cdir.glob("*.json")):
            b = json.load(open(f))
            handle(b["tree"], b["history"], "objects", "corpus")
    # Lean witness (Props/C27.lean `witness`): Toll Buf, area 100 x2, leak 1, read energy 1 x3, throughput 1, 2 parallel instances
    w = A.mk_leaf("Toll", "Buf", [], 100, 1, area_scale=2, energy_scale=3, n_parallel=2)
    handle([w, A.mk_leaf("Compute", "MAC", [], 1, 1)], [FULL, FULL], "objects", "lean-witness")

    def rand_component(l, scale_choices, allow_dummy=True):
        if l["kind"] == "Container":
            return
        l["area"], l["leak"] = rng.randint(0, 50), rng.randint(0, 50)
        for k in ("area_scale", "leak_scale", "energy_scale", "throughput_scale"):
            l[k] = rng.choice(scale_choices)
        l["n_parallel"] = rng.choice([1, 1, 2, 4]) if scale_choices != (1,) else 1
        if rng.random() < 0.25:
            l["actions"].append({"name": "aux", "energy": 1, "energy_scale": 1, "throughput": 1, "throughput_scale": 1})
        for a in l["actions"]:
            a["energy"], a["throughput"] = rng.randint(0, 50), rng.randint(1, 50)
            a["energy_scale"], a["throughput_scale"] = rng.choice(scale_choices), rng.choice(scale_choices)
        if allow_dummy and rng.random() < 0.15:
            l["dummy"] = True
            if rng.random() < 0.7:
                l["area"] = None
            if rng.random() < 0.7:
                l["leak"] = None
            for a in l["actions"]:
                if rng.random() < 0.7:
                    a["energy"] = None
                if rng.random() < 0.7:
                    a["throughput"] = None

    def rand_history():
        n = rng.choice([1, 2, 2, 3, 3])
        h = [list(FULL)]
        for _ in range(n - 1):
            h.append(list(FULL) if rng.random() < 0.6 else [rng.random() < 0.5 for _ in range(4)])
        return h

    # ---------------- stream A: hypothesis-directed — one non-unit factor / none
    reps = 12 if ctx.thorough else 2
    singles = [(f, w_, n) for f in FIELDS for (w_, n) in SCALES_OF[f]]
    for rep in range(reps):
        for field, where, name in singles:
            tree = A.gen_tree(rng, max_depth=2, max_len=3, p_branch=0.25, fan=(1, 1, 2))
            for l in A.leaves(tree):
                rand_component(l, (1,), allow_dummy=False)
            comps = [l for l in A.leaves(tree) if l["kind"] != "Container"]
            c = rng.choice(comps)
            s = rng.choice([2, 3, 5])
            if where == "c":
                c[name] = s
            else:
                rng.choice(c["actions"])[name] = s
            handle(tree, [list(FULL), list(FULL)] + ([list(FULL)] if rep % 2 else []), "objects", f"directed:{field}:{name}")
        tree = A.gen_tree(rng, max_depth=2, max_len=4, p_branch=0.25)
        for l in A.leaves(tree):
            rand_component(l, (1,), allow_dummy=True)
        handle(tree, rand_history(), "objects", "directed:unit-scales")

    # ---------------- stream B: random
    n_rand = 6000 if ctx.thorough else 350
    for i in range(n_rand):
        tree = A.gen_tree(rng, max_depth=rng.choice([1, 2, 3]), max_len=rng.choice([1, 2, 3, 4]), p_branch=0.25,
                          fan=(1, 1, 1, 2, 3))
        sc = rng.choice([(1, 1, 1, 2), (1, 1, 2, 3, 5), (1, 2, 3, 5, 0, -1), (1, 1, 1, 1, 1, 1, 3)])
        for l in A.leaves(tree):
            rand_component(l, sc)
        handle(tree, rand_history(), "yaml" if rng.random() < 0.1 else "objects", "random")
    finish()
