"""C05 — model action counts, energy and latency match explicit LoopTree execution.

Proof:  AFV/Props/C05.lean          analytic = exec on every well-formed mapping (see the file for what is proved)
Model:  AFV/Model/Nest.lean         `analytic`: model of insert_reservation_nodes / analyze_* / repeat_temporal /
                                    gather_actions / compute_energy_from_actions / component_latency / run_model
Spec:   AFV/Spec/NestExec.lean      `exec`: reference execution (iterates every loop, history-defined skipping)
Tie:    numeric correspondence through `evaluate_mapping` of the CURRENT tree: every generated single-Einsum mapping is
        rendered as YAML (arch + workload + mapping), loaded with Spec.from_yaml, evaluated; what run_model returned
        (exact Python numbers) and the final Mappings row are compared with BOTH Lean `analytic` and Lean `exec`.

Verdict: implementation ≠ exec on a well-formed mapping (counts / compute count / energy / latency)  → VIOLATION with
         the shrunk mapping as replay.  implementation ≠ analytic but = exec only means the model drifted in a part
         the property does not observe; it is reported as a broken correspondence (no failing input).
"""
from __future__ import annotations

import copy
import json

from harness import nestlib as N
from harness.core import Ctx, CORPUS_DIR

ANCHORS = [
    "accelforge.model._looptree.reuse.symbolic._symbolic:analyze_reuse_and_add_reservations_to_mapping",
    "accelforge.model._looptree.reuse.symbolic._symbolic:insert_reservation_nodes",
    "accelforge.model._looptree.reuse.symbolic._symbolic:ReservationAnalysisTracker",
    "accelforge.model._looptree.reuse.symbolic._symbolic:analyze_temporal",
    "accelforge.model._looptree.reuse.symbolic._symbolic:analyze_storage",
    "accelforge.model._looptree.reuse.symbolic._symbolic:analyze_toll",
    "accelforge.model._looptree.reuse.symbolic._symbolic:analyze_reservation",
    "accelforge.model._looptree.reuse.symbolic._symbolic:analyze_compute",
    "accelforge.model._looptree.reuse.symbolic._stats:BuffetStats.repeat_temporal",
    "accelforge.model._looptree.reuse.symbolic._stats:BuffetStats.__add__",
    "accelforge.model._looptree.reuse.symbolic._stats:ComputeStats",
    "accelforge.model._looptree.reuse.symbolic._common:loop_stride_and_shape",
    "accelforge.model._looptree.reuse.symbolic._common:get_stride_and_tile_shape",
    "accelforge.model._looptree.energy:gather_actions",
    "accelforge.model._looptree.energy:compute_energy_from_actions",
    "accelforge.model._looptree.latency.memory:component_latency",
    "accelforge.model.run_model:run_model",
    "accelforge.frontend.arch.components:TensorHolder._get_values_per_action",
    "accelforge.frontend.mapping.mapping:Nested._get_single_tensor_mapping",
    "accelforge.model.main:evaluate_mapping",
]

TOL_INEXACT = 1e-9   # run_model's float64 arithmetic when a scale factor is not a power of two
TOL_FINAL = 2e-6     # final Mappings table: some columns are stored as float32


# ------------------------------------------------------------------------------------------------ one case

class Outcome:
    def __init__(self):
        self.kind = "ok"          # ok | fail | drift | skip
        self.key = None
        self.what = None
        self.detail = None


def classify(diffs, case):
    """Key of a failing case from the first differing column."""
    col = diffs[0][0]
    parts = col.split(N.SEP)
    if parts[0] == "action" and len(parts) == 4:
        lvl, ten, act = parts[1], parts[2], parts[3]
        if lvl == N.COMPUTE:
            return "compute-count"
        li = int(lvl[1:])
        ti = int(ten[1:])
        kind = "toll" if case["arch"]["levels"][li]["toll"] else "memory"
        role = "output" if case["workload"]["tensors"][ti]["out"] else "input"
        first = next(n[1] for n in case["mapping"] if n[0] in ("S", "T") and ti in n[2])
        pos = "backing" if first == li else "inner"
        return f"count-{act}-{role}-{kind}-{pos}"
    if parts[0] == "latency" or col == f"Total{N.SEP}latency":
        return "latency"
    if parts[0] == "energy" or col.startswith(f"Total{N.SEP}"):
        return "energy-" + parts[-1]
    return "other-" + parts[0]


def evaluate(ctx, drv, case):
    """Run implementation, analytic and exec on one case; return Outcome."""
    o = Outcome()
    rep = drv.ask("C05", N.driver_req(case))
    if "err" in rep:
        raise RuntimeError(f"driver rejected a generated case: {rep}")
    if not rep["wf"]:
        o.kind = "skip"
        return o, rep, None
    run = N.run_impl(case)
    an, ex = rep["analytic"], rep["exec"]
    exact = N.case_is_exact(case)
    tol = 0.0 if exact else TOL_INEXACT
    over = rep["oversubscribed"]
    if run.error is not None:
        if run.error[0] == "InvalidMappingError" and over:
            return o, rep, run  # rejected as it must be (C06 oversubscription) — nothing more to compare
        o.kind, o.key = "fail", "impl-exception-" + run.error[0]
        o.what = f"evaluate_mapping raised {run.error[0]} on a well-formed mapping: {run.error[1][:200]}"
        o.detail = {"error": run.error}
        return o, rep, run
    if over:
        o.kind, o.key = "fail", "oversubscription-accepted"
        o.what = "a mapping whose reservations exceed a memory's size was accepted"
        o.detail = {"memBits": an["memBits"]}
        return o, rep, run
    if an is None:
        raise RuntimeError("Lean analytic returned none on a WF case")
    # Lean-internal consistency: the theorem says analytic = exec on WF mappings
    d_ae = N.compare_exec(an, ex)
    if d_ae:
        raise RuntimeError(f"Lean analytic and Lean exec disagree on a WF case (contradicts the theorem): {d_ae[:3]} {json.dumps(case)}")
    d_ie = N.compare_impl_exec(run.df, ex, tol)
    if d_ie:
        o.kind, o.key = "fail", classify(d_ie, case)
        o.what = f"evaluate_mapping differs from the loop-nest execution in {d_ie[0][0]}: impl {d_ie[0][1]} vs exec {d_ie[0][2]}"
        o.detail = {"diffs": d_ie[:12], "exact_arithmetic": exact}
        return o, rep, run
    d_fin = [d for d in N.compare_final(run.final, an, case, TOL_FINAL)
             if not d[0].split(N.SEP)[1:2] == ["usage"] and not d[0].startswith("reservation")]
    if d_fin:
        o.kind, o.key = "fail", "final-table-" + classify(d_fin, case)
        o.what = f"the Mappings row returned by evaluate_mapping differs from the execution in {d_fin[0][0]}: {d_fin[0][1]} vs {d_fin[0][2]}"
        o.detail = {"diffs": d_fin[:12]}
        return o, rep, run
    d_ia = [d for d in N.compare_df(run.df, run.per_memory_usage, an, case, tol)
            if d[0].split(N.SEP)[0] not in ("usage", "reservation")]
    if d_ia:
        o.kind = "drift"
        o.detail = {"diffs": d_ia[:12]}
    return o, rep, run


# ------------------------------------------------------------------------------------------------ shrinking

def _valid(case):
    """Cheap structural validity (tiles divide, last tile 1, every tensor backed at level 0 first)."""
    shape = list(case["workload"]["bounds"])
    for n in case["mapping"]:
        if n[0] == "L":
            if n[2] < 1 or shape[n[1]] % n[2]:
                return False
            shape[n[1]] = n[2]
    return all(s == 1 for s in shape)


def shrink_candidates(case):
    wl, arch, mp = case["workload"], case["arch"], case["mapping"]
    # simplify parameters
    if N.q2frac(wl["ninst"]) != 1:
        c = copy.deepcopy(case); c["workload"]["ninst"] = 1; yield c
    for i, lv in enumerate(arch["levels"]):
        for fld, dv in (("bpv", []), ("vpa", []), ("bpa", None), ("ascale", 1), ("leak", 0), ("skip", True)):
            if lv[fld] != dv:
                c = copy.deepcopy(case); c["arch"]["levels"][i][fld] = dv; yield c
        for a in ("read", "write"):
            for fld, dv in (("bpa", None), ("vpa", []), ("e", 1), ("thr", 1)):
                if lv[a][fld] != dv:
                    c = copy.deepcopy(case); c["arch"]["levels"][i][a][fld] = dv; yield c
    for fld, dv in (("e", 1), ("thr", 1), ("leak", 0), ("ascale", 1), ("skip", True)):
        if arch["compute"][fld] != dv:
            c = copy.deepcopy(case); c["arch"]["compute"][fld] = dv; yield c
    for t, ts in enumerate(wl["tensors"]):
        if ts["bpv"] != 1:
            c = copy.deepcopy(case); c["workload"]["tensors"][t]["bpv"] = 1; yield c
    # remove a non-backing holder occurrence / a tensor from a holder
    seen = set()
    for i, n in enumerate(mp):
        if n[0] in ("S", "T"):
            for t in n[2]:
                if t in seen:
                    c = copy.deepcopy(case)
                    c["mapping"][i][2].remove(t)
                    if not c["mapping"][i][2]:
                        del c["mapping"][i]
                    yield c
                seen.add(t)
            if len(n[2]) > 1:
                # split a multi-tensor holder
                c = copy.deepcopy(case)
                c["mapping"][i:i + 1] = [[n[0], n[1], [t], n[3]] for t in n[2]]
                yield c
    # remove a loop (re-fixing the chain: the next loop on the same rank variable keeps its tile)
    for i, n in enumerate(mp):
        if n[0] == "L":
            c = copy.deepcopy(case)
            del c["mapping"][i]
            if _valid(c):
                yield c
    # halve / reduce a bound, adapting tiles
    for rv, b in enumerate(wl["bounds"]):
        for nb in sorted({d for d in N.DIVS[b] if d < b}, reverse=True):
            c = copy.deepcopy(case)
            c["workload"]["bounds"][rv] = nb
            cur = nb
            for n in c["mapping"]:
                if n[0] == "L" and n[1] == rv:
                    n[2] = max(d for d in N.DIVS[cur] if d <= n[2])
                    cur = n[2]
            if _valid(c):
                yield c
                break


def shrink(ctx, drv, case, key, budget=150):
    best = case
    progress = True
    while progress and budget > 0:
        progress = False
        for cand in shrink_candidates(best):
            budget -= 1
            if budget <= 0:
                break
            try:
                o, _, _ = evaluate(ctx, drv, cand)
            except Exception:
                continue
            if o.kind == "fail" and o.key == key:
                best = cand
                progress = True
                break
    return best


# ------------------------------------------------------------------------------------------------ directed generators

def directed_cases(rng, n):
    """Hypothesis-directed stream: output tensors refetched below irrelevant loops with every combination of the
    skip flags; Tolls between memories in each direction; every precedence combination of bits/values per action."""
    out = []
    while len(out) < n:
        kind = rng.choice(["skipflags", "toll", "precedence", "deep", "order"])
        if kind == "skipflags":
            c = N.gen_case(rng, exact=True, einsum=rng.choice(["matmul", "reduce1", "matvec", "dot", "batched"]),
                           toll_prob=0.15, n_levels=3, style="deep")
            for lv in c["arch"]["levels"]:
                lv["skip"] = rng.random() < 0.5
            c["arch"]["compute"]["skip"] = rng.random() < 0.5
        elif kind == "toll":
            c = N.gen_case(rng, exact=True, toll_prob=0.0, n_levels=3, style="deep")
            # make the middle level a Toll
            ntens = len(c["workload"]["tensors"])
            arch = c["arch"]
            arch["levels"][1] = N.gen_level(rng, ntens, True, True)
            c["mapping"] = N.gen_mapping(rng, c["workload"], arch, style="deep")
        elif kind == "precedence":
            c = N.gen_case(rng, exact=rng.random() < 0.6, n_levels=2, style="hier")
            ntens = len(c["workload"]["tensors"])
            for lv in c["arch"]["levels"]:
                lv["bpa"] = rng.choice([None, 4, 16])
                lv["bpv"] = [[t, rng.choice([2, 4, 16])] for t in range(ntens) if rng.random() < 0.5]
                lv["vpa"] = [[t, rng.choice([1, 2, 4])] for t in range(ntens) if rng.random() < 0.4]
                for a in ("read", "write"):
                    lv[a]["bpa"] = rng.choice([None, 8, 32])
                    lv[a]["vpa"] = [[t, rng.choice([1, 2, [1, 2]])] for t in range(ntens) if rng.random() < 0.3]
        elif kind == "deep":
            c = N.gen_case(rng, exact=True, n_levels=4, style="deep", toll_prob=0.3)
        else:
            c = N.gen_case(rng, exact=True, n_levels=3, style="free", toll_prob=0.2)
        out.append(c)
    return out


def small_exhaustive(rng, limit):
    """Every interleaving of one inner holder per tensor with one loop per rank variable, for 2-rank-variable Einsums
    with bounds 2 (all node orders of the small family), flags varied by the seed."""
    import itertools

    cases = []
    for ename in ("matvec", "outer", "reduce1", "broadcast"):
        nrv, tens = N.EINSUMS[ename]
        ntens = len(tens)
        items = [("H", t) for t in range(ntens)] + [("L", rv) for rv in range(nrv)]
        for perm in itertools.permutations(items):
            wl = {"bounds": [2] * nrv, "tensors": [{"rvs": list(r), "out": o, "bpv": 8} for r, o in tens], "ninst": 1}
            arch = N.gen_arch(rng, ntens, True, n_levels=2, toll_prob=0.0)
            mp = [["S", 0, list(range(ntens)), True]]
            for it in perm:
                mp.append(["S", 1, [it[1]], True] if it[0] == "H" else ["L", it[1], 1])
            mp.append(["C"])
            cases.append({"einsum": ename, "arch": arch, "workload": wl, "mapping": mp})
    rng.shuffle(cases)
    return cases[:limit], len(cases)


# ------------------------------------------------------------------------------------------------ run

def run(ctx: Ctx):
    ctx.lean_gate()
    ctx.anchors(ANCHORS)
    ctx.cov["rule"] = (
        "single-Einsum mappings (12 Einsum shapes: matmul, transposed, matvec, outer, elementwise, reductions, broadcast, "
        "batched, 3 inputs, scalar output, …), bounds from {1,2,3,4,6,8,12}, 0-3 loops per rank variable incl. one-iteration "
        "loops, 2-4 holder levels (Memory / Toll with per-tensor direction), per tensor any subset of levels in any order, "
        "holders below loops, back to back, merged into multi-tensor nodes; bits_per_value / bits_per_action / "
        "values_per_action at component and action level, skip_initial_output_write per level and on the compute, "
        "actions_scale, leak, n_instances, rational energies / throughputs. Streams: random, hypothesis-directed "
        "(skip flags, Tolls, precedence, deep, order), exhaustive small family, oversubscription. "
        "non-trivial = at least one non-backing holder and one loop with more than one iteration"
    )
    ctx.cov["tolerance"] = {
        "run_model df, all scale factors powers of two": 0.0,
        "run_model df, otherwise (float64 rounding of 1/values_per_action etc.)": TOL_INEXACT,
        "final Mappings table (float32 columns)": TOL_FINAL,
    }
    ctx.cov["trusted_base"] += [
        "harness/nestlib.py: rendering of a case as accelforge YAML and the mapping of df column names to model fields",
        "pydantic / ruamel YAML loading, sympy number arithmetic inside run_model (exercised, not proved)",
    ]
    ctx.assumptions += [
        "fragment: one Einsum (not a copy), temporal loops only, perfectly factorising tile shapes, one rank variable per "
        "tensor rank, default total_latency expression, no power gating, finite sizes and throughputs",
        "per-unit statistics (used by the code for latency) coincide with totals without spatial loops; the model keeps one set",
    ]
    drv = ctx.driver()
    rng = ctx.rng
    drift = []
    reported = {}   # key -> number of failing cases (only the first of each key is shrunk and reported)

    def handle(case, stream):
        o, rep, run = evaluate(ctx, drv, case)
        if o.kind == "skip":
            ctx.dist("not-wf-skipped")
            return
        feats = N.case_features(case)
        nontrivial = "non-backing-holder" in feats and any(
            n[0] == "L" for n in case["mapping"])
        ctx.case({"einsum": case.get("einsum"), "bounds": case["workload"]["bounds"], "mapping": case["mapping"],
                  "arch": case["arch"]}, nontrivial=nontrivial, branches=feats)
        ctx.dist(stream)
        ctx.dist("einsum=" + str(case.get("einsum")))
        if o.kind == "fail":
            reported[o.key] = reported.get(o.key, 0) + 1
            ctx.cov["failing_cases_by_key"] = dict(reported)
            if reported[o.key] > 1 or len(reported) > 6:
                return
            small = shrink(ctx, drv, case, o.key)
            o2, rep2, run2 = evaluate(ctx, drv, small)
            if o2.kind != "fail":
                small, o2, rep2, run2 = case, o, rep, run
            ctx.fail(o2.key, o2.what, {
                "case": small, "yaml": N.case_to_yaml(small), "detail": o2.detail,
                "lean_exec": rep2["exec"], "lean_analytic": rep2["analytic"],
                "impl_df": {k: str(v) for k, v in (run2.df or {}).items()} if run2 else None,
                "original_case": case if small is not case else None,
            })
        elif o.kind == "drift":
            drift.append((case, o.detail))

    # corpus first
    cdir = CORPUS_DIR / "C05"
    if cdir.exists():
        for f in sorted(cdir.glob("*.json")):
            handle(json.loads(f.read_text())["case"], "corpus")
    if ctx.replay:
        body = json.loads(open(ctx.replay).read())
        handle(body["replay"]["case"], "replay")
        return

    n_random = 3000 if ctx.thorough else 300
    n_directed = 1500 if ctx.thorough else 150
    n_small = 2500 if ctx.thorough else 100
    n_over = 150 if ctx.thorough else 30

    for _ in range(n_random):
        handle(N.gen_case(rng), "random")
    for c in directed_cases(rng, n_directed):
        handle(c, "directed")
    small, total_small = small_exhaustive(rng, n_small)
    ctx.cov["small_family"] = {"total": total_small, "run": len(small)}
    if len(small) == total_small:
        ctx.cov["exhaustive"] = True
    for c in small:
        handle(c, "small-family")
    # oversubscription: shrink memory sizes to around the needed bits
    for _ in range(n_over):
        c = N.gen_case(rng, exact=True, toll_prob=0.1)
        rep = drv.ask("C05", N.driver_req(c))
        if rep.get("analytic"):
            bits = {l: N.q2frac(b) for l, b in rep["analytic"]["memBits"]}
            for l, b in bits.items():
                p = 1
                while p < b:
                    p *= 2
                c["arch"]["levels"][l]["size"] = rng.choice([p, p, max(1, p // 2), max(1, p // 4), 2 * p])
        handle(c, "oversubscription")

    if drift and ctx.n_violations() == 0:
        case, detail = drift[0]
        ctx.broken(
            "the Lean model `analytic` no longer reproduces run_model (while run_model still agrees with the reference "
            f"execution on the C05 observables) on {len(drift)} case(s)",
            {"case": case, "yaml": N.case_to_yaml(case), "detail": detail},
        )
