"""C11 — the Pareto filter keeps exactly the non-dominated rows.

Proof:   AFV/Props/C11.lean   fastParetoMask_exact : H-cast ∧ H-sweep ∧ H-key → fastParetoMask = paretoMaskSpec
         (+ bnl_exact, blocks_eq_bnl, sumKey_topo, sweep2D_exact, path1D_exact, group_exact, eff_columns_exact,
          front_perm, front_of_union_fronts, and one decide-checked witness per hypothesis)
Model:   AFV/Model/Pareto.lean, AFV/Model/ParetoBase.lean    (hand model of fast_pareto_mask / _sfs_bnl_core)
Spec:    AFV/Spec/Pareto.lean  (all-pairs dominance on the exact values), AFV/Spec/ParetoHyp.lean (H-*)
Tie:     correspondence on masks.  The real `fast_pareto_mask` (and `makepareto_numpy`) is run on generated
         matrices; the matrix is sent to the Lean driver as exact scaled integers (+ numpy's own float32 cast of
         it, which the driver compares with the model's rounding).  The JUDGE is the Lean spec evaluated on the
         exact values.  The model's mask and the truth value of each hypothesis are used to *explain* a
         failing case (classifier key), never to excuse it.
"""
from __future__ import annotations

import hashlib
import json
import math
import os
import time

import numpy as np

from harness.core import CORPUS_DIR, VERIF, Ctx, HarnessError
from harness.props.pareto_common import encode_at, encode_matrix, fixed_findings, repairs_for

FIXED = fixed_findings("C11")

ANCHORS = [
    "accelforge.mapper.FFM._pareto_df.fast_pareto:fast_pareto_mask",
    "accelforge.mapper.FFM._pareto_df.fast_pareto:_sfs_bnl_core",
    "accelforge.mapper.FFM._pareto_df.fast_pareto:_encode_groups",
    "accelforge.mapper.FFM._pareto_df.fast_pareto:prime_factor_counts",
    "accelforge.mapper.FFM._pareto_df.fast_pareto:_dedup_mask",
    "accelforge.mapper.FFM._pareto_df.fast_pareto:_is_constant",
    "accelforge.mapper.FFM._pareto_df.fast_pareto:_counting_sort",
    "accelforge.mapper.FFM._pareto_df.pareto:makepareto_numpy",
]

GOALS = ["min", "max", "diff", "min_per_prime_factor", "max_per_prime_factor"]
INF = float("inf")
PPF_VALUES = [1, 2, 3, 4, 5, 6, 7, 8, 9, 10, 12, 16, 18, 27, 30, 36, 49, 60, 64, 97, 210]

# classifier keys of the defects of the unchanged tree (see known_findings.jsonl)
K_CAST = "float32-cast-collision"
K_SUM = "sum-key-not-strict"
K_SWEEP = "sweep2d-sentinel-hides-inf"
K_NEG = "numpy-inplace-negative-strided"
K_NEGZERO = "negzero-diff-bitpattern"
K_NP_EMPTY = "makepareto_numpy-empty-table-raises"


def _replay_path(p):
    from pathlib import Path

    q = Path(p)
    return q if q.is_absolute() else VERIF / q


# --------------------------------------------------------------------------- implementation side
class Impl:
    def __init__(self):
        import importlib

        self.fp = importlib.import_module("accelforge.mapper.FFM._pareto_df.fast_pareto")
        self.pareto = importlib.import_module("accelforge.mapper.FFM._pareto_df.pareto")
        self.fp.warmup()

    def mask(self, arr, goals):
        try:
            with np.errstate(all="ignore"):
                m = self.fp.fast_pareto_mask(arr, list(goals))
            return [bool(x) for x in m]
        except Exception as e:  # observable outcome
            return "EXC:" + type(e).__name__

    def mask_numpy(self, arr, goals):
        try:
            with np.errstate(all="ignore"):
                m = self.pareto.makepareto_numpy(arr, list(goals))
            return [bool(x) for x in m]
        except Exception as e:
            return "EXC:" + type(e).__name__


def neg_bug_active(arr, goals) -> bool:
    """Does numpy's in-place strided negative (as used by the `all_simple and not all_min` branch) return
    wrong values on this input?  Recomputes eff_data the way the code does and compares with exact negation."""
    if any("prime" in g for g in goals) or "max" not in goals:
        return False
    a = np.asarray(arr)
    if a.shape[0] <= 1:
        return False
    eff = [(i, g) for i, g in enumerate(goals) if g in ("min", "max") and not (a[:, i] == a[0, i]).all()]
    if not eff or all(g == "min" for _, g in eff):
        return False
    with np.errstate(all="ignore"):
        e = np.take(a, np.array([i for i, _ in eff], dtype=np.intp), axis=1)
        eff_dt = np.float64 if (K_CAST in FIXED and a.dtype != np.float32) else np.float32
        e = e.astype(eff_dt) if e.dtype != eff_dt else e.copy()
        good = e.copy()
        for j, (_, g) in enumerate(eff):
            if g == "max":
                np.negative(e[:, j], out=e[:, j])
                good[:, j] = -good[:, j]
    return not np.array_equal(e, good)


def rank_transform(arr, goals):
    """order-isomorphic re-encoding: every min/max/diff column by its dense ranks (-inf below, +inf above all
    finite values), per-prime-factor columns unchanged; float32.  The specification's mask is invariant under it."""
    a = np.asarray(arr)
    if a.size == 0:
        return None
    b = np.zeros(a.shape, dtype=np.float32)
    for j, g in enumerate(goals):
        col = [float(v) for v in a[:, j]]
        if "prime" in g:
            b[:, j] = col
            continue
        fin = sorted(set(v for v in col if math.isfinite(v)))
        rank = {v: float(k) for k, v in enumerate(fin)}
        b[:, j] = [rank[v] if math.isfinite(v) else (-1.0 if v < 0 else float(len(fin))) for v in col]
    return b


def has_negzero(arr) -> bool:
    a = np.asarray(arr)
    return a.dtype.kind == "f" and bool((np.signbit(a) & (a == 0)).any())


# --------------------------------------------------------------------------- lean side
def lean_request(arr, goals, distinct=True):
    S, rows = encode_matrix(arr)
    with np.errstate(all="ignore"):
        c32 = np.asarray(arr).astype(np.float32).astype(np.float64)
    cast = encode_at(c32, S) if np.asarray(arr).size else [[] for _ in rows]
    return {"op": "mask", "scale": S, "goals": list(goals), "data": rows, "cast": cast, "distinct": distinct,
            "repairs": repairs_for(np.asarray(arr).dtype, FIXED)}


def canon(arr, goals, extra=None):
    a = np.asarray(arr)
    d = {"dtype": str(a.dtype), "goals": list(goals), "shape": list(a.shape)}
    if a.size <= 40:
        d["data"] = [[repr(float(v)) for v in row] for row in a]
    else:
        d["sha1"] = hashlib.sha1(a.tobytes()).hexdigest()
    if extra:
        d.update(extra)
    return d


def replay_payload(arr, goals, impl, rep, extra=None):
    a = np.asarray(arr)
    d = {
        "dtype": str(a.dtype),
        "goals": list(goals),
        "data": [[repr(float(v)) for v in row] for row in a],
        "data_hex": [[float(v).hex() for v in row] for row in a],
        "impl_mask": impl,
        "spec_mask": rep.get("spec") if rep else None,
        "model_mask": rep.get("model") if rep else None,
        "hypotheses": rep.get("H") if rep else None,
        "branches": rep.get("branches") if rep else None,
    }
    if extra:
        d.update(extra)
    return d


def arr_from_payload(p):
    a = np.array([[float.fromhex(v) for v in row] for row in p["data_hex"]], dtype=np.dtype(p["dtype"]))
    if a.ndim == 1:
        a = a.reshape(len(p["data_hex"]), 0)
    return a, list(p["goals"])


# --------------------------------------------------------------------------- generators
def _col_values(rng, g, n, style, dt):
    if "prime" in g:
        pool = rng.sample(PPF_VALUES, rng.randint(1, 6))
        return [float(rng.choice(pool)) for _ in range(n)]
    if g == "diff":
        pool = rng.choice([[0.0, 1.0], [0.0, 1.0, 2.0], [5.0], [0.5, 0.25, 1e8]])
        return [rng.choice(pool) for _ in range(n)]
    if style == "small":
        k = rng.randint(1, 4)
        return [float(rng.randint(0, k)) for _ in range(n)]
    if style == "mixed":
        pool = [10.0 ** rng.uniform(-30, 30) * rng.choice([1, 1, 1, -1]) for _ in range(rng.randint(1, 6))]
        pool += [1e-30, 1e30, 0.0, 1.0]
        return [rng.choice(pool) if rng.random() < 0.7 else 10.0 ** rng.uniform(-30, 30) for _ in range(n)]
    if style == "ties":
        pool = rng.choice([[0.0, 1.0, 2.0, 1e8, 1e8 + 8], [2.0**27, 2.0**27 + 16, 1.0, 2.0, 3.0], [7.0, 7.0, 7.5]])
        return [rng.choice(pool) for _ in range(n)]
    if style == "inf":
        pool = [0.0, 1.0, 2.0, INF, INF, -INF] if rng.random() < 0.5 else [0.0, 1.0, 2.0, 3.0, INF]
        return [rng.choice(pool) for _ in range(n)]
    if style == "float":
        return [rng.random() * 10 for _ in range(n)]
    if style == "const":
        v = rng.choice([0.0, 3.5, INF, 1e30])
        return [v] * n
    raise AssertionError(style)


def gen_random(rng, nmax, mmax, styles, goal_w=None):
    n = rng.choice([0, 1, 2, 2, 3, 3, 4, 5]) if nmax <= 6 else rng.randint(0, nmax)
    m = rng.randint(1, mmax)
    dt = rng.choice([np.float32, np.float64])
    goal_w = goal_w or ["min", "min", "min", "max", "diff", "min_per_prime_factor", "max_per_prime_factor"]
    goals = [rng.choice(goal_w) for _ in range(m)]
    base = rng.choice(styles)
    cols = []
    for g in goals:
        st = base if rng.random() < 0.8 else rng.choice(styles + ["const"])
        cols.append(_col_values(rng, g, n, st, dt))
    a = np.array(cols, dtype=np.float64).T.reshape(n, m).astype(dt) if n else np.zeros((0, m), dtype=dt)
    return a, goals


def gen_dups(rng, nmax, mmax):
    """few distinct rows, many exact duplicates, some constant columns."""
    a, goals = gen_random(rng, 6, mmax, ["small", "ties", "inf"])
    if a.shape[0] == 0:
        return a, goals
    n = rng.randint(2, nmax)
    idx = [rng.randrange(a.shape[0]) for _ in range(n)]
    return a[idx], goals


def gen_eqsum(rng, nmax, mmax):
    """rows that are permutations of one multiset (all row sums equal) plus dominated variants."""
    m = rng.randint(3, mmax)
    dt = rng.choice([np.float32, np.float64])
    base = [float(rng.randint(0, 5)) for _ in range(m)]
    rows = []
    for _ in range(rng.randint(2, nmax)):
        r = base[:]
        rng.shuffle(r)
        if rng.random() < 0.3:
            k = rng.randrange(m)
            r[k] += rng.choice([1.0, -1.0])
            k2 = rng.randrange(m)
            r[k2] += rng.choice([0.0, 1.0, -1.0])
        rows.append(r)
    goals = [rng.choice(["min", "min", "min", "max"]) for _ in range(m)]
    return np.array(rows, dtype=dt), goals


# ---- hypothesis-directed generators (one per hypothesis of fastParetoMask_exact, aimed at its complement)
def gen_anti_cast(rng):
    """¬H-cast: float64 / int64 values that collide in float32."""
    n, m = rng.randint(2, 8), rng.randint(1, 4)
    goals = [rng.choice(["min", "min", "max"]) for _ in range(m)]
    if rng.random() < 0.2:
        a = np.array([[2**24 + rng.randint(0, 3) for _ in range(m)] for _ in range(n)], dtype=np.int64)
        return a, goals
    base = [rng.choice([1.0, 3.0, 1e8, 0.1, 1e-20]) for _ in range(m)]
    a = np.array(
        [[base[c] * (1 + rng.choice([0, 0, 1, 2]) * 2.0 ** rng.choice([-40, -30, -52])) for c in range(m)] for _ in range(n)],
        dtype=np.float64,
    )
    return a, goals


def gen_anti_key(rng):
    """¬H-key: dominating pairs with equal float32 row sums (absorption by a big / infinite entry),
    at least three varying columns so that the general path is taken."""
    m = rng.randint(3, 6)
    n = rng.randint(3, 24)
    dt = rng.choice([np.float32, np.float64])
    big = rng.choice([1e8, 2.0**30, 1e30, INF, 3e38])
    goals = ["min"] * m
    rows = []
    for _ in range(n):
        r = [float(rng.randint(0, 6)) for _ in range(m)]
        if rng.random() < 0.7:
            r[rng.randrange(m) if rng.random() < 0.3 else 0] = big
        rows.append(r)
    if rng.random() < 0.3:
        k = rng.randrange(m)
        goals[k] = "max"
    return np.array(rows, dtype=dt), goals


def gen_anti_sweep(rng):
    """¬H-sweep: exactly two varying columns and +inf (after orientation) in the second one."""
    n = rng.randint(2, 10)
    dt = rng.choice([np.float32, np.float64])
    extra = rng.randint(0, 2)
    goals = [rng.choice(["min", "min", "max"]) for _ in range(2)]
    rows = []
    for _ in range(n):
        a = float(rng.randint(0, 3))
        b = rng.choice([0.0, 1.0, 2.0, INF, INF, -INF])
        rows.append([a, b])
    a = np.array(rows, dtype=dt)
    if extra:  # constant / diff columns around
        cst = np.full((n, extra), 7.0, dtype=dt)
        a = np.concatenate([cst, a], axis=1)
        goals = ["min"] * extra + goals
    return a, goals


def gen_negzero(rng):
    n, m = rng.randint(2, 8), rng.randint(3, 5)
    dt = rng.choice([np.float32, np.float32, np.float64])
    goals = ["diff", "diff"] + [rng.choice(["min", "min", "max"]) for _ in range(m - 2)]
    rows = [[rng.choice([0.0, -0.0, 1.0]), rng.choice([0.0, -0.0])] + [float(rng.randint(0, 3)) for _ in range(m - 2)] for _ in range(n)]
    return np.array(rows, dtype=dt), goals


def gen_max4(rng):
    """`max` goals with exactly four effective columns (stride pattern on which numpy's in-place negative fails)."""
    n = rng.randint(2, 12)
    dt = rng.choice([np.float32, np.float64])
    goals = [rng.choice(["min", "max"]) for _ in range(4)]
    if "max" not in goals:
        goals[rng.randrange(4)] = "max"
    return np.array([[float(rng.randint(0, 4)) for _ in range(4)] for _ in range(n)], dtype=dt), goals


# --------------------------------------------------------------------------- verdict logic
class Checker:
    def __init__(self, ctx: Ctx):
        self.ctx = ctx
        self.drv = ctx.driver()
        self.impl = Impl()
        self.stats = {"impl_eq_spec": 0, "impl_ne_spec": 0, "model_eq_impl": 0, "model_ne_impl_outside_H": 0,
                      "H_all_true": 0, "key_inexact": 0, "shrinks": 0}
        self.reported: dict[str, int] = {}
        self.n_new_replays = 0

    # one driver call
    def ask(self, arr, goals):
        rep = self.drv.ask("C11", lean_request(arr, goals))
        if "err" in rep:
            raise HarnessError(f"driver error {rep} on {canon(arr, goals)}")
        return rep

    def holds(self, arr, goals, fn=None):
        impl = (fn or self.impl.mask)(arr, goals)
        rep = self.ask(arr, goals)
        return impl, rep, self.agree(impl, rep)

    @staticmethod
    def agree(impl, rep):
        if rep["spec"] is None:  # unknown goal string: ValueError (≥ 2 rows) / all-true (≤ 1 row), as the model says
            return impl == ("EXC:ValueError" if rep["model"] == "ValueError" else rep["model"])
        return impl == rep["spec"]

    def shrink(self, arr, goals, fn=None):
        """Greedy delta debugging on rows, then columns, keeping `impl ≠ spec`."""
        self.stats["shrinks"] += 1
        a, g = np.asarray(arr), list(goals)
        budget = 400
        changed = True
        while changed and budget > 0:
            changed = False
            for i in range(a.shape[0] - 1, -1, -1):
                if a.shape[0] <= 1:
                    break
                b = np.delete(a, i, axis=0)
                budget -= 1
                if not self.holds(b, g, fn)[2]:
                    a, changed = b, True
                if budget <= 0:
                    break
            for j in range(a.shape[1] - 1, -1, -1):
                if a.shape[1] <= 1 or budget <= 0:
                    break
                b = np.delete(a, j, axis=1)
                g2 = g[:j] + g[j + 1:]
                budget -= 1
                if not self.holds(b, g2, fn)[2]:
                    a, g, changed = b, g2, True
        # value simplification: replace every finite entry by its rank in its column when that keeps the failure
        try:
            b = a.copy()
            for j in range(a.shape[1]):
                col = a[:, j]
                fin = sorted(set(float(v) for v in col if math.isfinite(v)))
                if "prime" in g[j]:
                    continue
                rank = {v: float(k) for k, v in enumerate(fin)}
                b[:, j] = [rank[float(v)] if math.isfinite(v) else v for v in col]
            if not np.array_equal(a, b) and not self.holds(b, g, fn)[2]:
                a = b
        except Exception:
            pass
        return a, g

    def impl_with_correct_negative(self, arr, goals):
        """the implementation's answer when np.negative(x, out=x) is replaced by a correct in-place negation."""
        real = np.negative

        def neg(x, out=None, **k):
            r = -np.asarray(x)
            if out is not None:
                out[...] = r
                return out
            return r

        np.negative = neg
        try:
            return self.impl.mask(arr, goals)
        finally:
            np.negative = real

    def classify(self, arr, goals, impl, rep):
        """classifier key of a (minimised) failing case + one-line description."""
        if isinstance(impl, str):
            return "impl-exception-" + impl[4:], f"fast_pareto_mask raised {impl[4:]} on a valid input"
        spec, model, H = rep["spec"], rep["model"], rep["H"]
        if spec is None:
            return "unknown-goal-accepted", "an unknown goal string did not raise ValueError"
        if not H["wf"]:
            raise HarnessError("generator produced an ill-formed input: " + json.dumps(canon(arr, goals)))
        if neg_bug_active(arr, goals) and self.impl_with_correct_negative(arr, goals) == spec:
            return K_NEG, ("max goal: np.negative(x[:, j], out=x[:, j]) returns wrong values for this stride under the installed "
                           "numpy; with a correct negation the mask is the specification's")
        a = np.asarray(arr)
        if has_negzero(a):
            b = a.copy()
            b[b == 0] = 0.0
            if self.impl.mask(b, goals) == spec and a.dtype == np.float32 and sum(g == "diff" for g in goals) >= 2:
                return K_NEGZERO, "float32 diff columns are grouped by bit pattern: -0.0 and 0.0 fall into different groups"
        kept_extra = [i for i, (x, y) in enumerate(zip(impl, spec)) if x and not y]
        dropped = [i for i, (x, y) in enumerate(zip(impl, spec)) if y and not x]
        br = ",".join(sorted(set(rep["branches"])))
        if model == impl:
            if not H["cast"] and H["sweep"] and H["key"]:
                return K_CAST, "values that differ in the data's dtype collide after the cast to float32; a dominated row is kept / a duplicate test is skipped"
            if not H["sweep"] and H["cast"] and H["key"]:
                return K_SWEEP, "2-column path: a non-dominated row with +inf in the second varying column is dropped (best_c1 starts at 1e308)"
            if not H["key"] and H["cast"] and H["sweep"]:
                return K_SUM, "general path: float row sums of a dominating pair tie (absorption / inf); the dominated row is processed first and never evicted"
            if H["cast"] and H["sweep"] and H["key"]:
                raise HarnessError("Lean model violates its own theorem (model ≠ spec with all hypotheses true): "
                                   + json.dumps(canon(arr, goals)))
            # several hypotheses fail at once on a case that could not be shrunk further
            first = K_CAST if not H["cast"] else (K_SWEEP if not H["sweep"] else K_SUM)
            return first, "several float hypotheses fail on this input (cast/sweep/key = %s/%s/%s)" % (H["cast"], H["sweep"], H["key"])
        # the model does not reproduce the failure (e.g. the code was partly repaired and orders ties differently):
        # a failure that disappears under an order-isomorphic re-encoding of every column by small integers is a
        # float-representation defect; name it after the failing hypothesis
        if not (H["cast"] and H["sweep"] and H["key"]):
            b = rank_transform(a, goals)
            if b is not None:
                i2, r2, ok2 = self.holds(b, goals)
                if ok2 and r2["spec"] == spec:
                    key = K_CAST if not H["cast"] else (K_SWEEP if not H["sweep"] else K_SUM)
                    return key, ("float-representation defect (the failure disappears when every column is re-encoded by its "
                                 "dense ranks); failing hypotheses cast/sweep/key = %s/%s/%s" % (H["cast"], H["sweep"], H["key"]))
        if (not rep["key_exact"]) and "general" in br and not dropped and kept_extra:
            return K_SUM, ("general path, float64 accumulation of the row sums is inexact here so LLVM's fastmath association "
                           "decides the order; dominated rows are kept (superset of the front)")
        kind = "dominated-row-kept" if kept_extra and not dropped else ("nondominated-row-dropped" if dropped and not kept_extra else "mask-differs")
        return f"unexplained-{kind}-{br}", f"implementation differs from the specification and from the model (paths {br})"

    def check(self, arr, goals, stream, fn=None, label="fast_pareto_mask"):
        ctx = self.ctx
        impl = (fn or self.impl.mask)(arr, goals)
        rep = self.ask(arr, goals)
        self.account(arr, goals, stream, impl, rep, fn, label)

    def account(self, arr, goals, stream, impl, rep, fn=None, label="fast_pareto_mask"):
        ctx = self.ctx
        if not rep["cast_ok"]:
            ctx.broken("the model's float32 rounding differs from numpy's astype(float32)", replay_payload(arr, goals, impl, rep))
            return
        H = rep.get("H") or {}
        a = np.asarray(arr)
        nontrivial = a.shape[0] >= 2 and any(b not in ("n0", "n1", "n<=1", "no-eff-cols") for b in rep["branches"])
        ctx.case(canon(arr, goals, {"fn": label}), nontrivial=nontrivial, branches=sorted(set(rep["branches"])))
        ctx.dist(stream)
        ctx.dist("dtype=" + str(a.dtype))
        if H and all(H.get(k) for k in ("cast", "sweep", "key")):
            self.stats["H_all_true"] += 1
        if rep.get("key_exact") is False:
            self.stats["key_inexact"] += 1
        if rep["spec"] is not None and rep["model"] == impl:
            self.stats["model_eq_impl"] += 1
        if self.agree(impl, rep):
            self.stats["impl_eq_spec"] += 1
            if rep["spec"] is not None and rep["model"] != impl:
                if all(H.get(k) for k in ("cast", "sweep", "key")):
                    raise HarnessError("Lean model ≠ Lean spec although all hypotheses hold: " + json.dumps(canon(arr, goals)))
                self.stats["model_ne_impl_outside_H"] += 1
            return
        self.stats["impl_ne_spec"] += 1
        # failing input: classify directly when unambiguous, else shrink first
        key, what = None, None
        if fn is None:
            try:
                key, what = self.classify(arr, goals, impl, rep)
            except HarnessError:
                raise
        if key in (K_CAST, K_SWEEP, K_SUM, K_NEG) and self.reported.get(key, 0) >= 3 and key in ctx._known:
            ctx.fail(key, what, {})  # counted as a further hit of a known finding, no new replay
            return
        if self.n_new_replays >= 30:  # enough replays written: count the rest
            self.stats["further_failing_cases_not_minimised"] = self.stats.get("further_failing_cases_not_minimised", 0) + 1
            return
        a2, g2 = self.shrink(arr, goals, fn)
        impl2 = (fn or self.impl.mask)(a2, g2)
        rep2 = self.ask(a2, g2)
        if fn is None:
            key, what = self.classify(a2, g2, impl2, rep2)
        else:
            key, what = self.classify_numpy(a2, g2, impl2, rep2)
        self.reported[key] = self.reported.get(key, 0) + 1
        if key not in ctx._known:
            self.n_new_replays += 1
        ctx.fail(key, f"{label}: {what}", replay_payload(a2, g2, impl2, rep2, {"stream": stream, "fn": label,
                                                                               "original_shape": list(a.shape)}))

    def classify_numpy(self, arr, goals, impl, rep):
        """makepareto_numpy pre-processes (drops constant columns, negates max, expands primes) and calls
        fast_pareto_mask: classify by the inner call."""
        if isinstance(impl, str) and np.asarray(arr).shape[0] == 0:
            return K_NP_EMPTY, "makepareto_numpy raises %s on a table with 0 rows (n[0] = True on an empty mask)" % impl[4:]
        inner = {}
        orig = self.impl.pareto.fast_pareto_mask

        def spy(data, gs, *a, **k):
            inner["data"], inner["goals"] = np.array(data), list(gs)
            return orig(data, gs, *a, **k)

        self.impl.pareto.fast_pareto_mask = spy
        try:
            self.impl.mask_numpy(arr, goals)
        finally:
            self.impl.pareto.fast_pareto_mask = orig
        if "data" in inner and inner["data"].dtype.kind in "fiu":
            d, g = inner["data"], inner["goals"]
            i2 = self.impl.mask(d, g)
            r2 = self.ask(d, g)
            if not self.agree(i2, r2):
                k, w = self.classify(d, g, i2, r2)
                return k, "via makepareto_numpy: " + w
        return "makepareto_numpy-preprocessing", "makepareto_numpy's own column handling changes the result"


# --------------------------------------------------------------------------- exhaustive small scope
ALPHA = [0.0, 1.0, 2.0, INF]
ALPHA_ENC = [0, 1, 2, "inf"]


def exh_matrix(idx, r, c, dt, alpha=ALPHA):
    b = len(alpha)
    vals = []
    for k in range(r * c):
        vals.append(alpha[(idx // b**k) % b])
    return np.array(vals, dtype=dt).reshape(r, c)


def exh_range(chk: Checker, r, c, goals, dt, lo, hi, alpha=ALPHA, alpha_enc=ALPHA_ENC, step=1):
    """All matrices lo ≤ idx < hi (every `step`-th) of shape r×c over the alphabet. Returns (#cases, fails)."""
    drv, impl = chk.drv, chk.impl
    n = 0
    CH = 20000
    for a0 in range(lo, hi, CH * step):
        idxs = list(range(a0, min(hi, a0 + CH * step), step))
        if step == 1:
            specs = drv.ask("C11", {"op": "exh", "scale": 0, "goals": goals, "alphabet": alpha_enc, "rows": r, "cols": c,
                                    "from": idxs[0], "count": len(idxs), "repairs": repairs_for(dt, FIXED)})
        else:
            specs = [drv.ask("C11", {"op": "exh", "scale": 0, "goals": goals, "alphabet": alpha_enc, "rows": r, "cols": c,
                                     "from": i, "count": 1, "repairs": repairs_for(dt, FIXED)})[0] for i in idxs]
        for idx, sb in zip(idxs, specs):
            a = exh_matrix(idx, r, c, dt, alpha)
            m = impl.mask(a, goals)
            n += 1
            mb = sum(1 << i for i, x in enumerate(m) if x) if not isinstance(m, str) else -1
            if mb != sb:
                rep = chk.ask(a, goals)
                chk.account(a, goals, f"exhaustive-{r}x{c}", m, rep)
            else:
                chk.ctx.cov["evaluations"] += 1
                chk.stats["impl_eq_spec"] += 1
    return n


def _exh_worker(args):
    """4×3 exhaustive slice in a separate process: returns counts per classifier key + examples."""
    r, c, goals, dtname, lo, hi = args
    os.environ.setdefault("ACCELFORGE_VERIF", "1")
    from harness.core import Driver

    impl = Impl()
    drv = Driver()
    dt = np.dtype(dtname)
    out = {"n": 0, "fails": []}
    CH = 20000
    for a0 in range(lo, hi, CH):
        cnt = min(CH, hi - a0)
        specs = drv.ask("C11", {"op": "exh", "scale": 0, "goals": goals, "alphabet": ALPHA_ENC, "rows": r, "cols": c,
                                "from": a0, "count": cnt, "repairs": repairs_for(dt, FIXED)})
        for t, sb in enumerate(specs):
            a = exh_matrix(a0 + t, r, c, dt)
            m = impl.mask(a, goals)
            mb = sum(1 << i for i, x in enumerate(m) if x) if not isinstance(m, str) else -1
            out["n"] += 1
            if mb != sb:
                full = drv.ask("C11", {"op": "exh", "scale": 0, "goals": goals, "alphabet": ALPHA_ENC, "rows": r, "cols": c,
                                       "from": a0 + t, "count": 1, "full": True, "repairs": repairs_for(dt, FIXED)})[0]
                out["fails"].append((a0 + t, mb, full))
    drv.close()
    return out


# --------------------------------------------------------------------------- run
WITNESSES = [
    # (key, dtype, goals, rows) — the inputs of the Lean `_counterexample` theorems, replayed on the real code
    (K_CAST, "float64", ["min"], [[1.0], [1.0 + 2.0**-40]]),
    (K_SUM, "float32", ["min", "min", "min"], [[1e8, 2, 5], [1e8, 1, 5], [1, 7, 9]]),
    (K_SUM, "float32", ["min", "min", "min"], [[INF, 2, 5], [INF, 1, 5], [1, 7, 9]]),
    (K_SWEEP, "float32", ["min", "min"], [[0, INF], [1, 5]]),
]


def run(ctx: Ctx):
    ctx.lean_gate()
    ctx.anchors(ANCHORS)
    ctx.cov["rule"] = (
        "matrices 0..300 rows × 1..8 columns, float32/float64 (some int64), every goal kind; streams: small integers with "
        "heavy ties, duplicates + constant columns, equal row sums, mixed magnitudes 1e-30..1e30 with signs, ±inf, "
        "large (≤300×8, block path), hypothesis-directed (float32 collisions, absorbed sums, inf in the 2-column path, "
        "-0.0 in diff columns, max goals with 4 effective columns), makepareto_numpy, exhaustive small scope over {0,1,2,inf}. "
        "non-trivial = ≥2 rows and at least one group beyond the size-1 shortcut / constant-column exit"
    )
    ctx.cov["trusted_base"] += [
        "harness/props/pareto_common.py: exact encoding of floats as scaled integers (float.as_integer_ratio)",
        "numpy/pandas/numba primitives used by the code (take, astype, factorize, duplicated, argsort, unique) behave as modelled; "
        "the model's float32 rounding is compared with numpy's astype(float32) on every case",
    ]
    ctx.assumptions += [
        "numba fastmath: LLVM may re-associate the float64 row-sum accumulation (it vectorises it for ≥4 varying columns). "
        "The theorems hold for every key function; the driver's key is the sequential sum, equal to the code's key whenever the "
        "float64 accumulation is exact (reported per case as key_exact). Outside that regime a failing case is still judged by the spec.",
        "-0.0 is identified with 0.0 by the dyadic encoding; NaN is outside the input domain",
        "per-prime-factor columns are assumed to hold positive integers (factorint of 0 / negatives / non-integers is not modelled)",
        "goal vectors have one entry per column",
    ]
    chk = Checker(ctx)
    rng = ctx.rng
    T = ctx.thorough

    # ---- replay of a single file
    if ctx.replay:
        body = json.loads(_replay_path(ctx.replay).read_text())
        a, g = arr_from_payload(body["replay"])
        fn = chk.impl.mask_numpy if body["replay"].get("fn") == "makepareto_numpy" else None
        chk.check(a, g, "replay", fn, body["replay"].get("fn", "fast_pareto_mask"))
        ctx.cov["stats"] = chk.stats
        return

    # ---- corpus first
    cdir = CORPUS_DIR / "C11"
    if cdir.exists():
        for f in sorted(cdir.glob("*.json")):
            p = json.loads(f.read_text())
            a, g = arr_from_payload(p)
            chk.check(a, g, "corpus")

    # ---- the Lean witnesses on the real code
    wit = {}
    for key, dt, goals, rows in WITNESSES:
        a = np.array(rows, dtype=np.dtype(dt))
        impl, rep, ok = chk.holds(a, goals)
        wit.setdefault(key, []).append({"impl_violates_spec": not ok, "model_eq_impl": rep["model"] == impl})
        chk.account(a, goals, "lean-witness", impl, rep)
    ctx.cov["lean_witnesses_on_real_code"] = wit

    def many(n, gen, stream, *args):
        for _ in range(n):
            a, g = gen(rng, *args)
            chk.check(a, g, stream)

    scale = 6 if T else 1
    many(500 * scale, gen_random, "small-ties", 12, 5, ["small"])
    many(300 * scale, gen_random, "small-all-styles", 40, 6, ["small", "ties", "float", "inf", "mixed"])
    many(200 * scale, gen_dups, "duplicates-const-cols", 40, 6)
    many(200 * scale, gen_eqsum, "equal-row-sums", 30, 7)
    many(200 * scale, gen_random, "mixed-magnitudes", 60, 8, ["mixed"])
    many(200 * scale, gen_random, "inf", 40, 6, ["inf"])
    many(60 * scale, gen_random, "large-300x8", 300, 8, ["small", "ties", "float", "mixed", "inf"],
         ["min", "min", "min", "min", "max", "diff"])
    many(40 * scale, gen_random, "large-minonly", 300, 8, ["small", "float"], ["min"])
    many(150 * scale, gen_anti_cast, "anti-H-cast")
    many(150 * scale, gen_anti_key, "anti-H-key")
    many(150 * scale, gen_anti_sweep, "anti-H-sweep")
    many(60 * scale, gen_negzero, "negzero-diff")
    many(100 * scale, gen_max4, "max-4-effective-cols")

    # unknown goal strings
    for g in (["min", "minimum"], ["MAX", "min"], ["diff", ""]):
        chk.check(np.array([[1.0, 2.0], [2.0, 1.0], [0.0, 0.0]], dtype=np.float32), g, "unknown-goal")
        chk.check(np.array([[1.0, 2.0]], dtype=np.float32), g, "unknown-goal")

    # ---- distinct=False (theorem fastParetoMask_exact_nodistinct): mask of the non-dominated rows
    for _ in range(120 * scale):
        a, g = gen_random(rng, 30, 5, ["small", "ties", "float"])
        try:
            with np.errstate(all="ignore"):
                im = [bool(x) for x in chk.impl.fp.fast_pareto_mask(a, list(g), distinct=False)]
        except Exception as e:
            im = "EXC:" + type(e).__name__
        rep = chk.drv.ask("C11", lean_request(a, g, distinct=False))
        ctx.case(canon(a, g, {"distinct": False}), nontrivial=a.shape[0] >= 2, branches=["distinct=False"])
        ctx.dist("distinct-false")
        if im != rep["spec"]:
            before = ctx.n_violations() + sum(chk.ctx._known_hits.values())
            chk.check(a, g, "distinct-false-recheck")  # classify through the default path
            if ctx.n_violations() + sum(chk.ctx._known_hits.values()) == before:
                ctx.fail("nodistinct-mask-differs", "fast_pareto_mask(distinct=False) differs from the mask of non-dominated rows",
                         replay_payload(a, g, im, rep, {"distinct": False}))
        else:
            chk.stats["impl_eq_spec"] += 1

    # ---- makepareto_numpy (second observation point)
    for _ in range(150 * scale):
        a, g = gen_random(rng, 30, 6, ["small", "ties", "float", "inf"])
        chk.check(a, g, "makepareto_numpy", chk.impl.mask_numpy, "makepareto_numpy")

    # ---- exhaustive small scope over {0,1,2,inf}
    t0 = time.time()
    n_exh = 0
    exh_done = []
    shapes_full = [(1, 1), (2, 1), (3, 1), (4, 1), (1, 2), (2, 2), (3, 2), (1, 3), (2, 3)]
    if T:
        shapes_full += [(4, 2), (3, 3)]
    goal_sets = {1: [["min"], ["max"]], 2: [["min", "min"], ["min", "max"], ["diff", "min"]],
                 3: [["min", "min", "min"], ["min", "max", "min"], ["diff", "min", "min"]]}
    for (r, c) in shapes_full:
        for goals in goal_sets[c]:
            for dt in ([np.float32, np.float64] if (T or r * c <= 4) else [np.float32]):
                n_exh += exh_range(chk, r, c, goals, dt, 0, 4 ** (r * c))
                exh_done.append(f"{r}x{c}:{','.join(goals)}:{np.dtype(dt).name}")
    # ppf goals over {1,2,3,4,6}
    for (r, c) in [(2, 1), (3, 1), (2, 2), (3, 2)]:
        for goals in ([["min_per_prime_factor"], ["max_per_prime_factor"]] if c == 1 else
                      [["min_per_prime_factor", "min"], ["max_per_prime_factor", "min_per_prime_factor"]]):
            n_exh += exh_range(chk, r, c, goals, np.float32, 0, 5 ** (r * c), [1.0, 2.0, 3.0, 4.0, 6.0], [1, 2, 3, 4, 6])
            exh_done.append(f"{r}x{c}:{','.join(goals)}:ppf-alphabet")
    if not T:
        # a seeded subset of the bigger shapes
        for (r, c, goals, cnt) in [(3, 3, ["min"] * 3, 6000), (4, 2, ["min"] * 2, 3000), (4, 3, ["min"] * 3, 8000)]:
            tot = 4 ** (r * c)
            step = max(1, tot // cnt)
            off = rng.randrange(step)
            n_exh += exh_range(chk, r, c, goals, np.float32, off, tot, step=step)
            exh_done.append(f"{r}x{c}:{','.join(goals)}:float32:sampled 1/{step}")
    else:
        n_exh += exhaustive_4x3(ctx, chk, exh_done)
    ctx.cov["exhaustive"] = True
    ctx.cov["exhaustive_scope"] = exh_done
    ctx.cov["exhaustive_cases"] = n_exh
    ctx.cov["exhaustive_wall_s"] = round(time.time() - t0, 1)
    ctx.cov["tolerance"] = "none: masks are compared exactly; values are exact scaled integers"
    ctx.cov["repairs_modelled"] = sorted(FIXED)
    ctx.cov["stats"] = chk.stats


def exhaustive_4x3(ctx: Ctx, chk: Checker, exh_done):
    """all 4^12 matrices 4×3 over {0,1,2,inf}, goals min,min,min, float32 — in worker processes, inside a wall-clock
    budget (AFV_EXH_BUDGET_S, default 600 s); the slices are visited in a seeded order and the fraction done is recorded."""
    import concurrent.futures as cf
    import multiprocessing as mp

    r, c, goals = 4, 3, ["min", "min", "min"]
    tot = 4 ** (r * c)
    nw = int(os.environ.get("AFV_WORKERS", "4"))
    budget = float(os.environ.get("AFV_EXH_BUDGET_S", "600"))
    chunk = tot // 128
    tasks = [(r, c, goals, "float32", lo, min(tot, lo + chunk)) for lo in range(0, tot, chunk)]
    ctx.rng.shuffle(tasks)
    n = 0
    done = 0
    per_key = {}
    t0 = time.time()

    def absorb(out):
        nonlocal n
        n += out["n"]
        ctx.cov["evaluations"] += out["n"] - len(out["fails"])
        chk.stats["impl_eq_spec"] += out["n"] - len(out["fails"])
        for idx, mb, full in out["fails"]:
            modelb, specb, hb = full
            direct = None
            if mb == modelb:
                direct = {6: K_CAST, 5: K_SWEEP, 3: K_SUM}.get(hb)
            if direct and direct in ctx._known and per_key.get(direct, 0) >= 5:
                per_key[direct] += 1
                ctx.cov["evaluations"] += 1
                chk.stats["impl_ne_spec"] += 1
                ctx.fail(direct, "exhaustive 4x3", {})
                continue
            a = exh_matrix(idx, r, c, np.float32)
            m = [bool(mb >> i & 1) for i in range(r)] if mb >= 0 else chk.impl.mask(a, goals)
            rep = chk.ask(a, goals)
            chk.account(a, goals, "exhaustive-4x3", m, rep)
            if direct:
                per_key[direct] = per_key.get(direct, 0) + 1

    with cf.ProcessPoolExecutor(max_workers=nw, mp_context=mp.get_context("spawn")) as ex:
        pending = set()
        it = iter(tasks)
        exhausted = False
        while True:
            while not exhausted and len(pending) < nw and time.time() - t0 < budget:
                try:
                    pending.add(ex.submit(_exh_worker, next(it)))
                except StopIteration:
                    exhausted = True
            if not pending:
                break
            fin, pending = cf.wait(pending, return_when=cf.FIRST_COMPLETED)
            for f in fin:
                absorb(f.result())
                done += 1
    complete = done == len(tasks)
    ctx.cov["exhaustive_4x3"] = {"slices_done": done, "slices": len(tasks), "complete": complete, "matrices": n,
                                 "budget_s": budget}
    exh_done.append("4x3:min,min,min:float32" + ("" if complete else f":{done}/{len(tasks)} slices (time budget)"))
    return n
