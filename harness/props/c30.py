"""C30 — network transfer costs match route enumeration.

Proof:  AFV/Props/C30.lean      closed forms of the route enumeration (induction on the fanout, no bound),
                                model formulas = enumerated quantities, transfer theorem for generated obligations
Spec:   AFV/Spec/Routes.lean    explicit lists of traversed links on a line mesh / an all-to-all switch
Model:  AFV/Model/Network.lean  the formulas `_network.py` builds, as LExpr terms
Shared: AFV/Model/LExpr.lean + AFV/Lemmas/LExprSound.lean + harness/translate.py (translator library)

Tie, on every run:
  GEN   translator — both topology models are called through `get_topology_model(...)` with SYMBOLS for
        shape_repeats / last_fanout / volume (several templates: sympy, symengine, numeric stride, product
        volume …), the returned formulas are exported to lean/Gen/C30.lean and the kernel checks
        `LExpr.equiv <exported> <model formula> = true` (⇒ equal at every n ≥ 1, s ≥ 1, v ≠ 0 by
        `translator_transfer`); the exporter is round-trip tested against sympy on random rational points.
  GRID  exhaustive numeric correspondence: every fanout 1..32 × stride 1..8 × volumes × {relevant, irrelevant}
        × {mesh, all_to_all}: the implementation's numbers vs the driver's ROUTE ENUMERATION (the spec is the judge).
  FAR   random fanouts/strides far outside the grid vs the model's closed forms (= enumeration by the theorems).
  ACC   `accumulate_max_hops` call sequences vs the model (secondary observable: max_hops is not in C30's statement).
A failing generated obligation triggers the failing-input search: the grid is the search space; the first
differing (topology, loop kind, n, s, v) is the replay.
"""
from __future__ import annotations

import json
from fractions import Fraction

from harness import translate as T
from harness.core import CORPUS_DIR, VERIF, Ctx

_MOD = "accelforge.model._looptree.reuse.symbolic._network"
ANCHORS = [
    f"{_MOD}:MeshTopologyModel.per_loop_transfer_cost",
    f"{_MOD}:AllToAllTopologyModel.per_loop_transfer_cost",
    f"{_MOD}:multicast_cost",
    f"{_MOD}:unicast_cost",
    f"{_MOD}:arithmetic_sum",
    f"{_MOD}:TopologyModel.accumulate_max_hops",
    f"{_MOD}:get_topology_model",
]

TOPOS = ["mesh", "all_to_all"]
RELS = ["relevant", "irrelevant"]
FIELDS = ["total_cost", "max_hops", "max_traffic"]
PROPERTY_FIELDS = ["total_cost", "max_traffic"]  # what C30 speaks about
LEAN_TOPO = {"mesh": ".mesh", "all_to_all": ".allToAll"}
LEAN_REL = {"relevant": ".relevant", "irrelevant": ".irrelevant"}
LEAN_FIELD = {"total_cost": "total", "max_hops": "maxHops", "max_traffic": "maxTraffic"}

# dyadic volumes (exact in binary floating point, so the implementation's float arithmetic is exact)
GRID_VOLUMES = [1, 10, 0.5, 2.75, 3, 1024.125, 0]


class _NoDistribution:
    """Non-distributed source: the property's scope."""

    def _get_physical_fanout_along(self, dim_name, default=1):
        return 1

    def _get_physical_stride_along(self, dim_name):
        return 1


class Impl:
    """Adapter around the live `_network` module."""

    def __init__(self):
        import importlib

        self.N = importlib.import_module(_MOD)
        sym = importlib.import_module("accelforge.frontend._workload_isl._symbolic")
        from accelforge.frontend.arch.components import TopologySpec

        self.rel = {
            "irrelevant": lambda: sym.Irrelevant(),
            "relevant": lambda: sym.Relevant("r0"),
            "partially_relevant": lambda: sym.PartiallyRelevant("r0"),
        }
        self.spec = {"mesh": TopologySpec.MESH, "all_to_all": TopologySpec.ALL_TO_ALL}
        self.src = _NoDistribution()

    def model(self, topo, by_string=False):
        return self.N.get_topology_model(str(self.spec[topo].value) if by_string else self.spec[topo])

    def cost(self, topo, rel, n, s, v, by_string=False):
        """→ dict field→value, or the string 'not-implemented'."""
        m = self.model(topo, by_string)
        try:
            c = m.per_loop_transfer_cost(
                self.rel[rel](), shape_repeats=n, last_fanout=s, volume=v, src_component=self.src, dim_name="X"
            )
        except NotImplementedError:
            return "not-implemented"
        return {f: getattr(c, f) for f in FIELDS}


def _q(x) -> Fraction:
    return T.frac_of_number(x)


def _qj(x):
    return T.rat_json(_q(x))


def _show(q: Fraction):
    return str(q)


# ------------------------------------------------------------------------------------------ comparison
def classify(topo, rel, field, n, got, spec, v) -> str:
    key = f"{topo}-{'unicast' if rel == 'relevant' else 'multicast'}-{field}"
    if n == 1:
        key += "-single-destination"
        if field == "max_traffic" and rel == "irrelevant" and spec == 0 and got == _q(v) and got != 0:
            key += "-reports-volume"
    return key


class Compare:
    """Observed numbers vs route enumeration (the judge) vs model (judge only for max_hops)."""

    def __init__(self, ctx: Ctx, impl: Impl):
        self.ctx, self.impl = ctx, impl
        self.first: dict[str, dict] = {}  # key → minimal failing input (grid order ⇒ first is minimal)
        self.count: dict[str, int] = {}
        self.secondary: list = []  # observed ≠ model on an observable the property does not speak about

    def _note(self, key, what, payload):
        self.count[key] = self.count.get(key, 0) + 1
        if key not in self.first:
            self.first[key] = {"what": what, "payload": payload}

    def judge(self, inp, gq, spec, model, branch, longest=None, origin=None):
        """`gq` field→Fraction as reported (by a numeric call, or by an exported symbolic formula evaluated
        at this point when `origin` names the template)."""
        topo, rel, n, s = inp["topo"], inp["rel"], inp["n"], inp["s"]
        v = T.rat_of_json(inp["v"])
        who = "reported" if origin is None else f"the symbolic formula returned for template '{origin}' evaluates to"
        for f in PROPERTY_FIELDS:
            if f in gq and gq[f] != spec[f]:
                key = classify(topo, rel, f, n, gq[f], spec[f], v) + ("" if origin is None else "-symbolic-formula")
                self._note(
                    key,
                    f"{topo} {rel} loop: {who} {f} = {_show(gq[f])} but routing every value gives {_show(spec[f])}"
                    f" (fanout {n}, stride {s}, volume {_show(v)})",
                    {**inp, "field": f, "implementation": _qj(gq[f]), "route_enumeration": _qj(spec[f]),
                     "lean_model": _qj(model[f]), "longest_route": longest},
                )
        for f in FIELDS:
            if f not in PROPERTY_FIELDS and f in gq and gq[f] != model[f]:
                self.secondary.append({**inp, "field": f, "implementation": _qj(gq[f]), "lean_model": _qj(model[f])}
                                      if len(self.secondary) < 20 else None)

    def check_point(self, topo, rel, n, s, vols, reply, by_string=False):
        """One (topo, rel, n, s) with several volumes against a `routes` reply of the driver."""
        ctx = self.ctx
        for i, v in enumerate(vols):
            inp = {"topo": topo, "rel": rel, "n": n, "s": s, "v": _qj(v), "v_type": type(v).__name__}
            try:
                got = self.impl.cost(topo, rel, n, s, v, by_string)
            except Exception as e:  # raising on a valid input is an observable outcome
                self._note(f"{topo}-{rel}-exception", f"per_loop_transfer_cost raised {type(e).__name__} on a valid input",
                           {**inp, "error": repr(e)})
                continue
            if got == "not-implemented":
                self._note(f"{topo}-{rel}-not-implemented", "per_loop_transfer_cost raised NotImplementedError for a supported loop kind", inp)
                continue
            try:
                gq = {f: _q(got[f]) for f in FIELDS}
            except T.Untranslatable as e:
                self._note(f"{topo}-{rel}-non-numeric", "numeric arguments produced a non-numeric result", {**inp, "error": str(e), "got": {f: str(got[f]) for f in FIELDS}})
                continue
            spec = {"total_cost": T.rat_of_json(reply["spec"][i][0]), "max_traffic": T.rat_of_json(reply["spec"][i][1])}
            model = {f: T.rat_of_json(reply["model"][i][j]) for j, f in enumerate(FIELDS)}
            ctx.case({"t": topo, "r": rel, "n": n, "s": s, "v": _qj(v)}, nontrivial=(n >= 2 and _q(v) != 0), branches=[reply["branch"]])
            self.judge(inp, gq, spec, model, reply["branch"], reply.get("longest"))

    def flush(self):
        for key, d in self.first.items():
            payload = dict(d["payload"])
            payload["failing_cases_with_this_key"] = self.count[key]
            self.ctx.fail(key, d["what"], payload)
        self.first, self.count = {}, {}


def routes_req(topo, rel, n, s, vols, op="routes"):
    return {"op": op, "topo": topo, "rel": rel, "n": n, "s": s, "vols": [_qj(v) for v in vols]}


# ------------------------------------------------------------------------------------------ translator
def templates(rng):
    """(name, symbol table, shape_repeats, last_fanout, volume) — what the live code is called with."""
    import sympy
    import symengine

    n, s, v = sympy.symbols("n s v", positive=True)
    a, b, c, p, q = sympy.symbols("a b c p q", positive=True)
    en, es, ev = symengine.symbols("n s v")
    k = rng.randint(2, 9)
    vol = rng.choice([0.25, 1.5, 2.5, 6.0, 12.75])
    return [
        ("sympy-symbols", ["n", "s", "v"], n, s, v),
        ("symengine-symbols", ["n", "s", "v"], en, es, ev),
        ("stride-one", ["n", "v"], n, 1, v),
        (f"stride-{k}-volume-{vol}", ["n"], n, k, vol),
        ("volume-is-a-quotient", ["n", "s", "a", "b", "c"], n, s, a * b / c),
        ("fanout-is-a-product", ["p", "q", "s", "v"], p * q, s, v),
    ]


def run_translator(ctx: Ctx, impl: Impl, drv):
    """Export the formulas of the live code for every template and kernel-check them against the model.
    Returns (property obligations ok, max_hops obligations ok, failed obligations, lean output)."""
    ask = lambda r: drv.ask("C30", r)
    obligations, secondary_obl, failures, untranslatable = [], [], [], []
    n_self = 0
    for tname, symtab, an, as_, av in templates(ctx.rng):
        args_tree = [T.to_tree(x, symtab) for x in (an, as_, av)]
        args_lean = " ".join(T.to_lean(t) for t in args_tree)
        for topo in TOPOS:
            for rel in RELS:
                got = impl.cost(topo, rel, an, as_, av)
                if got == "not-implemented":
                    failures.append({"template": tname, "topo": topo, "rel": rel, "why": "NotImplementedError on symbols"})
                    continue
                for f in FIELDS:
                    name = f"gen_{len(obligations) + len(secondary_obl)}"
                    info = {"template": tname, "topo": topo, "rel": rel, "field": f, "formula": str(got[f]), "name": name,
                            "symbols": symtab, "tree": None, "args": args_tree, "sympy": got[f]}
                    try:
                        tree = T.to_tree(got[f], symtab)
                    except T.Untranslatable as e:
                        untranslatable.append({"template": tname, "topo": topo, "rel": rel, "field": f, "formula": str(got[f]), "why": str(e)})
                        failures.append({**info, "why": f"untranslatable: {e}"})
                        continue
                    info["tree"] = tree
                    n_self += T.self_test(ask, got[f], symtab, ctx.rng, n_points=2, tree=tree)
                    native = ask({"op": "equiv_model", "topo": topo, "rel": rel, "field": f, "gen": T.to_json(tree),
                                  "args": [T.to_json(t) for t in args_tree]})
                    if native is not True:
                        failures.append({**info, "why": f"normal forms differ (native equiv = {native})"})
                    ob = "" if f not in PROPERTY_FIELDS else T.obligation(
                        name,
                        f"{topo} / {rel} / {f}, template {tname}: the live code returned  {got[f]}",
                        tree,
                        f"perLoop {LEAN_TOPO[topo]} {LEAN_REL[rel]} {args_lean}",
                        LEAN_FIELD[f],
                    )
                    (obligations if f in PROPERTY_FIELDS else secondary_obl).append(ob)
                    ctx.dist(f"gen:{tname}")
    ctx.cov["untranslatable_formulas"] = untranslatable
    ctx.cov["translator_roundtrip_points"] = n_self
    hdr = "Obligations: exported formula ≡ model formula (AFV.Network.perLoop) for total_cost and max_traffic."
    src = T.lean_file("C30", ["AFV.Model.Network"], ["AFV", "AFV.Network"], obligations, hdr)
    ok, out = ctx.check_generated("C30", src, len(obligations) + sum(1 for u in untranslatable if u["field"] in PROPERTY_FIELDS))
    # max_hops is not part of the property: its formulas are compared by the NATIVE run of the same normaliser
    # only (no kernel file), and a difference is reported as a broken secondary correspondence.
    ctx.cov["secondary_formulas_compared_natively"] = len(secondary_obl)
    ok2 = not [f for f in failures if f.get("field") == "max_hops"]
    ctx.cov["samples"].append({"generated_obligation": obligations[0][:400] if obligations else None})
    native_prop_fail = [f for f in failures if f.get("tree") is not None and f.get("field") in PROPERTY_FIELDS]
    if ok != (not native_prop_fail):
        # the kernel and the native run of the same normaliser must agree
        failures.append({"why": "kernel check and native equiv disagree", "lean_output": out[-1500:]})
    return ok, ok2, failures, (out if not ok else "")


# symbol name → values it takes in the fallback grid (the property's quantifier for n, s; dyadic volumes)
FALLBACK_DOMAIN = {
    "n": list(range(1, 33)), "s": list(range(1, 9)), "v": [Fraction(x) for x in (1, 10, 0.5, 2.75, 0)],
    "a": [Fraction(1), Fraction(3), Fraction(1, 2)], "b": [Fraction(1), Fraction(5)], "c": [Fraction(1), Fraction(4)],
    "p": [1, 2, 3, 5, 7], "q": [1, 2, 4, 6],
}


def formula_grid_fallback(ctx: Ctx, cmp: Compare, drv, fl):
    """Grid evaluation of ONE exported formula whose obligation did not check (normal forms differ, or the
    formula is not translatable).  The formula is evaluated exactly at every point of the template's grid
    (fanout 1..32 × stride 1..8 × volumes for the plain templates) and judged against the route enumeration
    exactly like a numeric call.  Returns the number of points evaluated."""
    import itertools
    import sympy

    symtab = fl["symbols"]
    exact = T.rationalize(fl["sympy"]) if fl.get("tree") is None else None
    by_name = {x.name: x for x in T.to_sympy(fl["sympy"]).free_symbols} if exact is not None else {}
    groups: dict = {}
    for pt in itertools.product(*[FALLBACK_DOMAIN[nm] for nm in symtab]):
        pt = [Fraction(x) for x in pt]
        n, s_, v = (T.eval_tree(t, pt) for t in fl["args"])
        if n.denominator != 1 or s_.denominator != 1 or n < 1 or s_ < 1 or n > 40:
            continue
        if fl.get("tree") is not None:
            val = T.eval_tree(fl["tree"], pt)
        else:
            r = exact.subs({by_name[nm]: sympy.Rational(x.numerator, x.denominator) for nm, x in zip(symtab, pt) if nm in by_name})
            if not r.is_Rational:
                cmp._note(f"{fl['topo']}-{fl['rel']}-{fl['field']}-symbolic-formula-non-numeric",
                          "the symbolic formula does not evaluate to a number on a valid input",
                          {"template": fl["template"], "formula": fl["formula"], "point": {nm: str(x) for nm, x in zip(symtab, pt)}, "value": str(r)})
                continue
            val = Fraction(int(r.p), int(r.q))
        groups.setdefault((int(n), int(s_)), []).append((v, val, pt))
    keys = sorted(groups)
    reqs = [routes_req(fl["topo"], fl["rel"], n, s_, [g[0] for g in groups[(n, s_)]]) for n, s_ in keys]
    npts = 0
    for (n, s_), rep in zip(keys, drv.ask_many("C30", reqs)):
        for i, (v, val, pt) in enumerate(groups[(n, s_)]):
            inp = {"topo": fl["topo"], "rel": fl["rel"], "n": n, "s": s_, "v": T.rat_json(v), "template": fl["template"],
                   "formula": fl["formula"], "symbol_values": {nm: str(x) for nm, x in zip(symtab, pt)}}
            spec = {"total_cost": T.rat_of_json(rep["spec"][i][0]), "max_traffic": T.rat_of_json(rep["spec"][i][1])}
            model = {f: T.rat_of_json(rep["model"][i][j]) for j, f in enumerate(FIELDS)}
            cmp.judge(inp, {fl["field"]: val}, spec, model, rep["branch"], rep.get("longest"), origin=fl["template"])
            npts += 1
    ctx.dist("formula-grid-fallback", npts)
    return npts


# ------------------------------------------------------------------------------------------ streams
def stream_grid(ctx: Ctx, cmp: Compare, drv, n_max, s_max, vols):
    reqs, meta = [], []
    for topo in TOPOS:
        for rel in RELS:
            for n in range(1, n_max + 1):
                for s in range(1, s_max + 1):
                    reqs.append(routes_req(topo, rel, n, s, vols))
                    meta.append((topo, rel, n, s))
    replies = drv.ask_many("C30", reqs)
    for (topo, rel, n, s), rep in zip(meta, replies):
        if "err" in rep:
            raise RuntimeError(f"driver error {rep}")
        cmp.check_point(topo, rel, n, s, vols, rep, by_string=(n + s) % 2 == 0)
        ctx.dist(f"grid:{topo}:{rel}")
    ctx.cov["exhaustive"] = True
    ctx.cov["exhaustive_scope"] = (
        f"fanout 1..{n_max} × stride 1..{s_max} × volumes {[str(_q(v)) for v in vols]} × {RELS} × {TOPOS}: "
        "implementation vs route enumeration, all cases"
    )


def stream_far(ctx: Ctx, cmp: Compare, drv, count):
    """Beyond the grid: the implementation vs the model's closed forms (which ARE the enumeration, by the
    theorems, for every fanout); enumeration itself would need lists of millions of links."""
    rng = ctx.rng
    reqs, meta = [], []
    for _ in range(count):
        topo, rel = rng.choice(TOPOS), rng.choice(RELS)
        n = rng.choice([rng.randint(33, 200), rng.randint(200, 5000), 2 ** rng.randint(5, 14)])
        s = rng.choice([1, rng.randint(9, 64), 2 ** rng.randint(0, 8)])
        vols = [rng.choice([1, 2, 7, 64, rng.randint(1, 10**6), rng.randint(1, 4096) / 256, rng.randint(1, 64) / 8])]
        reqs.append(routes_req(topo, rel, n, s, vols, op="model"))
        meta.append((topo, rel, n, s, vols))
    for (topo, rel, n, s, vols), rep in zip(meta, drv.ask_many("C30", reqs)):
        # re-use check_point with spec := model (valid for n ≥ 2 by *_model_* theorems)
        m = rep["model"]
        fake = {"spec": [[m[0][0], m[0][2]]], "model": m, "branch": "far-" + ("mesh" if topo == "mesh" else "a2a")
                + ("-unicast" if rel == "relevant" else "-multicast"), "longest": None}
        cmp.check_point(topo, rel, n, s, vols, fake)
        ctx.dist("far")


def stream_not_implemented(ctx: Ctx, impl: Impl, drv, cmp: Compare):
    for topo in TOPOS:
        rep = drv.ask("C30", routes_req(topo, "partially_relevant", 4, 2, [1]))
        try:
            got = impl.cost(topo, "partially_relevant", 4, 2, 1)
        except Exception as e:
            got = f"raised {type(e).__name__}"
        ctx.case({"t": topo, "r": "partially_relevant"}, nontrivial=False, branches=[rep["branch"]])
        if (got == "not-implemented") != (rep["model"] is None):
            cmp.secondary.append({"topo": topo, "rel": "partially_relevant", "implementation": str(got), "lean_model": "NotImplementedError"})


def stream_accumulate(ctx: Ctx, impl: Impl, drv, count):
    """`accumulate_max_hops`: running total per network (secondary: concerns max_hops only)."""
    rng = ctx.rng
    bad = []
    for i in range(count):
        topo = rng.choice(TOPOS)
        m = impl.model(topo)
        nets = [("net", j) for j in range(rng.randint(1, 4))]
        calls = [(rng.randrange(len(nets)), rng.choice([0, 1, 2, 8, rng.randint(1, 500), rng.randint(1, 64) / 4]))
                 for _ in range(rng.randint(0, 12))]
        rets = []
        try:
            for k, h in calls:
                rets.append(_q(m.accumulate_max_hops(nets[k], h)))
            state = sorted((k, _q(m.overall_max_hops[nets[k]])) for k in {k for k, _ in calls})
        except Exception as e:
            bad.append({"calls": calls, "error": repr(e)})
            continue
        rep = drv.ask("C30", {"op": "accumulate", "calls": [[k, _qj(h)] for k, h in calls]})
        want_r = [T.rat_of_json(x) for x in rep["returns"]]
        want_s = [(k, T.rat_of_json(x)) for k, x in rep["state"]]
        ctx.case({"acc": [[k, _qj(h)] for k, h in calls]}, nontrivial=len(calls) >= 2, branches=["accumulate"])
        ctx.dist("accumulate")
        if rets != want_r or state != want_s:
            bad.append({"topology": topo, "calls": [[k, str(_q(h))] for k, h in calls], "implementation_returns": [str(x) for x in rets],
                        "lean_model_returns": [str(x) for x in want_r]})
    return bad


def corpus_cases():
    d = CORPUS_DIR / "C30"
    out = []
    if d.exists():
        for f in sorted(d.glob("*.json")):
            out.append((f.name, json.loads(f.read_text())))
    return out


def replay_inputs(cmp: Compare, drv, cases):
    for c in cases:
        v = Fraction(int(c["v"][0]), int(c["v"][1]))
        vv = float(v) if c.get("v_type") == "float" and Fraction(float(v)) == v else (int(v) if v.denominator == 1 else v)
        rep = drv.ask("C30", routes_req(c["topo"], c["rel"], int(c["n"]), int(c["s"]), [vv]))
        cmp.check_point(c["topo"], c["rel"], int(c["n"]), int(c["s"]), [vv], rep)


# ------------------------------------------------------------------------------------------ entry
def run(ctx: Ctx):
    import time

    phases, t_last = {}, [time.time()]

    def lap(name):
        now = time.time()
        phases[name] = round(now - t_last[0], 1)
        t_last[0] = now
        ctx.cov["phase_seconds"] = phases

    ctx.lean_gate()
    lap("lean_gate")
    ctx.anchors(ANCHORS)
    ctx.cov["rule"] = (
        "GEN: formulas returned by get_topology_model(t).per_loop_transfer_cost on symbols (6 templates × 2 topologies × "
        "2 loop kinds × 3 fields) exported and kernel-checked against the model formulas; GRID: every fanout×stride×volume×"
        "loop kind×topology of the property's quantifier, implementation vs route enumeration; FAR: random large fanouts vs the "
        "proved closed forms; ACC: accumulate_max_hops sequences. non-trivial = at least two destinations and non-zero volume"
    )
    ctx.cov["tolerance"] = "none: exact rational comparison (volumes are dyadic, so the implementation's float arithmetic is exact)"
    ctx.cov["trusted_base"] += [
        "harness/translate.py (sympy/symengine → LExpr exporter; round-trip tested on every run against sympy's exact substitution and the Lean evaluator)",
        "sympy/symengine arithmetic when the live code is run on symbols (modelled, not verified)",
        "the stand-in source component (_get_physical_fanout_along → 1) used to stay inside the property's scope",
    ]
    ctx.assumptions += [
        "scope: non-distributed source; the distributed branch of MeshTopologyModel (min_nonzero/max_nonzero local binding) is not modelled",
        "volumes are non-negative (max-link theorems assume 0 ≤ v); generated obligations transfer to every n ≥ 1, s ≥ 1, v ≠ 0 (v = 0 is covered numerically)",
        "max_hops is not part of C30's statement: the code reports n·s on a mesh, one stride more than the longest enumerated route (theorem mesh_model_maxhops); it is tied model↔code only",
        "NetworkAnalyzer.accumulate_child_result (summing per-loop costs into NetworkStats) is outside this property; only per_loop_transfer_cost and accumulate_max_hops are tied",
        "PartiallyRelevant loops raise NotImplementedError in code and model",
    ]
    try:
        impl = Impl()
        probe = impl.cost("mesh", "relevant", 4, 2, 10)
        assert isinstance(probe, dict)
    except Exception as e:
        ctx.broken("the harness can no longer drive get_topology_model(...).per_loop_transfer_cost", {"error": repr(e)})
        return
    drv = ctx.driver()
    cmp = Compare(ctx, impl)

    if ctx.replay:
        from pathlib import Path

        rpath = Path(ctx.replay)
        body = json.loads((rpath if rpath.is_absolute() else VERIF / rpath).read_text())
        rp = body.get("replay", body)
        if "topo" in rp and "template" not in rp:
            # a numeric input: re-run exactly this call
            replay_inputs(cmp, drv, [rp])
            failed, sec = bool(cmp.first), list(cmp.secondary)
            cmp.flush()
            print(f"replayed {ctx.replay}: {'property FAILS on this input' if failed else 'no failure on this input'}")
            if not failed and sec:
                ctx.broken("replayed input: implementation differs from the Lean model (secondary observable)", {"cases": sec[:5]})
            return
        # otherwise (a symbolic formula / an obligation): the full run below re-derives it from the live code

    # 1. corpus of past failures
    cc = corpus_cases()
    replay_inputs(cmp, drv, [c for _, c in cc])
    ctx.dist("corpus", len(cc))

    lap("import+corpus")
    # 2. translator obligations
    try:
        gen_ok, hops_ok, gen_failures, gen_out = run_translator(ctx, impl, drv)
    except AssertionError as e:
        # translator round trip failed: the exporter cannot be trusted on this run
        raise RuntimeError(f"translator self-test failed: {e}")
    except Exception as e:
        import traceback

        gen_ok, hops_ok, gen_failures, gen_out = False, True, [{"why": f"symbolic call / export failed: {e!r}"}], traceback.format_exc()

    lap("translator")
    # 3. exhaustive grid (also the failing-input search space for failed obligations)
    if ctx.thorough:
        stream_grid(ctx, cmp, drv, 40, 10, GRID_VOLUMES)
    else:
        stream_grid(ctx, cmp, drv, 32, 8, GRID_VOLUMES)
    lap("grid")
    stream_far(ctx, cmp, drv, 4000 if ctx.thorough else 600)
    stream_not_implemented(ctx, impl, drv, cmp)
    acc_bad = stream_accumulate(ctx, impl, drv, 1500 if ctx.thorough else 300)

    cmp.flush()
    lap("far+acc")

    # 4. obligations that did not check: grid evaluation of the exported formulas themselves.
    #    A pure Laurent polynomial with a different normal form IS a different function and differs on the grid;
    #    a formula with floor/Max/Piecewise … may still agree with the enumeration on every valid (integer) input.
    def strip(fl):
        return {k: v for k, v in fl.items() if k not in ("tree", "args", "sympy")}

    unexplained = [strip(f) for f in gen_failures if "args" not in f]
    fallback = []
    for fl in gen_failures:
        if "args" not in fl:
            continue
        before = (len(cmp.first), len(cmp.secondary))
        npts = formula_grid_fallback(ctx, cmp, drv, fl)
        agrees = (len(cmp.first), len(cmp.secondary)) == before
        fallback.append({**strip(fl), "grid_points": npts, "agrees_with_route_enumeration_on_grid": agrees})
    cmp.flush()
    ctx.cov["grid_fallback_formulas"] = fallback
    found_failing_input = ctx.n_violations() > 0  # known findings do not count

    if unexplained and not found_failing_input:
        ctx.broken(
            "the translator tie of C30 could not be established (symbolic call / export / kernel check failed) and no input "
            "was found on which the implementation departs from route enumeration",
            {"problems": unexplained, "lean_output": gen_out[-1500:]},
        )
    for fb in fallback:
        if fb["agrees_with_route_enumeration_on_grid"]:
            print(f"NOTE property=C30 formula for {fb['topo']}/{fb['rel']}/{fb['field']} (template {fb['template']}) is not a "
                  f"Laurent polynomial identical to the model's ({fb['why']}); it agrees with the route enumeration on all "
                  f"{fb['grid_points']} grid points — obligation left undischarged, no alarm")
    n_sec = len(cmp.secondary)
    ctx.cov["secondary_mismatches"] = n_sec + len(acc_bad)
    if (n_sec or acc_bad) and not found_failing_input:
        ctx.broken(
            "correspondence model↔code no longer checks on a secondary observable (max_hops / accumulate_max_hops / "
            "NotImplementedError); total hops and max link traffic still match route enumeration on every explored input",
            {"cases": [c for c in cmp.secondary if c][:8], "accumulate": acc_bad[:5]},
        )
