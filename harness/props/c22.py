"""C22 — set expressions follow set algebra over each Einsum's tensors.

Proof:  AFV/Props/C22.lean
          evalSet_hom          model evaluation of & | - ^ ~ () = set algebra, complement inside U (SameSpace)
          named_sets_correct   the symbol table Einsum._eval_expressions builds binds All/Inputs/…/tensor
                               names to what the documentation says, all in the space U = the Einsum's tensors
          other_partition / overlap_rejected / other_twice_rejected / accepted_disjoint
          final_named / arch_expr_setalgebra / persistent_named_set   the table the architecture sees; Persistent =
                               tensors persistent after evaluation, also with workload.persistent_tensors (fix 629ad68)
Model:  AFV/Model/SetAlg.lean (InvertibleSet, eval_set_expression, eval_set_expression_dict,
        _eval_tensor2number), AFV/Model/Renames.lean (Einsum._eval_expressions symbol table)
Spec:   AFV/Spec/SetAlg.lean (holds, leaf, specTable, specValue, specDict)
Tie:    correspondence through Spec.from_yaml(...)._spec_eval_expressions(einsum_name=…):
        every expression sits in a Memory's `tensors.keep`, every dictionary in a Memory's
        `bits_per_value`; observables = evaluated instance sets / {tensor: value} / EvaluationError.
        Judge = Lean spec; the Lean model is compared as well (tie). The witness of the repaired Persistent defect
        is a regression case in corpus/C22 and its mechanism keeps its own classifier key.
"""
from __future__ import annotations

import copy
import json
from pathlib import Path

from harness.core import Ctx, CORPUS_DIR
from harness.props import _sets_common as S

ANCHORS = [
    "accelforge.util._setexpressions:InvertibleSet",
    "accelforge.util._setexpressions:set_expression_type_check",
    "accelforge.util._setexpressions:eval_set_expression",
    "accelforge.util._setexpressions:eval_set_expression_dict",
    "accelforge.frontend.workload:Einsum._eval_expressions",
    "accelforge.frontend.arch.components:_eval_tensor2number",
    "accelforge.frontend.spec:Spec._spec_eval_expressions",
]

KEY_PERSISTENT = "persistent-set-ignores-workload-persistent_tensors"


# --------------------------------------------------------------------------- generation
def gen_local_renames(rng, w):
    """Einsum-local and default *tensor* renames whose sources only use names already defined, so the
    workload is valid; they become extra leaves."""
    top = []
    names_default = []
    if rng.random() < 0.5:
        rs = []
        avail = [x for x in S.RESERVED if x != "Persistent"]
        for nm in rng.sample(["input", "output", "weight"], rng.randint(1, 3)):
            src = S.render(S.gen_tree(rng, avail, rng.choice([0, 1, 1, 2]), 0.3), rng)
            rs.append({"name": nm, "source": src, "expected_count": None})
            avail = avail + [nm]
            names_default.append(nm)
        top.append({"name": "default", "tensor_accesses": rs, "rank_variables": [], "form": rng.choice(["dict", "list"])})
    for e in w["einsums"]:
        if rng.random() < 0.4:
            avail = [x for x in S.RESERVED if x != "Persistent"] + S.tensors_of(e)
            rs = []
            for nm in rng.sample(["foo", "bar", "weight"], rng.randint(1, 2)):
                src = S.render(S.gen_tree(rng, avail, rng.choice([0, 1, 2]), 0.3), rng)
                rs.append({"name": nm, "source": src, "expected_count": None})
                avail = avail + [nm]
            e["renames"] = rs
            e["renames_form"] = rng.choice(["dict", "list"])
    return top, names_default


def common_rename_names(case):
    """rename names defined for EVERY Einsum (usable as leaves everywhere)."""
    dflt = [r["name"] for er in case["renames"] if er["name"] == "default" for r in er["tensor_accesses"]]
    return dflt


def gen_dict(rng, leaves, tensors, style):
    """[[key, value]…] with distinct key strings and distinct values."""
    vals = rng.sample(range(1, 64), 8)
    items: list = []

    def add(k):
        if all(k != kk for kk, _ in items):
            items.append([k, vals[len(items)]])

    if style == "partition":
        ts = list(tensors)
        rng.shuffle(ts)
        while ts and len(items) < 4:
            n = rng.randint(1, min(2, len(ts)))
            grp, ts = ts[:n], ts[n:]
            add(" | ".join(grp))
            if rng.random() < 0.3:
                break
        if rng.random() < 0.3:
            add(rng.choice(["Nothing", "All - All", "Inputs & Nothing"]))
    elif style in ("random", "other-twice", "compound-other"):
        for _ in range(rng.randint(1, 3)):
            add(S.render(S.gen_tree(rng, leaves, rng.choice([0, 0, 1, 2]), 0.4), rng))
    elif style == "in-out":
        add("Inputs - Outputs")
        add("Outputs")
        if rng.random() < 0.5:
            add("Intermediates - All")
    if style == "other-twice":
        pos = rng.randint(0, len(items))
        items.insert(pos, ["Other", vals[6]])
        items.insert(rng.randint(0, len(items)), [rng.choice(["~Other", "Other & All", "Other - Nothing", "(Other)"]), vals[7]])
    elif style == "compound-other":
        items.insert(rng.randint(0, len(items)), [rng.choice(["Other - Inputs", "Other & Inputs", "~Other", "Other | Nothing", "Other()"]), vals[7]])
    elif rng.random() < 0.75:
        items.insert(rng.randint(0, len(items)), ["Other", vals[7]])
    return items


def gen_case(rng):
    w = S.gen_workload(rng)
    top, _ = gen_local_renames(rng, w)
    case = {"workload": w, "renames": top, "exprs": [], "dicts": []}
    leaves = list(S.RESERVED) + S.workload_tensors(w) + common_rename_names(case)
    # weight Persistent / Intermediates / Shared a little higher than a uniform draw over many tensors
    leaves_w = leaves + ["Persistent", "Intermediates", "Shared", "Inputs", "Outputs", "All", "Nothing"]
    n_ex = rng.randint(6, 10)
    for i in range(n_ex):
        d = rng.choice([0, 1, 2, 2, 3, 3, 4, 4])
        t = S.gen_tree(rng, leaves_w, d, 0.15 if d >= 3 else 0.25)
        case["exprs"].append(S.render(t, rng))
    for st in [rng.choice(["partition", "random", "in-out"]), rng.choice(["partition", "random"]),
               rng.choice(["other-twice", "compound-other", "random", "partition"])]:
        ts = S.tensors_of(rng.choice(w["einsums"]))
        case["dicts"].append(gen_dict(rng, leaves, ts, st))
    return case


def with_leaves(case):
    """The case plus one bare-leaf expression per named set / workload tensor not shadowed by a rename
    (so that the named sets themselves are observed where a user observes them: `keep: <name>`), and
    `~Nothing` (= the universe complement is taken in)."""
    if "n_user_exprs" in case:
        return case
    c = dict(case)
    shadow = {r["name"] for e in case["workload"]["einsums"] for r in e["renames"]} | \
        {r["name"] for er in case["renames"] for r in er["tensor_accesses"] + er["rank_variables"]}
    leaves = [n for n in S.RESERVED + S.workload_tensors(case["workload"]) if n not in shadow]
    c["n_user_exprs"] = len(case["exprs"]) + 1
    c["exprs"] = list(case["exprs"]) + ["~Nothing"] + leaves
    return c


# --------------------------------------------------------------------------- one case
class Runner:
    def __init__(self, ctx: Ctx):
        self.ctx = ctx
        self.drv = ctx.driver()
        self.tie_mismatch: list = []
        self.n_min = 0

    def lean(self, case):
        r = self.drv.ask("C22", S.case_to_lean(case))
        if "err" in r and "model" not in r:
            raise RuntimeError(f"driver rejected the request: {r}")
        return r

    # ---- evaluation of everything for a case; returns list of discrepancies
    def evaluate(self, case, record=True):
        """Returns (problems, info). problems: list of dicts {kind, einsum, index, impl, spec, model}."""
        ctx = self.ctx
        case = with_leaves(case)
        rep = self.lean(case)
        problems = []
        implw = S.impl_workload(case)
        spec_err = "err" in rep["spec"]
        model_err = "err" in rep["model"]
        for e in case["workload"]["einsums"]:
            en = e["name"]
            iw = implw[en]
            if spec_err or iw["status"] != "ok":
                if spec_err != (iw["status"] != "ok") or (iw["status"] != "ok" and iw["type"] != "EvaluationError"):
                    problems.append({"kind": "workload", "einsum": en, "impl": iw, "spec": rep["spec"].get("err", "ok"),
                                     "model": rep["model"].get("err", "ok")})
                continue
            se = S.lean_einsum(rep["spec"], en)
            me = S.lean_einsum(rep["model"], en) if not model_err else None
            st, mt = S.table_dict(se["table"]), (S.table_dict(me["table"]) if me else {})
            # (1) the named sets and tensor names: observed below through `keep: <name>` Memories
            #     (`named` = leaves appended to the expression list by `with_leaves`)
            # (2) persistent flags (sanity of the harness' reading of `persistent_tensors`)
            if iw["persistent"] != se["persistent"]:
                problems.append({"kind": "persistent-flags", "einsum": en, "impl": iw["persistent"], "spec": se["persistent"],
                                 "model": me["persistent"] if me else None})
            # (3) expressions and dictionaries through the architecture
            rej = [("err" in d) for d in (me["dicts"] if me else se["dicts"])]
            ia = S.impl_arch(case, en, rej)
            n_user = case.get("n_user_exprs", len(case["exprs"]))
            for i, x in enumerate(case["exprs"]):
                iv, sv = ia["exprs"][i], se["exprs"][i]
                mv = me["exprs"][i] if me else None
                tr = S.parse_expr(x)
                if i >= n_user:  # a bare leaf appended by with_leaves: the named set itself
                    if record:
                        ctx.case({"k": "named", "e": e["accesses"], "n": x, "pt": case["workload"]["persistent_tensors"]},
                                 nontrivial=bool(sv.get("ok")), branches=["named:" + (x if x in S.RESERVED else "tensor")])
                    if _norm(iv) != _norm(sv):
                        problems.append({"kind": "named", "einsum": en, "index": i, "name": x, "expr": x, "impl": iv, "spec": sv, "model": mv})
                    elif mv is not None and _norm(iv) != _norm(mv):
                        self.tie_mismatch.append({"kind": "named", "einsum": en, "name": x, "impl": iv, "model": mv, "case": case})
                    continue
                if record:
                    ctx.case({"k": "expr", "e": e["accesses"], "x": x, "w": len(case["workload"]["einsums"])},
                             nontrivial=S.depth(tr) >= 1, branches=["op:" + o for o in set(S.ops_of(tr))] + [f"depth:{S.depth(tr)}"])
                    ctx.dist(f"expr-depth-{S.depth(tr)}")
                if _norm(iv) != _norm(sv):
                    problems.append({"kind": "expr", "einsum": en, "index": i, "expr": x, "impl": iv, "spec": sv, "model": mv})
                elif mv is not None and _norm(iv) != _norm(mv):
                    self.tie_mismatch.append({"kind": "expr", "einsum": en, "expr": x, "impl": iv, "model": mv, "case": case})
            for i, d in enumerate(case["dicts"]):
                iv, sv = ia["dicts"][i], se["dicts"][i]
                mv = me["dicts"][i] if me else None
                if record:
                    n_other = sum(1 for k, _ in d if "Other" in S.names_of(S.parse_expr(k)))
                    br = ["dict:" + ("rejected" if "err" in sv else "accepted"), f"dict:other-keys={n_other}"]
                    if mv and "err" in mv:
                        br.append("dict:err:" + mv["err"])
                    ctx.case({"k": "dict", "e": e["accesses"], "d": d}, nontrivial=len(d) >= 2, branches=br)
                    ctx.dist("dict-" + ("rejected" if "err" in sv else "accepted"))
                if _norm_dict(iv) != _norm_dict(sv):
                    problems.append({"kind": "dict", "einsum": en, "index": i, "dict": d, "impl": iv, "spec": sv, "model": mv})
                elif mv is not None and _norm_dict(iv) != _norm_dict(mv):
                    self.tie_mismatch.append({"kind": "dict", "einsum": en, "dict": d, "impl": iv, "model": mv, "case": case})
        return problems, rep

    # ---- shrinking
    def still_fails(self, case, pred):
        try:
            probs, _ = self.evaluate(case, record=False)
        except Exception:
            return None
        for p in probs:
            if pred(p):
                return p
        return None

    def minimise(self, case, prob):
        """Greedy delta debugging: single expression / dictionary, sub-expressions, fewer Einsums,
        fewer accesses, fewer renames, no persistent_tensors."""
        kind, en = prob["kind"], prob["einsum"]
        case = copy.deepcopy(case)
        n_user = case.pop("n_user_exprs", None)
        if n_user is not None:
            case["exprs"] = case["exprs"][: n_user - 1]
        if kind == "expr":
            case["exprs"], case["dicts"] = [prob["expr"]], []
        elif kind == "dict":
            case["exprs"], case["dicts"] = [], [prob["dict"]]
        else:
            case["exprs"], case["dicts"] = [], []
        name = prob.get("name")

        def pred(p):
            return p["kind"] == kind and p["einsum"] == en and p.get("name") == name

        cur = self.still_fails(case, pred)
        if cur is None:
            return case, prob
        budget = 80
        changed = True
        while changed and budget > 0:
            changed = False
            for cand in self._reductions(case, en):
                budget -= 1
                if budget <= 0:
                    break
                p = self.still_fails(cand, pred)
                if p is not None:
                    case, cur, changed = cand, p, True
                    break
        return case, cur

    def _reductions(self, case, keep_einsum):
        w = case["workload"]
        # sub-expressions
        if case["exprs"]:
            t = S.parse_expr(case["exprs"][0])
            subs = sorted((s for s in S.subtrees(t) if s != t), key=lambda s: len(json.dumps(s)))
            for s in subs:
                c = copy.deepcopy(case)
                c["exprs"] = [S.render_full(s)]
                yield c
        if case["dicts"]:
            d = case["dicts"][0]
            for i in range(len(d)):
                if len(d) > 1:
                    c = copy.deepcopy(case)
                    c["dicts"] = [d[:i] + d[i + 1:]]
                    yield c
            for i, (k, v) in enumerate(d):
                t = S.parse_expr(k)
                for s in sorted((s for s in S.subtrees(t) if s != t), key=lambda s: len(json.dumps(s))):
                    ks = S.render_full(s)
                    if any(ks == kk for kk, _ in d):
                        continue
                    c = copy.deepcopy(case)
                    c["dicts"] = [d[:i] + [[ks, v]] + d[i + 1:]]
                    yield c
        for i, e in enumerate(w["einsums"]):
            if e["name"] != keep_einsum:
                c = copy.deepcopy(case)
                del c["workload"]["einsums"][i]
                yield c
        if w.get("persistent_tensors"):
            c = copy.deepcopy(case)
            c["workload"]["persistent_tensors"] = None
            yield c
            t = S.parse_expr(w["persistent_tensors"])
            for s in sorted((s for s in S.subtrees(t) if s != t), key=lambda s: len(json.dumps(s))):
                c = copy.deepcopy(case)
                c["workload"]["persistent_tensors"] = S.render_full(s)
                yield c
        if case["renames"]:
            c = copy.deepcopy(case)
            c["renames"] = []
            yield c
        for i, e in enumerate(w["einsums"]):
            if e["renames"]:
                c = copy.deepcopy(case)
                c["workload"]["einsums"][i]["renames"] = []
                yield c
            for j in range(len(e["accesses"])):
                if len(e["accesses"]) > 1:
                    c = copy.deepcopy(case)
                    del c["workload"]["einsums"][i]["accesses"][j]
                    yield c
            for j, a in enumerate(e["accesses"]):
                if a["persistent"]:
                    t = a["name"]
                    c = copy.deepcopy(case)
                    for ee in c["workload"]["einsums"]:
                        for aa in ee["accesses"]:
                            if aa["name"] == t:
                                aa["persistent"] = False
                    yield c

    # ---- classification of a (minimised) failing case
    def legacy_persistent(self, case, p) -> bool:
        """Is the observed value what the code produced before fix 629ad68 — `Persistent` = the flagged
        tensors only, i.e. the specified value of the same slot when workload.persistent_tensors is dropped
        — while the specified value (with persistent_tensors) is different?"""
        if not case["workload"].get("persistent_tensors") or p["kind"] not in ("named", "expr", "dict") or "index" not in p:
            return False
        c2 = copy.deepcopy(case)
        c2["workload"]["persistent_tensors"] = None
        try:
            rep = self.lean(with_leaves(c2))
        except Exception:
            return False
        se = S.lean_einsum(rep["spec"], p["einsum"])
        if se is None:
            return False
        slot = se["dicts" if p["kind"] == "dict" else "exprs"]
        if p["index"] >= len(slot):
            return False
        n = _norm_dict if p["kind"] == "dict" else _norm
        return n(slot[p["index"]]) == n(p["impl"]) != n(p["spec"])

    def classify(self, case, p) -> tuple[str, str]:
        w = case["workload"]
        pt = w.get("persistent_tensors")
        if p["kind"] == "named":
            if p["name"] == "Persistent" and pt and self.legacy_persistent(case, p):
                return KEY_PERSISTENT, "the named set Persistent does not contain a tensor made persistent by workload.persistent_tensors"
            return f"named-set:{p['name'] if p['name'] in S.RESERVED else 'tensor-name'}", f"named set {p['name']} is not what the documentation says"
        if p["kind"] == "expr":
            t = S.parse_expr(p["expr"])
            if t == ["n", "Persistent"] and pt and self.legacy_persistent(case, p):
                return KEY_PERSISTENT, "`keep: Persistent` does not contain a tensor made persistent by workload.persistent_tensors"
            if t[0] == "n":
                return f"leaf:{t[1] if t[1] in S.RESERVED else 'tensor-or-rename'}", f"leaf {t[1]} evaluates to the wrong set"
            return f"op:{t[0]}", f"operator {t[0]} does not follow set algebra (complement inside the Einsum's tensors)"
        if p["kind"] == "dict":
            iv, sv = p["impl"], p["spec"]
            names = [n for k, _ in p["dict"] for n in S.names_of(S.parse_expr(k))]
            if "Persistent" in names and pt and self.legacy_persistent(case, p):
                return KEY_PERSISTENT, "a dictionary key using Persistent misses a tensor made persistent by workload.persistent_tensors"
            n_other = sum(1 for k, _ in p["dict"] if "Other" in S.names_of(S.parse_expr(k)))
            if "err" in sv and "err" not in iv:
                return ("dict:other-twice-accepted" if n_other > 1 else "dict:overlap-accepted"), "a dictionary that must be rejected is accepted"
            if "err" in iv and "err" not in sv:
                return "dict:valid-rejected", "a dictionary with disjoint keys is rejected"
            return ("dict:other-not-complement" if n_other == 1 else "dict:wrong-assignment"), "a tensor is not assigned the value of the one key that contains it"
        if p["kind"] == "persistent-flags":
            return "persistent-flags", "persistent flags after evaluation differ from flags ∪ persistent_tensors"
        return "workload:valid-workload-rejected", "a valid workload is rejected / an invalid one accepted"

    def judge(self, case, problems):
        """Turn discrepancies impl≠spec into fail() calls (minimised + classified)."""
        ctx = self.ctx
        seen = set()
        n_same = {}
        for p in problems:
            # after a few fully minimised instances of the (formerly known, now repaired) Persistent mechanism,
            # further instances are classified directly by the same test the classifier applies to minimised cases
            if self.n_min >= 3 and self.legacy_persistent(with_leaves(case), p):
                mentions = (p["kind"] == "named" and p["name"] == "Persistent") or \
                    (p["kind"] == "expr" and "Persistent" in S.names_of(S.parse_expr(p["expr"]))) or \
                    (p["kind"] == "dict" and any("Persistent" in S.names_of(S.parse_expr(k)) for k, _ in p["dict"]))
                if mentions:
                    n_same[KEY_PERSISTENT] = n_same.get(KEY_PERSISTENT, 0) + 1
                    if n_same[KEY_PERSISTENT] <= 1:
                        ctx.fail(KEY_PERSISTENT, "Persistent ignores workload.persistent_tensors (not minimised)",
                                 {"case": case, "problem": p})
                    continue
            self.n_min += 1
            if self.n_min <= 12:
                mc, mp = self.minimise(case, p)
            else:
                mc, mp = case, p
            key, what = self.classify(mc, mp)
            sig = (key, json.dumps(mc, sort_keys=True))
            if sig in seen:
                continue
            seen.add(sig)
            ctx.fail(key, what, {"case": mc, "einsum": mp["einsum"], "problem": mp,
                                 "yaml": S.case_to_yaml(mc, [("X0", mc["exprs"][0], None)] if mc["exprs"] else
                                                        ([("D0", None, mc["dicts"][0])] if mc["dicts"] else
                                                         ([("X0", mp["name"], None)] if mp.get("name") else [])))})


def _norm(v):
    if v is None:
        return None
    if isinstance(v, str):
        return ("status", v)
    if isinstance(v, list):
        return ("table", json.dumps(v))
    if "ok" in v:
        return ("ok", tuple(v["ok"]))
    return ("err",)


def _norm_dict(v):
    if v is None:
        return None
    if isinstance(v, str):
        return ("status", v)
    if "ok" in v:
        return ("ok", tuple(tuple(x) for x in v["ok"]))
    return ("err",)


# --------------------------------------------------------------------------- mixed-space observation
def observe_mixed_space(ctx: Ctx, rng, n):
    """`Inputs | m` (tensor set ∪ rank-variable set): outside the property (it speaks of tensor sets);
    recorded, never judged."""
    acc = rej = 0
    for _ in range(n):
        w = S.gen_workload(rng, n_einsums=1, allow_persistent_expr=False)
        e = w["einsums"][0]
        rv = e["accesses"][0]["rank_vars"][0]
        x = rng.choice([f"Inputs | {rv}", f"{rv} | All", f"~(Outputs | {rv})", f"All & {rv}"])
        case = {"workload": w, "renames": [], "exprs": [x], "dicts": []}
        r = S.impl_arch(case, e["name"])["exprs"][0]
        if "ok" in r:
            acc += 1
        else:
            rej += 1
    ctx.cov["mixed_space_observation"] = {"accepted": acc, "rejected": rej,
                                          "note": "tensor-set ∪ rank-variable-set expressions; not judged (outside C22's statement)"}


# --------------------------------------------------------------------------- entry
def run(ctx: Ctx):
    ctx.lean_gate()
    ctx.anchors(ANCHORS)
    ctx.cov["rule"] = (
        "random workloads of 1–4 Einsums over a pool of 8 tensors (1–4 tensors per Einsum, 0..all outputs, persistent "
        "flags per tensor and/or a workload-level persistent_tensors expression, optional default and Einsum-local "
        "tensor renames); per workload 6–10 expression trees of depth 0–4 over All/Tensors/Inputs/Outputs/Intermediates/"
        "Shared/Persistent/Nothing/tensor names (also tensors of other Einsums)/renames with & | - ^ ~ (), rendered fully "
        "parenthesised or with CPython's minimal parentheses, each placed in a Memory's tensors.keep; 3 bits_per_value "
        "dictionaries (partition by construction, random keys, Inputs/Outputs split, Other at a random position, Other "
        "twice, compound Other); every Einsum evaluated through Spec.from_yaml()._spec_eval_expressions(einsum_name). "
        "non-trivial = expression depth >= 1 / dictionary with >= 2 keys / non-empty named set"
    )
    ctx.cov["trusted_base"] += [
        "CPython's parser (ast.parse) supplies the expression tree for the model; Python's eval is modelled on the operator subset & | - ^ ~ ()",
        "ruamel/jinja YAML loading and pydantic validation of the generated spec (the case generator writes YAML text)",
        "harness/props/_sets_common.py (YAML rendering of a case, reading the evaluated Spec back)",
    ]
    ctx.assumptions += [
        "re.findall(r'\\bOther\\b', key) is modelled as 'the key's tree mentions the identifier Other' (keys are made of identifiers and operators)",
        "only tensor-space expressions are judged; tensor/rank-variable mixtures are recorded, not judged (TensorName and RankVariable are both `str` in /repo, so space_type never distinguishes them)",
        "dictionary values are integers (the value expressions themselves are C21's subject)",
        "Python-level features of set expressions outside & | - ^ ~ () (conditionals, len(), .rank_variables, .bits_per_value) are not modelled",
    ]
    import accelforge  # noqa: F401  (import cost outside the timed loops)

    rn = Runner(ctx)
    rng = ctx.rng
    if not S.can_drive(ctx):
        return

    # ---- replay mode
    if ctx.replay:
        case = S.load_replay_case(ctx.replay)
        problems, _ = rn.evaluate(case)
        rn.judge(case, problems)
        return

    # ---- corpus first
    cdir = CORPUS_DIR / "C22"
    for f in sorted(cdir.glob("*.json")) if cdir.exists() else []:
        body = json.loads(f.read_text())
        case = body["case"]
        ctx.dist("corpus")
        problems, _ = rn.evaluate(case)
        # regression cases (witnesses of repaired defects): they must pass; a problem here is judged like any other
        rn.judge(case, problems)

    # ---- generated cases
    budget_s = 900 if ctx.thorough else 60
    n_cases = 4000 if ctx.thorough else 400
    done = 0
    t_start = ctx.elapsed()
    for _ in range(n_cases):
        if ctx.elapsed() - t_start > budget_s:
            break
        case = gen_case(rng)
        ctx.dist(f"einsums={len(case['workload']['einsums'])}")
        ctx.dist("persistent_tensors=" + ("expr" if case["workload"]["persistent_tensors"] else "none"))
        problems, _ = rn.evaluate(case)
        rn.judge(case, problems)
        done += 1
        if ctx.n_violations() >= 5:
            break
    ctx.cov["generated_cases"] = done
    observe_mixed_space(ctx, rng, 40 if ctx.thorough else 12)

    if rn.tie_mismatch and ctx.n_violations() == 0:
        m = rn.tie_mismatch[0]
        ctx.broken(
            "correspondence of the Lean model with the code no longer checks (implementation satisfies the spec but "
            f"differs from the model) in {len(rn.tie_mismatch)} observation(s); first: {m['kind']}",
            {"first": m, "count": len(rn.tie_mismatch)},
        )
