"""C29 — renames resolve with per-Einsum entries overriding defaults.

Proof:  AFV/Props/C29.lean
          resolve_first_of                 the specification: first of (Einsum-local, top-level[e], top-level[default])
          lookup_precedence                for ALL inputs the code (after fix 9c6cc63) evaluates the definition `resolve` selects
          effective_eq_spec / table_eq_spec / effectiveSpec_find
                                           whole rename list, in order, and whole table = specified, when no name is
                                           used in both kinds (KindsDisjoint = the judge's domain)
          expected_count_checked / expected_count_mismatch_rejected
Model:  AFV/Model/Renames.lean (Renames.get_renames_for_einsum, Einsum._eval_expressions rename handling,
        Rename._eval_expressions), AFV/Model/SetAlg.lean
Spec:   AFV/Spec/SetAlg.lean (resolve, effectiveSpec, specTable)
Tie:    correspondence through Spec.from_yaml(...)._spec_eval_expressions(einsum_name=…): per Einsum the
        resolved set of every rename name (from the evaluated workload and through a Memory `keep: <name>`),
        or the EvaluationError.  Judge = Lean spec on its domain (in_domain); outside it the Lean model only (no verdict).
        The witness of the repaired per-Einsum defect is a regression case in corpus/C29.
"""
from __future__ import annotations

import copy
import json
from pathlib import Path

from harness.core import Ctx, CORPUS_DIR
from harness.props import _sets_common as S

ANCHORS = [
    "accelforge.frontend.renames:Renames.get_renames_for_einsum",
    "accelforge.frontend.renames:Rename._eval_expressions",
    "accelforge.frontend.renames:RenameList._eval_expressions",
    "accelforge.frontend.renames:rename_list_factory",
    "accelforge.frontend.workload:Einsum._eval_expressions",
    "accelforge.frontend.spec:Spec._spec_eval_expressions",
]

KEY_PER_EINSUM = "toplevel-per-einsum-renames-ignored"
RANK_RENAMES = ["rv", "red"]


# --------------------------------------------------------------------------- generation
def _gen_renames(rng, names, avail, n_max, p_foreign, foreign):
    rs = []
    avail = list(avail)
    for nm in rng.sample(names, rng.randint(0, min(n_max, len(names)))):
        lv = avail + (foreign if rng.random() < p_foreign else [])
        src = S.render(S.gen_tree(rng, lv, rng.choice([0, 0, 1, 1, 2]), 0.35), rng)
        rs.append({"name": nm, "source": src, "expected_count": None})
        avail.append(nm)
    return rs


def gen_case(rng):
    w = S.gen_workload(rng, allow_persistent_expr=False)
    base = [x for x in S.RESERVED]
    foreign = S.workload_tensors(w)  # may be undefined in some Einsums while renames are evaluated
    top = []
    shape = rng.random()
    n_default = 0 if shape < 0.15 else (2 if shape > 0.9 else 1)
    entries = []
    for _ in range(n_default):
        entries.append("default")
    for e in w["einsums"]:
        if rng.random() < 0.45:
            entries.append(e["name"])
    if rng.random() < 0.15:
        entries.append("Nope")
    rng.shuffle(entries)
    for en in entries:
        er = {"name": en, "form": rng.choice(["dict", "list"]),
              "tensor_accesses": _gen_renames(rng, S.RENAME_POOL, base, 3, 0.15, foreign),
              "rank_variables": []}
        if rng.random() < 0.3:
            rvs = sorted({r for e in w["einsums"] for a in e["accesses"] for r in a["rank_vars"]})
            # names of rank-variable renames are disjoint from those of tensor renames: what a name given in
            # both kinds means is not defined by the property (see in_domain)
            er["rank_variables"] = [{"name": rng.choice(RANK_RENAMES),
                                     "source": rng.choice(rvs), "expected_count": None}]
        top.append(er)
    for e in w["einsums"]:
        if rng.random() < 0.5:
            e["renames"] = _gen_renames(rng, S.RENAME_POOL, base + S.tensors_of(e), 3, 0.1, foreign)
            e["renames_form"] = rng.choice(["dict", "list"])
    return {"workload": w, "renames": top, "exprs": [], "dicts": []}


def in_domain(case) -> bool:
    """Domain of the judge (hypotheses of AFV.C29.effective_eq_spec): no name is used both for a tensor rename
    and for a rank-variable rename in the top-level section, and the names inside one Einsum's own list are distinct.
    The property does not say what a name given in both kinds means; such cases are compared with the Lean model
    only (which follows the code's list order), as an observation without verdict."""
    tn = {r["name"] for er in case["renames"] for r in er["tensor_accesses"]}
    rn_ = {r["name"] for er in case["renames"] for r in er["rank_variables"]}
    if tn & rn_:
        return False
    for e in case["workload"]["einsums"]:
        ns = [r["name"] for r in e["renames"]]
        if len(ns) != len(set(ns)):
            return False
    return True


def all_rename_names(case):
    out = []
    for er in case["renames"]:
        for r in er["tensor_accesses"] + er["rank_variables"]:
            if r["name"] not in out:
                out.append(r["name"])
    for e in case["workload"]["einsums"]:
        for r in e["renames"]:
            if r["name"] not in out:
                out.append(r["name"])
    return out


def add_expected_counts(rng, case, rn):
    """Second pass: ask the specification for the sizes, then state counts — mostly right, sometimes off by one."""
    rep = rn.lean(case)
    if "err" in rep["spec"]:
        return
    sizes = {}
    for e in rep["spec"]["einsums"]:
        for row in e["table"]:
            sizes.setdefault(row[0], []).append(len(row[1]))

    def maybe(r, p):
        if rng.random() < p and r["name"] in sizes:
            k = rng.choice(sizes[r["name"]])
            if rng.random() < 0.3:
                k = max(0, k + rng.choice([-1, 1]))
            r["expected_count"] = k

    for er in case["renames"]:
        for r in er["tensor_accesses"] + er["rank_variables"]:
            maybe(r, 0.3)
    for e in case["workload"]["einsums"]:
        for r in e["renames"]:
            maybe(r, 0.4)


# --------------------------------------------------------------------------- runner
def _nv(v):
    if v is None:
        return None
    if isinstance(v, list):
        return json.dumps(v)
    return ("ok", tuple(v["ok"])) if "ok" in v else ("err",)


class _Sink:
    """stands in for the list of judged problems on out-of-domain cases: records a tie mismatch instead"""

    def __init__(self, tie, case):
        self.tie, self.case = tie, case

    def append(self, p):
        self.tie.append({"kind": "out-of-domain:" + p["kind"], "einsum": p["einsum"], "name": p.get("name"),
                         "impl": p["impl"], "model": p["model"], "case": self.case})


class Runner:
    def __init__(self, ctx: Ctx):
        self.ctx = ctx
        self.drv = ctx.driver()
        self.tie_mismatch: list = []
        self.n_min = 0

    def lean(self, case):
        r = self.drv.ask("C29", S.case_to_lean(case))
        if "err" in r and "model" not in r:
            raise RuntimeError(f"driver rejected the request: {r}")
        return r

    def evaluate(self, case, record=True):
        ctx = self.ctx
        case = dict(case)
        names = all_rename_names(case)
        case["exprs"] = list(names)  # each name also observed through `keep: <name>` of a Memory
        case["dicts"] = []
        rep = self.lean(case)
        problems = []
        dom = in_domain(case)
        if not dom:
            # observation without verdict: the reference is the model, a difference is a tie mismatch
            rep = {"spec": rep["model"], "model": rep["model"]}
            problems = _Sink(self.tie_mismatch, case)
            if record:
                ctx.dist("out-of-domain:same-name-in-both-kinds")
        implw = S.impl_workload(case)
        spec_err, model_err = "err" in rep["spec"], "err" in rep["model"]
        for e in case["workload"]["einsums"]:
            en = e["name"]
            iw = implw[en]
            groups_all = sorted({g for n in names for g in self.groups(case, e, n)})
            if record:
                ctx.case({"k": "status", "e": e, "top": case["renames"]}, nontrivial=bool(names),
                         branches=["status:" + ("rejected:" + rep["spec"]["err"] if spec_err else "ok")])
            if spec_err or iw["status"] != "ok":
                ok = spec_err == (iw["status"] != "ok") and (iw["status"] == "ok" or iw["type"] == "EvaluationError")
                if not ok:
                    problems.append({"kind": "workload", "einsum": en, "impl": iw, "spec": rep["spec"].get("err", "ok"),
                                     "model": rep["model"].get("err", "ok"), "groups": groups_all})
                elif model_err != (iw["status"] != "ok"):
                    self.tie_mismatch.append({"kind": "workload", "einsum": en, "impl": iw, "model": rep["model"].get("err", "ok"), "case": case})
                continue
            se = S.lean_einsum(rep["spec"], en)
            me = S.lean_einsum(rep["model"], en) if not model_err else None
            st, mt = S.table_dict(se["table"]), (S.table_dict(me["table"]) if me else None)
            ia = S.impl_arch(case, en)
            for i, n in enumerate(names):
                g = self.groups(case, e, n)
                iv, sv = iw["table"].get(n), st.get(n)
                mv = mt.get(n) if mt is not None else "n/a"
                # `keep: <name>` must be the resolved set of the name (or stay unresolved if it has none)
                ia_v = ia["exprs"][i]
                sa_v = {"ok": sv[0]} if sv is not None else {"err": "undefined-name"}
                if record:
                    ctx.case({"k": "name", "e": e, "top": case["renames"], "n": n}, nontrivial=len(g) >= 1,
                             branches=["defined-in:" + ("+".join(g) or "nowhere")])
                    ctx.dist("defined-in:" + ("+".join(g) or "nowhere"))
                bad = (iv[0] if iv else None) != (sv[0] if sv else None) or _nv(ia_v) != _nv(sa_v)
                if bad:
                    problems.append({"kind": "name", "einsum": en, "name": n, "impl": iv, "impl_keep": ia_v, "spec": sv,
                                     "spec_keep": sa_v, "model": mv, "groups": g})
                elif mt is not None and (iv[0] if iv else None) != (mv[0] if mv else None):
                    self.tie_mismatch.append({"kind": "name", "einsum": en, "name": n, "impl": iv, "model": mv, "case": case})
        return (problems if dom else []), rep

    @staticmethod
    def groups(case, e, n):
        g = []
        if any(r["name"] == n for r in e["renames"]):
            g.append("local")
        if any(er["name"] == e["name"] and e["name"] != "default" and
               any(r["name"] == n for r in er["tensor_accesses"] + er["rank_variables"]) for er in case["renames"]):
            g.append("top-einsum")
        if any(er["name"] == "default" and any(r["name"] == n for r in er["tensor_accesses"] + er["rank_variables"])
               for er in case["renames"]):
            g.append("default")
        return g

    # ---- shrinking
    def still_fails(self, case, pred):
        try:
            probs, _ = self.evaluate(case, record=False)
        except Exception:
            return None
        for p in probs:
            if pred(p):
                return p
        return None

    def minimise(self, case, prob):
        kind, en, name = prob["kind"], prob["einsum"], prob.get("name")

        def pred(p):
            return p["kind"] == kind and p["einsum"] == en and p.get("name") == name

        case = copy.deepcopy(case)
        cur = self.still_fails(case, pred)
        if cur is None:
            return case, prob
        budget, changed = 120, True
        while changed and budget > 0:
            changed = False
            for cand in self._reductions(case, en):
                budget -= 1
                if budget <= 0:
                    break
                p = self.still_fails(cand, pred)
                if p is not None:
                    case, cur, changed = cand, p, True
                    break
        return case, cur

    def _reductions(self, case, keep_einsum):
        w = case["workload"]
        for i, e in enumerate(w["einsums"]):
            if e["name"] != keep_einsum:
                c = copy.deepcopy(case)
                del c["workload"]["einsums"][i]
                yield c
        for i in range(len(case["renames"])):
            c = copy.deepcopy(case)
            del c["renames"][i]
            yield c
        for i, er in enumerate(case["renames"]):
            for fld in ("tensor_accesses", "rank_variables"):
                for j in range(len(er[fld])):
                    c = copy.deepcopy(case)
                    del c["renames"][i][fld][j]
                    yield c
        for i, e in enumerate(w["einsums"]):
            for j in range(len(e["renames"])):
                c = copy.deepcopy(case)
                del c["workload"]["einsums"][i]["renames"][j]
                yield c
            for j in range(len(e["accesses"])):
                if len(e["accesses"]) > 1:
                    c = copy.deepcopy(case)
                    del c["workload"]["einsums"][i]["accesses"][j]
                    yield c

        def rename_slots(c):
            for er in c["renames"]:
                for fld in ("tensor_accesses", "rank_variables"):
                    for r in er[fld]:
                        yield r
            for e in c["workload"]["einsums"]:
                for r in e["renames"]:
                    yield r

        n_slots = len(list(rename_slots(case)))
        for k in range(n_slots):
            r = list(rename_slots(case))[k]
            if r.get("expected_count") is not None:
                c = copy.deepcopy(case)
                list(rename_slots(c))[k]["expected_count"] = None
                yield c
            t = S.parse_expr(r["source"])
            for s in sorted((s for s in S.subtrees(t) if s != t), key=lambda s: len(json.dumps(s))):
                c = copy.deepcopy(case)
                list(rename_slots(c))[k]["source"] = S.render_full(s)
                yield c

    @staticmethod
    def has_per_einsum_entry(case, p):
        """a non-empty top-level entry named like the Einsum (for accept/reject problems: like any Einsum,
        because one Einsum's rejection rejects the workload)"""
        names = [x["name"] for x in case["workload"]["einsums"]] if p["kind"] == "workload" else [p["einsum"]]
        return any(er["name"] in names and er["name"] != "default" and (er["tensor_accesses"] or er["rank_variables"])
                   for er in case["renames"])

    def legacy_per_einsum(self, case, p) -> bool:
        """Is the observed outcome what the code produced before fix 9c6cc63 — the specified outcome of the
        same case with the top-level entries named like an Einsum dropped — while the specified outcome
        (with those entries) is different?"""
        if not self.has_per_einsum_entry(case, p):
            return False
        c2 = copy.deepcopy(case)
        names = [x["name"] for x in c2["workload"]["einsums"]]
        c2["renames"] = [er for er in c2["renames"] if er["name"] == "default" or er["name"] not in names]
        c2["exprs"], c2["dicts"] = [], []
        try:
            spec = self.lean(c2)["spec"]
        except Exception:
            return False
        if p["kind"] == "workload":
            legacy_ok = "err" not in spec
            return legacy_ok == (p["impl"]["status"] == "ok") and legacy_ok != (p["spec"] == "ok")
        se = S.lean_einsum(spec, p["einsum"])
        if se is None:
            return False
        lv = S.table_dict(se["table"]).get(p["name"])
        i0 = lambda v: v[0] if v else None  # noqa: E731
        return i0(lv) == i0(p["impl"]) != i0(p["spec"])

    def classify(self, case, p):
        e = next(x for x in case["workload"]["einsums"] if x["name"] == p["einsum"])
        if self.legacy_per_einsum(case, p):
            return KEY_PER_EINSUM, "a rename given in the top-level renames under the Einsum's own name is ignored"
        if p["kind"] == "name":
            g = self.groups(case, e, p["name"])
            return "rename-resolves-wrong:" + ("+".join(g) or "undefined"), f"rename {p['name']} does not resolve to the first of (Einsum-local, top-level[einsum], default)"
        # status mismatch
        impl_ok = p["impl"]["status"] == "ok"
        has_count = any(r.get("expected_count") is not None for er in case["renames"] for r in er["tensor_accesses"] + er["rank_variables"]) or \
            any(r.get("expected_count") is not None for x in case["workload"]["einsums"] for r in x["renames"])
        if impl_ok:
            return ("expected-count:mismatch-accepted" if has_count else "rename:invalid-accepted"), "a workload whose renames must be rejected is accepted"
        return ("expected-count:match-rejected" if has_count and p["impl"].get("class") == "wrong-count" else "rename:valid-rejected"), \
            "a workload with valid renames is rejected"

    def judge(self, case, problems):
        ctx = self.ctx
        seen = set()
        n_quick = 0
        for p in problems:
            # after a few fully minimised instances of the (repaired) per-Einsum mechanism, further instances are
            # classified directly by the same test the classifier applies to minimised cases
            if self.n_min >= 3 and self.legacy_per_einsum(case, p):
                n_quick += 1
                if n_quick <= 1:
                    ctx.fail(KEY_PER_EINSUM, "per-Einsum top-level renames ignored (not minimised)", {"case": case, "problem": p})
                continue
            self.n_min += 1
            mc, mp = self.minimise(case, p) if self.n_min <= 12 else (case, p)
            key, what = self.classify(mc, mp)
            sig = (key, json.dumps(mc, sort_keys=True))
            if sig in seen:
                continue
            seen.add(sig)
            ctx.fail(key, what, {"case": mc, "einsum": mp["einsum"], "problem": mp,
                                 "yaml": S.case_to_yaml(mc, [("X0", mp["name"], None)] if mp.get("name") else [])})


# --------------------------------------------------------------------------- entry
def run(ctx: Ctx):
    ctx.lean_gate()
    ctx.anchors(ANCHORS)
    ctx.cov["rule"] = (
        "random workloads of 1–4 Einsums; top-level renames with 0–2 'default' entries, an entry named like an Einsum for "
        "~45% of the Einsums, sometimes an entry for an unknown Einsum, in random order; each entry 0–3 tensor renames and "
        "sometimes a rank-variable rename (names disjoint from the tensor renames'); Einsum-local renames (dict or list form) for half of the Einsums; names from a pool of "
        "6 so that the three levels collide; sources = expression trees of depth 0–2 over the named sets, earlier renames and "
        "sometimes tensors of other Einsums (undefined → rejection); expected_count stated for ~1/3 of the renames from the "
        "specified sizes, 30% of them off by one. Observed per Einsum through Spec.from_yaml()._spec_eval_expressions(einsum_name): "
        "accept/reject, the resolved set of every rename name in the evaluated workload and through a Memory `keep: <name>`. "
        "non-trivial = the name is defined at one level at least"
    )
    ctx.cov["trusted_base"] += [
        "CPython's parser (ast.parse) supplies the source-expression trees for the model",
        "ruamel/jinja YAML loading and pydantic validation of the generated spec",
        "harness/props/_sets_common.py (YAML rendering of a case, reading the evaluated Spec back)",
    ]
    ctx.assumptions += [
        "expected_count is an integer literal (the repo also accepts an expression such as `1 if len(All) == 3 else 0`; its evaluation is C21's subject)",
        "rename names are distinct inside one list (a YAML mapping guarantees it; duplicates in the list form make the repo raise ValueError and are not generated)",
        "the order in which several rename definitions are evaluated is part of the specification (Einsum-local, top-level[einsum], default; tensor renames before rank-variable renames), because sources may refer to earlier renames",
        "a name given both as tensor rename and as rank-variable rename in the top-level section is outside the judge's domain (not generated; replays / corpus cases of that shape are compared with the model only)",
    ]
    import accelforge  # noqa: F401

    rn = Runner(ctx)
    rng = ctx.rng
    if not S.can_drive(ctx):
        return

    if ctx.replay:
        case = S.load_replay_case(ctx.replay)
        problems, _ = rn.evaluate(case)
        rn.judge(case, problems)
        return

    cdir = CORPUS_DIR / "C29"
    for f in sorted(cdir.glob("*.json")) if cdir.exists() else []:
        body = json.loads(f.read_text())
        case = body["case"]
        ctx.dist("corpus")
        problems, _ = rn.evaluate(case)
        # regression cases (witness of the repaired defect, same-name-in-both-kinds observation): judged like any other
        rn.judge(case, problems)

    budget_s = 900 if ctx.thorough else 60
    n_cases = 6000 if ctx.thorough else 500
    done = 0
    t_start = ctx.elapsed()
    for _ in range(n_cases):
        if ctx.elapsed() - t_start > budget_s:
            break
        case = gen_case(rng)
        if rng.random() < 0.6:
            add_expected_counts(rng, case, rn)
        ctx.dist(f"einsums={len(case['workload']['einsums'])}")
        ctx.dist("top-entries=" + ",".join(sorted({("default" if er["name"] == "default" else ("einsum" if er["name"].startswith("E") else "unknown")) for er in case["renames"]})))
        problems, _ = rn.evaluate(case)
        rn.judge(case, problems)
        done += 1
        if ctx.n_violations() >= 5:
            break
    ctx.cov["generated_cases"] = done

    if rn.tie_mismatch and ctx.n_violations() == 0:
        m = rn.tie_mismatch[0]
        ctx.broken(
            "correspondence of the Lean model with the code no longer checks (implementation satisfies the spec but "
            f"differs from the model) in {len(rn.tie_mismatch)} observation(s); first: {m['kind']}",
            {"first": m, "count": len(rn.tie_mismatch)},
        )
