"""C14 — join-stage accelerations never change the result.

Proof:  AFV/Props/C14.lean (thresholder_sound, thresholder_front, lookahead_sound, excess_retry_sound,
        intermediate_capacity_sound, staged_eq_joinExact_partial, staged_eq_joinExact_resource_usage, staged_objective_front,
        staged_noGap, staged_valid; witness staged_counterexample for the retained-reservation-column case of the abstract model).
Tie:    three-way correspondence on real tables: the public staged join (dirty rounds under resource/objective thresholds,
        optimality-threshold filter, lookahead, untracked memories, reservation combining) vs ONE exact join with the
        accelerations that can be switched off switched off (`clean_compress_and_join_pmappings(for_model=True)`,
        `_combine_reservations=False`) vs the Lean front of the tuple oracle (every combination of one row per Einsum joined alone,
        RESOURCE_USAGE on so that no memory is untracked).  The lookahead cannot be switched off from Python (the parameter is
        overwritten inside the loop), so the tuple oracle is the reference for it.  Specs emphasise tight GlobalBuffers; metric
        sets with and without RESOURCE_USAGE and ENERGY_DELAY_PRODUCT; the progress messages of the joiner are parsed to record
        which acceleration paths ran (dirty pruning, thresholder built, dirty round failed, memory untracked, oversubscription
        retry).

NOTE (found while building this check, recorded in the evidence under `assumptions`): the relaxed-capacity rounds of
multi_strategy_join are dead code at mapper level on the current tree.  `excess_resource_tolerance` is set on the input
PmappingDataframes, but every derived frame is created through PmappingDataframe.update() / the constructor call inside merge_next,
neither of which passes it on (default 0).  prune_with_tolerance, filter_rows, copy and every merge therefore produce frames with
tolerance 0: limit_capacity never lets a row above 1.0 survive a merge, `joined` never has a reservation column with max > 1, and
the first round (tolerance 0.2) is always accepted — with an exact result, because the last join_strategy_2 round is exact.
Consequences: (a) the "Oversubscribed … Reducing threshold" retry can not be reached through the public join (branch counter
`oversubscribed-retry` stays 0; it is kept so that a future change that revives the path is exercised and judged);
(b) the abstract model's witness AFV.C14.staged_counterexample (a reservation column retained after a relaxed round keeps
objective-dominated rows) is not reproducible through join_pmappings today — it is reproducible on the PmappingDataframe class in
isolation (see the comment in AFV/Props/C14.lean).  Should it become reachable, the failing case is classified with the suffix
`+reservation-column-retained`.
A genuine violation that IS reachable: the final make_pareto inherits fast_pareto_mask's float32 row-sum tie (C11
`sum-key-not-strict`); with ≥ 3 varying compared columns (e.g. ENERGY, LATENCY, one reservation column under RESOURCE_USAGE) a
dominated row is returned by the staged and by the exact join alike: key `dominated-row-returned:float32-row-sum-tie`
(known_findings.jsonl; replayed from corpus/C14/float32-row-sum-tie.json on every run).
"""
from __future__ import annotations

from harness.core import Ctx
from harness import joincheck as JC
from harness import joinlib as JL

ANCHORS = JC.ANCHORS
METRIC_SETS = [["ENERGY"], ["ENERGY", "LATENCY"], ["ENERGY_DELAY_PRODUCT"], ["ENERGY", "RESOURCE_USAGE"],
               ["ENERGY", "LATENCY", "RESOURCE_USAGE"], ["LATENCY"], ["ENERGY_DELAY_PRODUCT", "RESOURCE_USAGE"]]


def plan(rng, thorough):
    shapes = [("chain", 2), ("chain", 2), ("chain", 3), ("chain", 2), "fork", ("chain", 2), "merge", ("chain", 2)]
    n = 64 if thorough else 12
    jobs = []
    msets = list(METRIC_SETS)
    rng.shuffle(msets)
    for i in range(n):
        sh = shapes[i % len(shapes)]
        shape, ne = (sh, 3) if isinstance(sh, str) else sh
        p = JL.gen_join_params(rng, n_einsums=ne, shape=shape, tight=rng.random() < 0.8, levels=None if thorough else (3 if i == 7 else 2))
        tm = msets[i % len(msets)]
        toggled = sorted(set(tm) ^ {"RESOURCE_USAGE"})
        cases = []
        for oi in range(2 if shape != "chain" else 1):
            cases.append({"metrics": sorted(tm), "order_index": oi, "sub": "all", "exact": True})
            cases.append({"metrics": sorted(tm), "order_index": oi, "sub": "all", "exact": False, "combine_reservations": False})
            cases.append({"metrics": toggled, "order_index": oi, "sub": "all", "exact": True})
            cases.append({"metrics": sorted(tm), "order_index": oi, "sub": "rows", "sub_rows": 10 if ne == 2 else 5, "exact": True})
            cases.append({"metrics": sorted(tm), "order_index": oi, "sub": "groups", "sub_rows": 10 if ne == 2 else 5, "exact": True})
        jobs.append({"params": p, "table_metrics": tm, "seed": rng.randrange(1 << 30), "max_rows": 24 if ne == 2 else 8,
                     "cases": cases, "shrink_s": 20})
    return jobs


def run(ctx: Ctx):
    ctx.cov["rule"] = ("seeded small specs as in C13 with 80 % tight GlobalBuffers; table metrics over 7 sets incl. EDP and RESOURCE_USAGE; "
                       "per spec and Einsum order: staged join on all rows (reservation combining on and off), with RESOURCE_USAGE "
                       "toggled, on row and group subsets; each compared with the internal exact join and with the Lean front of the "
                       "tuple oracle. non-trivial = ≥ 2 combinations and (some combination rejected or dominated)")
    JC.run_check(ctx, plan)
    ctx.assumptions.append(
        "the oversubscription-retry path of multi_strategy_join (relaxed capacity rounds) is recorded in model_branches_hit when it runs; "
        "on the current code excess_resource_tolerance is not propagated through PmappingDataframe.update()/merge_next, so relaxed "
        "rounds never see a row above capacity and the retry is not reachable through the public join")
