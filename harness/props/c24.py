"""C24 — workload geometry matches the enumeration of the iteration space.

Proof:   lean/AFV/Props/C24.lean
Model:   lean/AFV/Model/Geometry.lean   boxes, affine projections, images by enumeration; what the code does with
         islpy's answers (max-min+1, product, error unless box) and the sympy side (coefficient, evaluation at shape-1).
Tie:     random workloads (1-3 Einsums, 2-5 rank variables with 1..6 values and lower bounds -1..2, tensors of 1-3 ranks,
         projections  a*x + b*y + c  with coefficients -2..3, constants -2..3, shared intermediate tensors) through the real
             get_rank_variable_bounds, Workload.n_computes, Workload.get_tensor_size,
             get_stride_and_halo_of_einsum, compute_dense_tile_occupancy
         against the Lean driver's enumeration of the box and of its images.  The property (via the proved specs) is the
         judge: bounds/operation counts = box; size = |image| or an error when the image is not a box; stride = step;
         halo = extra extent; dense occupancy = bounding box of the tile's image.
"""
from __future__ import annotations

import json
import os

from harness.core import CORPUS_DIR, VERIF, Ctx, HarnessError

ANCHORS = [
    "accelforge.frontend._workload_isl._isl:get_rank_variable_bounds",
    "accelforge.frontend._workload_isl._isl:get_dim_bounds",
    "accelforge.frontend._workload_isl._isl:_card_box",
    "accelforge.frontend._workload_isl._isl:get_tensor_size",
    "accelforge.frontend._workload_isl._isl:get_operation_space_size",
    "accelforge.frontend._workload_isl._isl:get_tensor_data_space",
    "accelforge.frontend._workload_isl._isl:get_einsum_operation_space",
    "accelforge.frontend._workload_isl._symbolic:get_stride_and_halo_of_einsum",
    "accelforge.frontend._workload_isl._symbolic:compute_rank_occupancy",
    "accelforge.frontend._workload_isl._symbolic:compute_dense_tile_occupancy",
    "accelforge.frontend.workload:Workload.get_iteration_space_shape_isl_string",
    "accelforge.frontend.workload:Workload.n_computes",
]

VARS = ["m", "n", "k", "p", "q", "r", "s", "c"]


# ------------------------------------------------------------------------------------------------------ generation
def render_affine(rng, terms, const):
    """terms: [(coeff, var)] → a string ISL and sympy both read as that affine form."""
    parts = []
    for a, v in terms:
        if a == 1 and rng.random() < 0.8:
            parts.append(("+", v))
        elif a == -1 and rng.random() < 0.8:
            parts.append(("-", v))
        elif a < 0:
            parts.append(("-", f"{-a}*{v}"))
        else:
            parts.append(("+", f"{a}*{v}"))
    if const > 0:
        parts.append(("+", str(const)))
    elif const < 0:
        parts.append(("-", str(-const)))
    if rng.random() < 0.5:
        rng.shuffle(parts)
    # a leading minus is fine for ISL/sympy, but keep a positive term first when there is one (readability)
    for i, (sg, _) in enumerate(parts):
        if sg == "+":
            parts.insert(0, parts.pop(i))
            break
    s = ""
    for i, (sg, t) in enumerate(parts):
        if i == 0:
            s = t if sg == "+" else "-" + t
        else:
            s += f" {sg} {t}" if rng.random() < 0.7 else f"{sg}{t}"
    return s


def gen_workload(rng, hard: bool):
    """Returns a dict describing the workload (JSON-able), from which both sides are built."""
    nv = rng.randint(2, 5)
    vars_ = rng.sample(VARS, nv)
    box = {}
    for v in vars_:
        n = rng.choice([1, 2, 2, 3, 3, 4, 4, 5, 6])
        lo = 0 if rng.random() < 0.75 else rng.choice([-1, 1, 2])
        box[v] = [lo, n]
    n_e = rng.randint(1, 3)
    einsums = []
    prev_out = None
    tcount = 0
    rank_names = {}  # tensor -> list of rank names
    for ei in range(n_e):
        evars = rng.sample(vars_, rng.randint(2, min(4, nv)))
        accesses = []
        n_in = rng.randint(1, 3)

        def gen_rank(direct_ok=True):
            r = rng.random()
            if direct_ok and r < 0.45:
                v = rng.choice(evars)
                return {"terms": [[1, v]], "const": 0, "direct": True}
            nt = 1 if r < 0.6 else 2
            vs = rng.sample(evars, min(nt, len(evars)))
            lo_c, hi_c = (-2, 3) if hard else (0, 3)
            terms = []
            for v in vs:
                a = rng.randint(lo_c, hi_c)
                if a == 0 and rng.random() < 0.8:
                    a = 1
                terms.append([a, v])
            const = rng.choice([0, 0, 0, 1, 2, 3, -1, -2]) if hard else rng.choice([0, 0, 0, 0, 1])
            return {"terms": terms, "const": const, "direct": False}

        def new_tensor(output):
            nonlocal tcount
            name = f"T{tcount}"
            tcount += 1
            nr = rng.randint(1, 3)
            ranks = []
            used_direct = set()
            for ri in range(nr):
                rk = gen_rank()
                if rk["direct"]:
                    v = rk["terms"][0][1]
                    if v in used_direct:
                        rk = gen_rank(direct_ok=False)
                    else:
                        used_direct.add(v)
                ranks.append(rk)
            rank_names[name] = [
                (rk["terms"][0][1].upper() if rk["direct"] else f"{name}R{ri}") for ri, rk in enumerate(ranks)
            ]
            return {"name": name, "ranks": ranks, "output": output}

        for ii in range(n_in):
            if ii == 0 and prev_out is not None and rng.random() < 0.7:
                # consume the previous Einsum's output with fresh projections but the same rank names
                names = rank_names[prev_out]
                ranks = []
                for rn in names:
                    if len(rn) == 1 and rn.lower() in evars and rng.random() < 0.6:
                        ranks.append({"terms": [[1, rn.lower()]], "const": 0, "direct": True})
                    else:
                        rk = gen_rank(direct_ok=False)
                        ranks.append(rk)
                accesses.append({"name": prev_out, "ranks": ranks, "output": False})
            else:
                accesses.append(new_tensor(False))
        out = new_tensor(True)
        accesses.append(out)
        prev_out = out["name"]
        # every chosen variable must occur in some projection, otherwise it is not a rank variable of the Einsum
        used = {v for a in accesses for rk in a["ranks"] for _, v in rk["terms"]}
        evars = [v for v in evars if v in used]
        einsums.append({"name": out["name"], "vars": evars, "accesses": accesses})
    # how each bound is declared
    decl = {}
    for v in box:
        lo, n = box[v]
        decl[v] = rng.choice(["lt", "lt", "le", "ge-and", "einsum"]) if True else "lt"
    return {"box": box, "einsums": einsums, "rank_names": rank_names, "decl": decl,
            "concise": rng.random() < 0.5, "seed_note": "generated"}


def bound_expr(v, lo, n, how):
    hi = lo + n
    if how == "le":
        return f"{lo} <= {v} <= {hi - 1}"
    if how == "ge-and":
        return f"{v} >= {lo} and {v} < {hi}"
    return f"{lo} <= {v} < {hi}"


def build_workload(W, desc, rng_render):
    """desc → real Workload.  Rendering of expressions uses its own rng so that shrinking keeps strings stable."""
    shape = {}
    einsum_shapes = {}
    for v, (lo, n) in desc["box"].items():
        how = desc["decl"][v]
        if how == "einsum":
            einsum_shapes[v] = bound_expr(v, lo, n, "lt")
        else:
            shape[v] = bound_expr(v, lo, n, how)
    es = []
    exprs = {}
    for e in desc["einsums"]:
        tas = []
        for a in e["accesses"]:
            proj = {}
            for rn, rk in zip(desc["rank_names"][a["name"]], a["ranks"]):
                if rk["direct"]:
                    s = rk["terms"][0][1]
                else:
                    s = render_affine(rng_render, [(c, v) for c, v in rk["terms"]], rk["const"])
                proj[rn] = s
                exprs[(e["name"], a["name"], rn)] = s
            ta = {"name": a["name"], "projection": proj}
            if a["output"]:
                ta["output"] = True
            tas.append(ta)
        ent = {"name": e["name"], "tensor_accesses": tas,
               "iteration_space_shape": [einsum_shapes[v] for v in e["vars"] if v in einsum_shapes]}
        if desc["concise"]:
            ref = lambda ta: ta["name"] + "[" + ", ".join(
                (v if (k == v.upper() and v.isidentifier()) else f"{k}: {v}") for k, v in ta["projection"].items()) + "]"
            outs = [ta for ta in tas if ta.get("output")]
            ins = [ta for ta in tas if not ta.get("output")]
            ent = {"einsum": ref(outs[0]) + " = " + " * ".join(ref(t) for t in ins),
                   "iteration_space_shape": ent["iteration_space_shape"]}
        es.append(ent)
    w = W.Workload(einsums=es, iteration_space_shape=shape, bits_per_value={"All": 8})
    return w, exprs


def affine_req(rk, evars):
    co = {v: 0 for v in evars}
    for a, v in rk["terms"]:
        co[v] += a
    return {"coeffs": [co[v] for v in evars], "const": rk["const"]}


# ------------------------------------------------------------------------------------------------------------ check
def run(ctx: Ctx):
    ctx.lean_gate()
    ctx.anchors(ANCHORS)
    ctx.cov["rule"] = (
        "random workloads: 1-3 Einsums over 2-5 rank variables (1..6 values, lower bound 0 mostly, else -1/1/2; bounds declared "
        "as 'lo <= v < hi', 'lo <= v <= hi-1', 'v >= lo and v < hi', at workload or Einsum level), 1-3 inputs + 1 output per Einsum, "
        "1-3 ranks per tensor, each rank a direct variable or a*x [+ b*y] + c; stream 'plain': a,b in 0..3, c in {0,1}; "
        "stream 'hard' (hypothesis-directed): a,b in -2..3, c in -2..3; intermediate tensors re-read with different projections; "
        "concise or verbose notation. non-trivial = some rank is an expression with two variables, a coefficient > 1 or a constant"
    )
    ctx.cov["trusted_base"] += [
        "islpy (isl.Set parsing, apply, intersect, dim_min/dim_max, is_box) — an oracle; its answers are compared with enumeration on every case",
        "sympy (parse_expr, coeff, xreplace) — exercised, not modelled",
    ]
    ctx.assumptions += [
        "box-shaped iteration spaces only (the property's hypothesis); non-box operation spaces are not generated",
        "affine projections only; sizes small enough to enumerate (≤ 6 per variable, ≤ 5 variables)",
        "islpy in this environment has no barvinok (`card`): non-box images must raise; with barvinok the code returns a count, "
        "which the harness accepts when it equals the enumerated cardinality",
    ]
    import importlib
    import random

    W = importlib.import_module("accelforge.frontend.workload")
    ISL = importlib.import_module("accelforge.frontend._workload_isl._isl")
    SYM = importlib.import_module("accelforge.frontend._workload_isl._symbolic")
    drv = ctx.driver()
    rng = ctx.rng
    failures: dict = {}
    mismatches = []

    def fail(key, what, replay):
        size = len(json.dumps(replay, default=str))
        f = failures.setdefault(key, [0, what, replay, size])
        f[0] += 1
        if size < f[3]:
            f[2], f[3] = replay, size

    def check_workload(desc, stream, render_seed):
        try:
            w, exprs = build_workload(W, desc, random.Random(render_seed))
        except Exception as e:
            raise HarnessError(f"generator produced a workload the front end rejects: {type(e).__name__}: {e}\n{json.dumps(desc)}")
        box = desc["box"]
        nontrivial = False
        branches = set()
        base = {"workload": desc, "render_seed": render_seed, "stream": stream}
        total_ops = 0
        for e in desc["einsums"]:
            ename = e["name"]
            evars = e["vars"]
            ebox = [box[v] for v in evars]
            mb = drv.ask("C24", {"op": "box", "box": ebox})
            if "err" in mb:
                raise HarnessError(f"driver box: {mb}")
            want_bounds = {v: box[v][1] for v in evars}
            if mb["bounds"] != [box[v][1] for v in evars] or mb["ncomputes"] != mb["card"]:
                raise HarnessError(f"Lean model disagrees with its theorems box_card/bounds_eq: {mb} on {ebox}")
            # 1. rank variable bounds
            try:
                got = {str(k): int(v) for k, v in ISL.get_rank_variable_bounds(w, ename).items()}
            except Exception as ex:
                got = f"raise {type(ex).__name__}: {str(ex)[:200]}"
            if got != want_bounds:
                fail("rank-variable-bounds", "get_rank_variable_bounds differs from the enumerated iteration space",
                     {**base, "einsum": ename, "got": got, "want": want_bounds})
            # 2. operation count
            try:
                ops = int(w.n_computes(ename))
            except Exception as ex:
                ops = f"raise {type(ex).__name__}: {str(ex)[:200]}"
            if ops != mb["card"]:
                fail("operation-count", "n_computes differs from the number of points of the iteration space",
                     {**base, "einsum": ename, "got": ops, "want": mb["card"]})
            total_ops += mb["card"]
            # 4./5. stride, halo, dense tile occupancy
            try:
                sh = SYM.get_stride_and_halo_of_einsum(ename, w)
            except Exception as ex:
                sh = None
                fail("stride-halo-exception", "get_stride_and_halo_of_einsum raised on an affine workload",
                     {**base, "einsum": ename, "error": f"{type(ex).__name__}: {str(ex)[:300]}"})
            for a in e["accesses"]:
                tname = a["name"]
                rnames = desc["rank_names"][tname]
                proj = [affine_req(rk, evars) for rk in a["ranks"]]
                tile = [rng.randint(1, box[v][1]) for v in evars]
                ma = drv.ask("C24", {"op": "access", "box": ebox, "proj": proj, "tile": tile})
                if "err" in ma:
                    raise HarnessError(f"driver access: {ma}")
                for ri, (rn, rk) in enumerate(zip(rnames, a["ranks"])):
                    multi = len(rk["terms"]) > 1 or rk["const"] != 0 or any(abs(c) > 1 for c, _ in rk["terms"])
                    nontrivial = nontrivial or multi
                    for c, v in rk["terms"]:
                        k = evars.index(v)
                        m = ma["pairs"][ri][k]
                        if m["halo_spec"] != m["halo_closed"] or m["steps"] != [m["stride"]]:
                            raise HarnessError(f"Lean model disagrees with its theorems stride_step/halo_extent: {m}")
                        if sh is None:
                            continue
                        got = sh.get(tname, {}).get((rn, v))
                        if got is None:
                            fail("stride-halo-missing-pair", "no stride/halo entry for a (rank, rank variable) pair of the projection",
                                 {**base, "einsum": ename, "tensor": tname, "pair": [rn, v], "keys": [list(map(str, kk)) for kk in sh.get(tname, {})]})
                            continue
                        try:
                            g_stride, g_halo = int(got[0]), int(got[1])
                        except Exception:
                            g_stride, g_halo = str(got[0]), str(got[1])
                        info = {**base, "einsum": ename, "tensor": tname, "rank": rn, "rank_variable": v,
                                "expression": exprs[(ename, tname, rn)], "shape": {x: box[x][1] for x in evars},
                                "got": [g_stride, g_halo], "want_step": m["steps"], "want_halo": m["halo_spec"],
                                "model_of_code": [m["stride"], m["halo_code"]]}
                        if [g_stride] != m["steps"]:
                            fail("stride-not-step", "stride differs from the step of the projection in that rank variable", info)
                        if g_halo != m["halo_spec"]:
                            others = [(cc, vv) for cc, vv in rk["terms"] if vv != v]
                            neg = any(cc < 0 for cc, _ in others)
                            if not neg and rk["const"] != 0 and g_halo - rk["const"] == m["halo_spec"]:
                                key = "halo-includes-constant"
                            elif neg and g_halo == m["halo_code"]:
                                key = "halo-negative-coefficient"
                            else:
                                key = "halo-wrong"
                            fail(key, "halo differs from the extra extent of the projection (extent of the image with the variable fixed, minus 1)", info)
                            branches.add(key)
                        if (g_stride, g_halo) != (m["stride"], m["halo_code"]) and ([g_stride], g_halo) != (m["steps"], m["halo_spec"]):
                            mismatches.append({"what": "stride/halo vs model of the code", **info})
                # dense tile occupancy on a random tile
                try:
                    pe = SYM.get_projection_expr(w.einsums[ename], tname)
                    occ = SYM.compute_dense_tile_occupancy(pe, {v: t for v, t in zip(evars, tile)})
                    occ = int(occ)
                except Exception as ex:
                    occ = f"raise {type(ex).__name__}: {str(ex)[:200]}"
                if ma["occ_spec"] != ma["occ_image_bbox"]:
                    raise HarnessError(f"Lean spec occSpec differs from the bounding box of the enumerated image: {ma}")
                if occ != ma["occ_spec"]:
                    neg = any(cc < 0 for rk in a["ranks"] for cc, _ in rk["terms"])
                    cst = any(rk["const"] != 0 for rk in a["ranks"])
                    if occ == ma["occ_code"] and cst and not neg:
                        key = "occupancy-includes-constant"
                    elif occ == ma["occ_code"] and neg:
                        key = "occupancy-negative-coefficient"
                    else:
                        key = "occupancy-wrong"
                    fail(key, "dense tile occupancy differs from the number of points of the bounding box of the tile's image",
                         {**base, "einsum": ename, "tensor": tname, "tile": dict(zip(evars, tile)),
                          "projection": {rn: exprs[(ename, tname, rn)] for rn in rnames},
                          "got": occ, "want": ma["occ_spec"], "model_of_code": ma["occ_code"]})
                    branches.add(key)
                if occ != ma["occ_code"] and occ != ma["occ_spec"]:
                    mismatches.append({"what": "compute_dense_tile_occupancy vs model of the code", **base, "einsum": ename,
                                       "tensor": tname, "tile": tile, "got": occ, "model": ma["occ_code"]})
        # n_computes over the whole workload
        try:
            tot = int(w.n_computes())
        except Exception as ex:
            tot = f"raise {type(ex).__name__}"
        if tot != total_ops:
            fail("operation-count-total", "n_computes() differs from the sum over Einsums", {**base, "got": tot, "want": total_ops})
        # 3. tensor sizes
        tensors = {}
        for e in desc["einsums"]:
            for a in e["accesses"]:
                tensors.setdefault(a["name"], []).append((e, a))
        for tname, accs in tensors.items():
            writers = [(e, a) for e, a in accs if a["output"]]
            canon = writers or accs
            imgs = [{"box": [box[v] for v in e["vars"]], "proj": [affine_req(rk, e["vars"]) for rk in a["ranks"]]} for e, a in canon]
            mt = drv.ask("C24", {"op": "tensor", "images": imgs})
            if "err" in mt:
                raise HarnessError(f"driver tensor: {mt}")
            if mt["is_box"] and mt["size"] != mt["card"]:
                raise HarnessError(f"Lean model disagrees with its theorem image_box_card: {mt}")
            try:
                size = int(w.get_tensor_size(tname))
                outcome = "value"
            except RuntimeError as ex:
                size, outcome = f"RuntimeError: {str(ex)[:80]}", "error"
            except Exception as ex:
                size, outcome = f"{type(ex).__name__}: {str(ex)[:200]}", "error"
            info = {**base, "tensor": tname, "got": size, "enumerated_points": mt["card"], "image_is_box": mt["is_box"],
                    "extents": mt["extents"]}
            branches.add("size:" + ("box" if mt["is_box"] else ("empty" if mt["card"] == 0 else "non-box")) + "/" + outcome)
            if mt["card"] == 0:
                continue  # empty intersection of images: outside the property (no points to count, isl min/max undefined)
            if mt["is_box"]:
                if outcome == "error":
                    fail("size-error-on-box-image", "get_tensor_size raises although the image is a box", info)
                elif size != mt["card"]:
                    fail("size-wrong-on-box-image", "get_tensor_size differs from the number of projected points", info)
            else:
                if outcome == "value" and size != mt["card"]:
                    fail("size-wrong-on-non-box-image", "the image is not a box and get_tensor_size returns a wrong size instead of an error", info)
            model_out = mt["size"]
            if (outcome == "value") != (model_out is not None) or (outcome == "value" and size != model_out):
                if not (outcome == "value" and size == mt["card"]):  # a correct count of a non-box (barvinok) is fine
                    mismatches.append({"what": "get_tensor_size vs model of the code", **info, "model": model_out})
        ctx.case(desc, nontrivial=nontrivial, branches=sorted(branches) + [stream])
        ctx.dist(stream)
        ctx.dist(f"einsums={len(desc['einsums'])}")

    def flush():
        for key, (n, what, replay, _) in sorted(failures.items()):
            ctx.fail(key, what, {**replay, "cases_with_this_key_in_this_run": n})
        if mismatches:
            ctx.cov["model_mismatches"] = len(mismatches)
            ctx.cov["model_mismatch_examples"] = mismatches[:5]
            if ctx.n_violations() == 0:
                ctx.broken(
                    f"correspondence between _isl.py/_symbolic.py and the Lean model AFV.Geometry no longer checks ({len(mismatches)} cases) "
                    "and no input violating the property was found",
                    {"first": mismatches[:5]},
                )

    # ------------------------------------------------------------------ --replay FILE: re-run exactly that workload
    if ctx.replay:
        rp = ctx.replay if os.path.isabs(ctx.replay) else os.path.join(str(VERIF), ctx.replay)
        body = json.loads(open(rp).read())
        r = body.get("replay", body)
        if "workload" not in r:
            raise HarnessError(f"replay file {ctx.replay} has no workload")
        check_workload(r["workload"], "replay", r.get("render_seed", 0))
        flush()
        return

    # ------------------------------------------------------------------ corpus first
    for f in sorted((CORPUS_DIR / "C24").glob("*.json")):
        try:
            d = json.loads(f.read_text())
            check_workload(d["workload"], "corpus", d.get("render_seed", 0))
        except HarnessError:
            raise
        except Exception as e:
            raise HarnessError(f"bad corpus file {f}: {e}")

    # ------------------------------------------------------------------ the design's hand-found candidate, always replayed
    cand = {
        "box": {"m": [0, 4], "n": [0, 3], "k": [0, 2]},
        "einsums": [{"name": "T2", "vars": ["m", "n", "k"], "accesses": [
            {"name": "T0", "ranks": [{"terms": [[2, "m"], [1, "n"]], "const": 1, "direct": False},
                                     {"terms": [[1, "k"]], "const": 0, "direct": True}], "output": False},
            {"name": "T1", "ranks": [{"terms": [[1, "k"]], "const": 0, "direct": True},
                                     {"terms": [[1, "n"]], "const": 0, "direct": True}], "output": False},
            {"name": "T2", "ranks": [{"terms": [[1, "m"]], "const": 0, "direct": True},
                                     {"terms": [[1, "n"]], "const": 0, "direct": True}], "output": True}]}],
        "rank_names": {"T0": ["T0R0", "K"], "T1": ["K", "N"], "T2": ["M", "N"]},
        "decl": {"m": "lt", "n": "lt", "k": "lt"}, "concise": True,
    }
    check_workload(cand, "candidate", 0)
    cand2 = {
        "box": {"n": [0, 3], "k": [0, 2]},
        "einsums": [{"name": "T1", "vars": ["n", "k"], "accesses": [
            {"name": "T0", "ranks": [{"terms": [[3, "n"], [-2, "k"]], "const": 0, "direct": False}], "output": False},
            {"name": "T1", "ranks": [{"terms": [[1, "n"]], "const": 0, "direct": True},
                                     {"terms": [[1, "k"]], "const": 0, "direct": True}], "output": True}]}],
        "rank_names": {"T0": ["T0R0"], "T1": ["N", "K"]},
        "decl": {"n": "lt", "k": "lt"}, "concise": False,
    }
    check_workload(cand2, "candidate", 0)

    # ------------------------------------------------------------------ random streams
    n_plain = 400 if ctx.thorough else 70
    n_hard = 800 if ctx.thorough else 130
    for i in range(n_plain):
        check_workload(gen_workload(rng, hard=False), "plain", rng.randrange(1 << 30))
    for i in range(n_hard):
        check_workload(gen_workload(rng, hard=True), "hard", rng.randrange(1 << 30))

    # ------------------------------------------------------------------ interval condition: closed form vs enumeration (Lean side only)
    n_int = 3000 if ctx.thorough else 500
    reqs = []
    for _ in range(n_int):
        nt = rng.randint(1, 4)
        terms = sorted([rng.randint(1, 7), rng.randint(2, 5)] for _ in range(nt))
        reqs.append({"op": "interval", "terms": terms})
    for rq, rs in zip(reqs, drv.ask_many("C24", reqs)):
        if "err" in rs or rs["cond"] != rs["is_box"]:
            raise HarnessError(f"Lean closed-form interval condition disagrees with enumeration: {rq} {rs}")
    ctx.dist("interval-condition-selfcheck", n_int)

    flush()
