"""C23 — concise Einsum notation is equivalent to the verbose form; malformed strings are rejected.

Proof:   lean/AFV/Props/C23.lean
Model:   lean/AFV/Model/EinsumStr.lean   character-level scanners that mirror the regexes of
         workload.py:_parse_einsum_string/_parse_projection, the dict merge of _parse_einsum_entry and
         _projection_factory; printer `printWs`; the grammar of the property as the recogniser `recognise`.
Tie:     correspondence on ASCII strings.
           A  round trip   random well-formed verbose Einsums → Lean `printWs` (random style / blanks)
                           → real `_parse_einsum_string`, `Workload(einsums=[concise])` vs `Workload(einsums=[verbose])`
                           after `_spec_eval_expressions`; Lean `parse` and `verbose` compared with both.
           B  merge        concise string + extra tensor_accesses attributes (valid, conflicting, unknown, nameless)
                           → real `_parse_einsum_entry` / Workload vs Lean `parseEntry` and vs the verbose form.
           C  malformed    mutations of valid strings + random strings + (small scope) EVERY string over a small
                           alphabet up to a length bound: Lean `recognise` (the grammar) is the judge — an accepted
                           string that is not in the grammar is a failure; the parse result is compared with the model.
           D  odd Einsums  zero-rank tensors, reserved words, odd keys, duplicate tensor names, duplicate ranks:
                           both forms must agree (same result or both raise).
"""
from __future__ import annotations

import itertools
import json
import os

from harness.core import CORPUS_DIR, VERIF, Ctx, HarnessError

ANCHORS = [
    "accelforge.frontend.workload:_parse_einsum_string",
    "accelforge.frontend.workload:_parse_projection",
    "accelforge.frontend.workload:_parse_einsum_entry",
    "accelforge.frontend.workload:_projection_factory",
    "accelforge.frontend.workload:TensorAccess",
    "accelforge.frontend.workload:Workload.__init__",
]

BLANKS = [" ", " ", " ", "  ", "\t", "\n", "\r", "\x0b", "\x0c", "\x1c", "\x1d", "\x1e", "\x1f", " \t "]
TENSOR_NAMES = ["A", "B", "C", "D", "W", "I", "Z", "Y", "T0", "W53", "QK", "QK_softmax", "_t", "t_x", "X_", "Out9", "a1", "__w"]
RANK_VARS = ["m", "n", "k", "p", "q", "r", "s", "c", "h", "w", "b", "e", "d", "m2", "n_1", "kv", "p53", "x9_", "eqq", "lex", "andy"]
RANK_NAMES = ["M", "N", "K", "P", "Q", "H", "W", "K2", "P_out", "R", "S", "C", "B_", "EQ2", "ANDx", "Hh", "X9"]
RESERVED = ["eq", "ne", "lt", "gt", "le", "ge", "ng", "nl", "and", "or"]


# ----------------------------------------------------------------------------------------------- implementation side
class Impl:
    def __init__(self):
        import importlib

        self.W = importlib.import_module("accelforge.frontend.workload")
        self.Spec = importlib.import_module("accelforge.frontend.spec").Spec

    def parse_string(self, s):
        """('ok', canon) | ('raise', type)"""
        try:
            r = self.W._parse_einsum_string(s)
        except Exception as e:  # every exception is "rejected with an error"
            return ("raise", type(e).__name__)
        return ("ok", canon_parsed(r))

    def parse_entry(self, entry):
        import copy

        try:
            r = self.W._parse_einsum_entry(copy.deepcopy(entry))
        except Exception as e:
            return ("raise", type(e).__name__)
        return ("ok", r)

    def workload(self, entry):
        """Build a one-Einsum workload from a concise or verbose entry and evaluate it."""
        import copy

        try:
            w = self.W.Workload(einsums=[copy.deepcopy(entry)], bits_per_value={"All": 8})
            w = self.Spec(workload=w)._spec_eval_expressions(eval_arch=False).workload
        except Exception as e:
            return ("raise", type(e).__name__)
        return ("ok", canon_workload(w))


def canon_parsed(r):
    """Result of _parse_einsum_string → the model's JSON shape."""
    return {
        "name": r["name"],
        "tensor_accesses": [
            {"name": t["name"], "projection": [[k, v] for k, v in t["projection"].items()], "output": bool(t["output"])}
            for t in r["tensor_accesses"]
        ],
    }


def unordered(parsed):
    """The order of the accesses inside an Einsum is not part of the property: compare as a multiset."""
    if parsed is None:
        return None
    return (parsed["name"], sorted(json.dumps(t, sort_keys=True) for t in parsed["tensor_accesses"]))


def canon_workload(w):
    out = []
    for e in w.einsums:
        accs = sorted(
            (
                t.name,
                tuple((k, v) for k, v in t.projection.items()),
                bool(t.output),
                bool(t.persistent),
                str(t.bits_per_value),
                float(t.backing_storage_size_scale),
            )
            for t in e.tensor_accesses
        )
        out.append((e.name, tuple(accs), int(e.n_instances), bool(e.is_copy_operation)))
    return tuple(out)


def core_of(cw):
    """tensor names, projections, output flags only."""
    return tuple((n, tuple((a[0], a[1], a[2]) for a in accs)) for (n, accs, _, _) in cw)


def model_core(parsed):
    """Lean Parsed JSON → same shape as core_of(canon_workload(...))."""
    accs = sorted((t["name"], tuple((k, v) for k, v in t["projection"]), bool(t["output"])) for t in parsed["tensor_accesses"])
    return ((parsed["name"], tuple(accs)),)


# ------------------------------------------------------------------------------------------------------- generators
def gen_expr(rng, vars_):
    a, b = rng.choice(vars_), rng.choice(vars_)
    form = rng.randrange(9)
    if form == 0:
        return a
    if form == 1:
        return f"{a}+{b}"
    if form == 2:
        return f"{rng.randint(2, 4)}*{a}+{b}"
    if form == 3:
        return f"{rng.randint(2, 3)}*{a}+{b}+{rng.randint(1, 3)}"
    if form == 4:
        return f"{a}*{rng.randint(2, 3)}"
    if form == 5:
        return f"{a}+{b}-1"
    if form == 6:
        return f"({a}+{b})"
    if form == 7:
        return f"{a}-{b}"
    return f"{rng.randint(2, 9)}*{a}"


def gen_access(rng, name, output, vars_, min_ranks=1, max_ranks=4):
    nr = rng.randint(min_ranks, max_ranks)
    if rng.random() < 0.45:
        vs = rng.sample(vars_, min(nr, len(vars_)))
        return {"name": name, "projection": {"kind": "list", "items": vs}, "output": output}
    items, used = [], set()
    for _ in range(nr):
        if rng.random() < 0.5:
            v = rng.choice(vars_)
            k = v.upper()
            e = v
        else:
            k = rng.choice(RANK_NAMES)
            e = gen_expr(rng, vars_)
        if k in used:
            continue
        used.add(k)
        items.append([k, e])
    if not items and min_ranks > 0:
        v = rng.choice(vars_)
        items.append([v.upper(), v])
    return {"name": name, "projection": {"kind": "dict", "items": items}, "output": output}


def gen_einsum(rng, min_ranks=1):
    n_in = rng.randint(1, 4)
    names = rng.sample(TENSOR_NAMES, n_in + 1)
    vars_ = rng.sample(RANK_VARS, rng.randint(1, 6))
    out = gen_access(rng, names[0], True, vars_, min_ranks)
    ins = [gen_access(rng, n, False, vars_, min_ranks) for n in names[1:]]
    sty = [[rng.random() < 0.6 for _ in range(4)] for _ in range(n_in + 1)]
    return out, ins, sty


def gen_ws(rng, n, density=None):
    d = rng.choice([0.0, 0.15, 0.4, 0.9]) if density is None else density
    return [rng.choice(BLANKS) if rng.random() < d else "" for _ in range(n)]


def verbose_entry(out, ins):
    def acc(a):
        p = a["projection"]
        proj = list(p["items"]) if p["kind"] == "list" else {k: v for k, v in p["items"]}
        d = {"name": a["name"], "projection": proj}
        if a["output"]:
            d["output"] = True
        return d

    return {"name": out["name"], "tensor_accesses": [acc(a) for a in ins] + [acc(out)]}


MUT_JUNK = ["junk ", "x", "3", "foo", "_", "+", "-", "/", "@", ";", ".", "(", ")", "1+", "a b"]


def mutate(rng, s):
    """One malformed-looking edit of a valid concise string; returns (kind, string)."""
    kind = rng.randrange(16)
    pos = lambda ch: [i for i, c in enumerate(s) if c == ch]
    def at(ch):
        ps = pos(ch)
        return rng.choice(ps) if ps else None
    if kind == 0 and (i := at("]")) is not None:
        return "drop-close", s[:i] + s[i + 1 :]
    if kind == 1 and (i := at("[")) is not None:
        return "drop-open", s[:i] + s[i + 1 :]
    if kind == 2:
        # junk before a reference: a reference starts after '=' or '*' or at 0
        starts = [0] + [i + 1 for i, c in enumerate(s) if c in "=*"]
        i = rng.choice(starts)
        return "junk-before-ref", s[:i] + " " + rng.choice(MUT_JUNK) + " " + s[i:]
    if kind == 3 and (i := at("*")) is not None:
        return "missing-operator", s[:i] + " " + s[i + 1 :]
    if kind == 4 and (i := at("*")) is not None:
        return "duplicate-operator", s[:i] + rng.choice(["**", "* *", "* * *"]) + s[i + 1 :]
    if kind == 5 and (i := at("*")) is not None:
        return "wrong-operator", s[:i] + rng.choice(["+", ",", "-", "/", "@", "x", ".", ";"]) + s[i + 1 :]
    if kind == 6 and (i := at("=")) is not None:
        return "duplicate-equals", s[:i] + rng.choice(["==", "= =", "=*="]) + s[i + 1 :]
    if kind == 7 and (i := at("=")) is not None:
        return "missing-equals", s[:i] + rng.choice(["", " ", "*", "+=", ":"]).replace("+=", "+") + s[i + 1 :]
    if kind == 8:
        return "trailing-garbage", s + rng.choice([" foo", "]", "*", " * ", "[", "+1", ";", "X", " B[k", " = C[m]", ")", " [m]", "*[m]"])
    if kind == 9:
        return "leading-garbage", rng.choice(["*", "foo ", "[", "]", "3", "= ", "(", "+", "[m] "]) + s
    if kind == 10 and (i := at("[")) is not None:
        return "nested-open", s[: i + 1] + rng.choice(["[", "K:x[", "m,[", "K:[", "K: y[2"]) + s[i + 1 :]
    if kind == 11:
        # blank inside an identifier
        idx = [i for i in range(1, len(s)) if (s[i - 1].isalnum() or s[i - 1] == "_") and (s[i].isalnum() or s[i] == "_")]
        if idx:
            i = rng.choice(idx)
            return "blank-in-word", s[:i] + rng.choice(BLANKS) + s[i:]
    if kind == 12:
        return "empty", rng.choice(["", " ", "\t\n", "\x1c "])
    if kind == 13 and s:
        i = rng.randrange(len(s))
        return "delete-char", s[:i] + s[i + 1 :]
    if kind == 14:
        i = rng.randrange(len(s) + 1)
        return "insert-char", s[:i] + rng.choice("AZmk[]=*,:+ 1_(") + s[i:]
    if kind == 15 and (i := at("=")) is not None:
        return "second-einsum", s + rng.choice([" = ", "=", " * Q[m] = "]) + "C[m]"
    # fallback: random string over the alphabet
    n = rng.randint(1, 14)
    return "random-string", "".join(rng.choice("AZBmnk[]=*,: +12_") for _ in range(n))


def classify(an, plus_ok=False):
    """Key of an accepted string that is outside the grammar, from the driver's analysis.
    `plus_ok`: the string becomes grammatical when every `]+` is read as `]*` (an example workload of the
    repository separates tensor references with '+')."""
    if an["stripped"] == "":
        return "malformed-accepted:empty"
    if an["eq_count"] != 1:
        return "malformed-accepted:equals-count"
    if not an["lhs_ok"]:
        return "malformed-accepted:lhs"
    if not an["grammar_nows"]:
        if not an["rhs_covered"]:
            return "malformed-accepted:plus-separator" if plus_ok else "malformed-accepted:rhs-text-skipped"
        if not an["no_open"]:
            return "malformed-accepted:nested-open-bracket"
        return "malformed-accepted:other"
    if not an["no_split_word"]:
        return "malformed-accepted:blank-splits-word"
    return "malformed-accepted:other"


def shrink_string(s, still_fails, budget=400):
    """Greedy character deletion keeping `still_fails(s)` (which returns the same key)."""
    changed = True
    while changed and budget > 0:
        changed = False
        for i in range(len(s)):
            budget -= 1
            t = s[:i] + s[i + 1 :]
            if still_fails(t):
                s, changed = t, True
                break
            if budget <= 0:
                break
    return s


# ------------------------------------------------------------------------------------------------------------ check
def run(ctx: Ctx):
    ctx.lean_gate()
    ctx.anchors(ANCHORS)
    ctx.cov["rule"] = (
        "A: random verbose Einsums (1-4 inputs, 1-4 ranks, list and dict projections, simple and expression entries, "
        "shorthand/explicit style bits, blanks from Python's ASCII \\s set inserted at every non-word-splitting position) "
        "printed by the Lean printer; B: the same with extra tensor_accesses attributes (valid/conflicting/unknown/nameless); "
        "C: 16 kinds of malformed edits, random strings, and every string over a 9-letter alphabet up to a length bound; "
        "D: zero-rank tensors, reserved words, odd keys, duplicate tensor names/ranks. "
        "non-trivial = at least 2 inputs or an expression entry or blanks (A), an attribute that is merged or rejected (B), "
        "a string outside the grammar or one the implementation accepts (C), any (D)"
    )
    ctx.cov["trusted_base"] += [
        "Python `re` on ASCII input is modelled by the hand-written scanners of AFV/Model/EinsumStr.lean "
        "(validated against the real regexes on every generated string and exhaustively on all short strings)",
        "pydantic / EvalableModel construction and Spec._spec_eval_expressions (observed, not modelled)",
    ]
    ctx.assumptions += [
        "ASCII only: Python's \\w, \\s, str.isupper/islower/upper and str.isidentifier also accept non-ASCII characters; not modelled, not generated",
        "extra attribute VALUES are opaque to the model (only keys and target names matter for the merge)",
        "parse_print assumes a well-formed Einsum (WF): >=1 input, one output named like the Einsum, >=1 rank per tensor, "
        "identifiers outside CLIST_OPERATORS, expressions free of ',' ':' '[' ']' '=' and blanks; streams C/D cover the complement by testing",
    ]
    impl = Impl()
    drv = ctx.driver()
    rng = ctx.rng
    mismatches = []  # model ≠ implementation where the property is not (yet) known to fail
    failures: dict = {}  # key -> [count, what, smallest replay]

    def fail(key, what, replay, size=None):
        size = len(json.dumps(replay, default=str)) if size is None else size
        f = failures.setdefault(key, [0, what, replay, size])
        f[0] += 1
        if size < f[3]:
            f[2], f[3] = replay, size

    def analyse_many(strings):
        return drv.ask_many("C23", [{"op": "analyse", "s": s} for s in strings])

    strict_agree = [0, 0]  # implementation agrees with the repaired (strict) parser / with the current-code model
    entry_agree = [0, 0]

    def check_string(s, an, stream, meta=None):
        """Judge one string: grammar (spec) vs implementation; model vs implementation."""
        got = impl.parse_string(s)
        accepted = got[0] == "ok"
        in_grammar = an["grammar"]
        model = an["model"]
        strict = an["strict"]
        ctx.case({"s": s}, nontrivial=(not in_grammar) or accepted,
                 branches=[("grammar" if in_grammar else "not-grammar") + ("/accepted" if accepted else "/rejected")])
        if accepted and not in_grammar:
            def plus_ok(a):
                t2 = a["stripped"].replace("]+", "]*")
                return t2 != a["stripped"] and a["no_split_word"] and drv.ask("C23", {"op": "analyse", "s": t2})["grammar"]

            key = classify(an, plus_ok(an))

            def still(t):
                a2 = drv.ask("C23", {"op": "analyse", "s": t})
                return impl.parse_string(t)[0] == "ok" and not a2["grammar"] and classify(a2, plus_ok(a2)) == key

            m = shrink_string(s, still) if key not in failures else s
            fail(key, "a string outside the grammar  T[..] = T[..] (* T[..])*  is accepted instead of raising an error",
                     {"einsum_string": m, "original": s, "stream": stream, "meta": meta,
                      "implementation": impl.parse_string(m), "grammar_says": "malformed",
                      "repro": f"from accelforge.frontend.workload import _parse_einsum_string; print(_parse_einsum_string({m!r}))"},
                 size=len(m))
        # correspondence with the model of the current code / of the repaired code
        impl_res = got[1] if accepted else None
        ok_cur = unordered(impl_res) == unordered(model)
        ok_strict = unordered(impl_res) == unordered(strict)
        strict_agree[0] += ok_strict
        strict_agree[1] += ok_cur
        if not ok_cur and not ok_strict:
            mismatches.append({"s": s, "implementation": got, "model_current_code": model, "model_strict": strict, "stream": stream})
        return got

    def check_entry(entry, names, ventry):
        """One `{einsum: s, tensor_accesses: extras, …}` entry: property on the real code, model correspondence,
        and (when `ventry`, the verbose form with the same attributes, is given) concise+attributes vs verbose."""
        s = entry["einsum"]
        extras = entry.get("tensor_accesses", [])
        got = impl.parse_entry(entry)
        req_extras = [{"name": x.get("name"), "attrs": [[k, json.dumps(v)] for k, v in x.items() if k != "name"]} for x in extras]
        mm = drv.ask("C23", {"op": "entry", "s": s, "extras": req_extras})
        if "err" in mm:
            raise HarnessError(f"driver entry: {mm}")
        m = mm["current"]
        ctx.case({"B": s, "extras": extras}, nontrivial=bool(extras), branches=["merge-" + ("ok" if m else "reject")])
        base = impl.parse_string(s)
        # --- the property on the real code
        bad = [x for x in extras if "name" not in x or x["name"] not in names or "output" in x or "projection" in x]
        seen = {}
        dup = False
        for x in extras:
            if "name" in x:
                for k in x:
                    if k != "name":
                        dup = dup or (x["name"], k) in seen
                        seen[(x["name"], k)] = 1
        if got[0] == "ok":
            res = got[1]
            pitems = lambda pr: tuple(pr.items()) if isinstance(pr, dict) else ("not-a-dict", json.dumps(pr, default=str))
            core = lambda accs: sorted((t["name"], pitems(t["projection"]), bool(t["output"])) for t in accs)
            by_name = {}
            for t in base[1]["tensor_accesses"]:
                by_name[t["name"]] = (t["name"], tuple(tuple(kv) for kv in t["projection"]), t["output"])
            want_core = sorted(by_name.values())
            if base[0] != "ok" or core(res["tensor_accesses"]) != want_core or res["name"] != base[1]["name"]:
                fail("merge-changes-core", "merging extra attributes changed tensor names / projections / output flags",
                         {"entry": entry, "result": str(res), "string_parse": base})
            elif bad:
                fail("merge-accepts-conflict", "a conflicting / unknown / nameless tensor_accesses entry is accepted",
                         {"entry": entry, "result": str(res)})
            elif res.get("n_instances") != entry["n_instances"]:
                fail("merge-drops-einsum-attribute", "an Einsum-level attribute was lost in the merge", {"entry": entry, "result": str(res)})
        else:
            if base[0] == "ok" and not bad and not dup and len(set(names)) == len(names):
                fail("merge-rejects-valid", "valid extra attributes are rejected", {"entry": entry, "error": got})
        # --- correspondence with the model
        def entry_agrees(model):
            if (got[0] == "ok") != (model is not None):
                return False
            if model is None:
                return True
            res = got[1]
            impl_accs = [
                (t["name"], [[k, v] for k, v in t["projection"].items()] if isinstance(t["projection"], dict) else str(t["projection"]),
                 bool(t["output"]), [[k, json.dumps(v)] for k, v in t.items() if k not in ("name", "projection", "output")])
                for t in res["tensor_accesses"]
            ]
            model_accs = [(a["name"], a["projection"], a["output"], a["extra"]) for a in model["accesses"]]
            key = lambda t: json.dumps(t)
            return sorted(impl_accs, key=key) == sorted(model_accs, key=key) and res["name"] == model["name"]

        e_cur, e_strict = entry_agrees(mm["current"]), entry_agrees(mm["strict"])
        entry_agree[0] += e_strict
        entry_agree[1] += e_cur
        if not e_cur and not e_strict:
            mismatches.append({"what": "_parse_einsum_entry", "entry": entry, "implementation": str(got), "model": mm})
        # --- concise + extras vs verbose with the same attributes (Workload level), when everything is valid
        if ventry is not None and got[0] == "ok" and not bad and len(set(names)) == len(names):
            conc, verb = impl.workload(entry), impl.workload(ventry)
            if conc != verb:
                fail("concise-differs:merged-attributes", "concise+attributes and verbose forms evaluate differently",
                         {"entry": entry, "verbose": ventry, "concise_result": conc, "verbose_result": verb})



    def flush():
        for key, (n, what, replay, _) in sorted(failures.items()):
            ctx.fail(key, what, {**replay, "cases_with_this_key_in_this_run": n})
        ctx.cov["agreement"] = {"strings_with_repaired_parser": strict_agree[0], "strings_with_current_code_model": strict_agree[1],
                                "entries_with_repaired_parser": entry_agree[0], "entries_with_current_code_model": entry_agree[1]}
        if mismatches:
            ctx.cov["model_mismatches"] = len(mismatches)
            ctx.cov["model_mismatch_examples"] = mismatches[:8]
            if ctx.n_violations() == 0:
                ctx.broken(
                    f"correspondence between workload.py and the Lean model AFV.EinsumStr no longer checks ({len(mismatches)} cases; first shown) "
                    "and no input violating the property was found",
                    {"first": mismatches[:5]},
                )

    # ------------------------------------------------------------------ --replay FILE: re-run exactly that case
    if ctx.replay:
        rp = ctx.replay if os.path.isabs(ctx.replay) else os.path.join(str(VERIF), ctx.replay)
        body = json.loads(open(rp).read())
        r = body.get("replay", body)
        key = body.get("key", "replayed-case")
        if "entry" in r:
            base = impl.parse_string(r["entry"]["einsum"])
            names = [t["name"] for t in base[1]["tensor_accesses"]] if base[0] == "ok" else []
            check_entry(r["entry"], names, r.get("verbose"))
        elif "einsum_string" in r and "verbose" in r:
            conc, verb = impl.workload(r["einsum_string"]), impl.workload(r["verbose"])
            same = (conc[0] == verb[0] == "raise") or (conc[0] == verb[0] == "ok" and core_of(conc[1]) == core_of(verb[1]))
            ctx.case({"replay": r["einsum_string"]}, branches=["replay"])
            if not same:
                fail(key, body.get("what", "concise and verbose forms differ"),
                     {"einsum_string": r["einsum_string"], "verbose": r["verbose"], "concise_result": conc, "verbose_result": verb})
        elif "einsum_string" in r:
            s = r["einsum_string"]
            check_string(s, drv.ask("C23", {"op": "analyse", "s": s}), "replay")
        else:
            raise HarnessError(f"replay file {ctx.replay} has no einsum_string / entry")
        flush()
        return

    # ------------------------------------------------------------------ corpus
    corpus = sorted((CORPUS_DIR / "C23").glob("*.json"))
    corpus_strings = []
    for f in corpus:
        try:
            corpus_strings.append(json.loads(f.read_text())["einsum_string"])
        except Exception as e:  # a broken corpus file is a harness problem
            raise HarnessError(f"bad corpus file {f}: {e}")
    for s, an in zip(corpus_strings, analyse_many(corpus_strings)):
        ctx.dist("corpus")
        check_string(s, an, "corpus")

    # ------------------------------------------------------------------ stream A: round trip
    nA = 1500 if ctx.thorough else 300
    for it in range(nA):
        out, ins, sty = gen_einsum(rng)
        ws = gen_ws(rng, 200)
        pr = drv.ask("C23", {"op": "print", "out": out, "ins": ins, "sty": sty, "ws": ws})
        if "err" in pr:
            raise HarnessError(f"driver print: {pr}")
        s = pr["s"]
        an = drv.ask("C23", {"op": "analyse", "s": s})
        ctx.dist("A:roundtrip")
        ctx.dist(f"A:inputs={len(ins)}")
        has_expr = any(a["projection"]["kind"] == "dict" for a in ins + [out])
        nontrivial = len(ins) >= 2 or has_expr or s != pr["canon"]
        if pr["verbose"] is None:
            raise HarnessError(f"generator produced an Einsum the verbose model rejects: {out} {ins}")
        if not an["grammar"] or an["model"] != pr["verbose"]:
            # the theorem parse_print says this cannot happen for WF Einsums: generator outside WF?
            raise HarnessError(f"Lean model disagrees with its own theorem parse_print on {s!r}: {an['model']} vs {pr['verbose']}")
        got = check_string(s, an, "A", {"out": out, "ins": ins})
        conc = impl.workload(s)
        verb = impl.workload(verbose_entry(out, ins))
        ctx.case({"A": s}, nontrivial=nontrivial, branches=["roundtrip"])
        if verb[0] != "ok":
            fail("verbose-form-rejected", "a well-formed verbose Einsum is rejected by Workload()",
                     {"verbose": verbose_entry(out, ins), "error": verb})
            continue
        if conc[0] != "ok" or core_of(conc[1]) != core_of(verb[1]):
            fail("concise-differs:wellformed", "concise and verbose forms of a well-formed Einsum give different tensor names / projections / output flags",
                     {"einsum_string": s, "verbose": verbose_entry(out, ins), "concise_result": conc, "verbose_result": verb})
        elif conc[1] != verb[1]:
            fail("concise-differs:attributes", "concise and verbose forms differ in other evaluated attributes",
                     {"einsum_string": s, "verbose": verbose_entry(out, ins), "concise_result": conc, "verbose_result": verb})
        if core_of(verb[1]) != model_core(pr["verbose"]):
            mismatches.append({"what": "_projection_factory / verbose model", "verbose": verbose_entry(out, ins),
                               "implementation": core_of(verb[1]), "model": model_core(pr["verbose"])})

    # ------------------------------------------------------------------ stream B: merge of extra attributes
    nB = 1000 if ctx.thorough else 250
    ATTRS = [("persistent", True), ("persistent", False), ("bits_per_value", 4), ("bits_per_value", 16),
             ("backing_storage_size_scale", 2.0)]
    for it in range(nB):
        out, ins, sty = gen_einsum(rng)
        if rng.random() < 0.15:  # duplicate tensor name among the inputs: collapse order matters for the merge
            ins.append(dict(rng.choice(ins)))
        pr = drv.ask("C23", {"op": "print", "out": out, "ins": ins, "sty": sty, "ws": gen_ws(rng, 200)})
        s = pr["s"]
        names = [a["name"] for a in ins] + [out["name"]]
        extras, kinds = [], set()
        for _ in range(rng.randint(0, 3)):
            r = rng.random()
            if r < 0.55:
                n = rng.choice(names)
                kv = dict(rng.sample(ATTRS, rng.randint(1, 2)))
                extras.append({"name": n, **kv})
                kinds.add("valid")
            elif r < 0.7:
                extras.append({"name": rng.choice(names), "output": rng.random() < 0.5})
                kinds.add("conflict-output")
            elif r < 0.85:
                extras.append({"name": rng.choice(names), "projection": rng.choice([["m"], {"M": "m"}])})
                kinds.add("conflict-projection")
            elif r < 0.93:
                extras.append({"name": rng.choice(["Nope", "zz", "A_"]), "persistent": True})
                kinds.add("unknown-name")
            else:
                extras.append({"persistent": True})
                kinds.add("nameless")
        for k in kinds or {"none"}:
            ctx.dist(f"B:{k}")
        entry = {"einsum": s, "tensor_accesses": extras, "n_instances": rng.choice([1, 1, 3])}
        if rng.random() < 0.1:
            del entry["tensor_accesses"]
            extras = []
        ventry = verbose_entry(out, ins)
        for x in extras:
            for t in ventry["tensor_accesses"]:
                if "name" in x and t["name"] == x["name"]:
                    t.update({k: v for k, v in x.items() if k != "name"})
        ventry["n_instances"] = entry["n_instances"]
        check_entry(entry, names, ventry)

    # ------------------------------------------------------------------ stream C: malformed strings
    nC = 6000 if ctx.thorough else 1200
    batch, metas = [], []
    for it in range(nC):
        out, ins, sty = gen_einsum(rng)
        pr = drv.ask("C23", {"op": "print", "out": out, "ins": ins, "sty": sty, "ws": gen_ws(rng, 200, rng.choice([0.0, 0.0, 0.3]))})
        kind, s = mutate(rng, pr["s"])
        if rng.random() < 0.15:
            k2, s = mutate(rng, s)
            kind += "+" + k2
        batch.append(s)
        metas.append(kind)
    for s, kind, an in zip(batch, metas, analyse_many(batch)):
        ctx.dist("C:" + kind.split("+")[0])
        check_string(s, an, "C", kind)
    # small scope, exhaustive: every string over the alphabet up to length L
    alphabet = "Am[]=*,: "
    L = 6 if ctx.thorough else 5
    ex = ["".join(t) for n in range(0, L + 1) for t in itertools.product(alphabet, repeat=n)]
    for s, an in zip(ex, analyse_many(ex)):
        check_string(s, an, "C-exhaustive")
    ctx.dist("C:exhaustive", len(ex))
    ctx.cov["exhaustive"] = f"all {len(ex)} strings over {alphabet!r} up to length {L} (stream C)"

    # ------------------------------------------------------------------ stream D: odd Einsums, both forms must agree
    def both_forms(out, ins, key, what, sty=None):
        pr = drv.ask("C23", {"op": "print", "out": out, "ins": ins, "sty": sty or [], "ws": []})
        s = pr["canon"]
        conc, verb = impl.workload(s), impl.workload(verbose_entry(out, ins))
        ctx.case({"D": s}, branches=["odd:" + key.split(":")[-1]])
        ctx.dist("D:" + key.split(":")[-1])
        an = drv.ask("C23", {"op": "analyse", "s": s})
        mes = drv.ask("C23", {"op": "entry", "s": s, "extras": []})
        mcs = [("ok", model_core({"name": me["name"], "tensor_accesses": me["accesses"]})) if me else ("raise",)
               for me in (mes["current"], mes["strict"])]
        model_v = ("ok", model_core(pr["verbose"])) if pr["verbose"] else ("raise",)
        same = (conc[0] == verb[0] == "raise") or (conc[0] == verb[0] == "ok" and core_of(conc[1]) == core_of(verb[1]))
        if not same:
            fail(key, what, {"einsum_string": s, "verbose": verbose_entry(out, ins), "concise_result": conc, "verbose_result": verb})
        # model side: string parser and _projection_factory (evaluation-time rejections are outside the model)
        def conc_agrees(model_c):
            if conc[0] == "ok":
                return model_c[0] == "ok" and model_c[1] == core_of(conc[1])
            # rejected: by the string parser / the merge (modelled) or later, at evaluation (not modelled)
            return not (model_c[0] == "ok" and impl.parse_entry({"einsum": s})[0] != "ok")

        # where the two notations already disagree (a recorded failure of the property) the details of the wrong
        # answer are not compared: which of two accesses of the same tensor survives depends on their order
        if same and not any(conc_agrees(mc) for mc in mcs):
            mismatches.append({"what": "odd Einsum, concise", "s": s, "implementation": conc, "models": mcs})
        if verb[0] == "ok" and (model_v[0] != "ok" or model_v[1] != core_of(verb[1])):
            mismatches.append({"what": "odd Einsum, verbose", "s": s, "implementation": verb, "model": model_v})

    # the witnesses of zero_rank_counterexample / reserved_word_counterexample / duplicate_tensor_counterexample, always replayed
    WA = lambda n, kind, items, o: {"name": n, "projection": {"kind": kind, "items": items}, "output": o}
    both_forms(WA("Z", "list", ["m"], True), [WA("A", "list", [], False)], "concise-differs:zero-rank",
               "an Einsum with a rank-0 tensor is accepted in verbose form but its concise string is rejected")
    both_forms(WA("Z", "list", ["m"], True), [WA("A", "list", ["le"], False)], "concise-differs:reserved-identifier",
               "a rank variable / rank name that _ISL_REGEX reserves (or a leading underscore) is accepted in verbose form but rejected in concise form")
    both_forms(WA("Z", "list", ["m"], True), [WA("Z", "list", ["m"], False), WA("A", "list", ["m"], False)],
               "concise-differs:duplicate-tensor",
               "a tensor that appears twice in the concise string is silently collapsed to one access (the verbose form raises)")
    nD = 120 if ctx.thorough else 30
    for it in range(nD):
        # zero-rank tensor somewhere
        out, ins, sty = gen_einsum(rng)
        victim = rng.choice(ins + [out])
        victim["projection"] = {"kind": rng.choice(["list", "dict"]), "items": []}
        both_forms(out, ins, "concise-differs:zero-rank", "an Einsum with a rank-0 tensor is accepted in verbose form but its concise string is rejected", sty)
        # reserved word as rank variable (list form) or as rank name (dict form)
        out, ins, sty = gen_einsum(rng)
        victim = rng.choice(ins + [out])
        w = rng.choice(RESERVED)
        if rng.random() < 0.5:
            victim["projection"] = {"kind": "list", "items": [w] + ["m"]}
        else:
            victim["projection"] = {"kind": "dict", "items": [[rng.choice([w.upper(), "_K", "_"]), "m"], ["N", "n"]]}
        both_forms(out, ins, "concise-differs:reserved-identifier", "a rank variable / rank name that _ISL_REGEX reserves (or a leading underscore) is accepted in verbose form but rejected in concise form", sty)
        # duplicate tensor name
        out, ins, sty = gen_einsum(rng)
        if rng.random() < 0.5:
            ins.append({**rng.choice(ins)})
        else:
            ins.insert(rng.randrange(len(ins) + 1), {**out, "output": False})
        both_forms(out, ins, "concise-differs:duplicate-tensor", "a tensor that appears twice in the concise string is silently collapsed to one access (the verbose form raises)", sty)
        # duplicate rank variable in a list projection / upper-case variable / lower-case key: forms must agree
        out, ins, sty = gen_einsum(rng)
        victim = rng.choice(ins + [out])
        r = rng.randrange(4)
        if r == 0:
            victim["projection"] = {"kind": "list", "items": ["m", "n", "m"]}
        elif r == 1:
            victim["projection"] = {"kind": "list", "items": ["M", "n"]}
        elif r == 2:
            victim["projection"] = {"kind": "dict", "items": [["m", "m"], ["N", "n"]]}
        else:
            victim["projection"] = {"kind": "list", "items": ["m2", "x_", "_y"]}
        both_forms(out, ins, "concise-differs:odd-rank-spelling", "concise and verbose forms disagree on an oddly spelled rank / rank variable", sty)

    flush()
