"""C13 — joining pmappings equals the exhaustive combination of compatible pmappings.

Proof:  AFV/Props/C13.lean (prune_join_front, ffm_eq_joinExact, ffm_sound_complete, group_consolidate_sound, ffmG_eq_joinExact,
        perm_equiv …): for ANY list of tables the prune–join–limit_capacity–prune pipeline (also on grouped tables) returns exactly
        the Pareto front of all compatible within-capacity combinations of one row per table.
Tie:    tuple-oracle correspondence.  Real pmapping tables come from `make_pmappings` on small 2–3-Einsum specs (matmul chains,
        one-producer-two-consumers, two-producers-one-consumer; 2–3 memory levels; GlobalBuffer sized so that capacity binds).
        Every combination of ONE row per Einsum is joined alone by the real code (no pruning decision is involved in a join of
        one-row tables); the Lean driver computes the exact front of the resulting vectors; the public `join_pmappings` on the
        same tables — all rows, random row subsets, random group subsets, every Einsum order the data dependencies permit,
        with and without RESOURCE_USAGE — must return exactly that front (20 ppm tolerance for float32 sums).
        Objective columns of each combination are also re-added exactly from the rows; the code's decision on every pair of
        rows joined alone is cross-checked against an independent compatibility predicate (joinlib.indep_pair: same backing
        memory, same loops above it modulo permutation inside blocks between reservation stops, equal tile shapes).
Known finding (genuine, inherited from C11 `sum-key-not-strict`): with ≥ 3 varying compared columns the final make_pareto keeps a
        dominated row on a float32 row-sum tie: key `dominated-row-returned:float32-row-sum-tie`, corpus/C13/float32-row-sum-tie.json.
Not detectable by this tie (stated in the manifest): an error that changes the capacity verdict or the combined reservation of a
        SINGLE combination identically in one-row and many-row joins (e.g. dropping max_right_to_left in merge_next, `<` for `<=`
        in limit_capacity) — reservation combination is not independently modelled here.
"""
from __future__ import annotations

from harness.core import Ctx
from harness import joincheck as JC
from harness import joinlib as JL

ANCHORS = JC.ANCHORS
METRIC_SETS = [["ENERGY", "LATENCY"], ["ENERGY"], ["ENERGY", "LATENCY", "RESOURCE_USAGE"], ["LATENCY"], ["ENERGY", "RESOURCE_USAGE"],
               ["ENERGY", "LATENCY"]]


def plan(rng, thorough):
    shapes = [("chain", 2), ("chain", 2), "fork", ("chain", 2), "merge", ("chain", 2), ("chain", 3), ("chain", 2)]
    n = 64 if thorough else 10
    jobs = []
    for i in range(n):
        sh = shapes[i % len(shapes)]
        shape, ne = (sh, 3) if isinstance(sh, str) else sh
        p = JL.gen_join_params(rng, n_einsums=ne, shape=shape, levels=None if thorough else (3 if i == 7 else 2))
        tm = METRIC_SETS[rng.randrange(len(METRIC_SETS))]
        toggled = sorted(set(tm) ^ {"RESOURCE_USAGE"})
        cases = []
        for oi in range(2 if shape != "chain" else 1):
            cases.append({"metrics": sorted(tm), "order_index": oi, "sub": "all"})
            cases.append({"metrics": sorted(tm), "order_index": oi, "sub": "rows", "sub_rows": 6 if ne == 2 else 5})
            cases.append({"metrics": sorted(tm), "order_index": oi, "sub": "groups", "sub_rows": 8 if ne == 2 else 5})
            cases.append({"metrics": toggled, "order_index": oi, "sub": "all"})
            cases.append({"metrics": toggled, "order_index": oi, "sub": "rows", "sub_rows": 4})
        jobs.append({"params": p, "table_metrics": tm, "seed": rng.randrange(1 << 30), "max_rows": 20 if ne == 2 else 8,
                     "cases": cases, "shrink_s": 20})
    return jobs


def run(ctx: Ctx):
    ctx.cov["rule"] = ("seeded small specs: matmul chains of 2–3 Einsums, fork (one producer, two consumers) and merge (two producers, "
                       "one consumer) workloads, 2–3 memory levels, GlobalBuffer between half an intermediate tensor and 16 of them; "
                       "tables from make_pmappings (sub-sampled to ≤ 20 / ≤ 8 rows per Einsum); per spec: every permitted Einsum "
                       "order × {all rows, row subsets, group subsets} × {table metrics, RESOURCE_USAGE toggled}. non-trivial = ≥ 2 "
                       "combinations and (some combination rejected or some combination dominated)")
    JC.run_check(ctx, plan)
