"""C18 — relaxing the mapspace never makes the optimum worse.

Proof:  AFV/Props/C18.lean (relax_mono: the minimum over a superset is ≤ the minimum over the subset; and for each relaxation
        kind that every mapping valid under the tight spec stays valid with the same cost under the loose one).
Tie:    the real mapper is run on (tight spec, loose spec) pairs for ENERGY, LATENCY and EDP; the optimum of the loose
        spec must not exceed the optimum of the tight one (tolerance for float32 sums), and the loose spec must have a
        mapping whenever the tight one has.
"""
from __future__ import annotations

import copy
import json

from harness.core import Ctx
from harness import mapperlib as ML

ANCHORS = [
    "accelforge.mapper.FFM._make_pmappings.make_pmapping_templates.make_storages:make_storage_choices_all_levels",
    "accelforge.mapper.FFM._join_pmappings.pmapping_dataframe:PmappingDataframe.limit_capacity",
    "accelforge.mapper.FFM.main:map_workload_to_arch",
]
REL = 2e-5
METRICS = ["ENERGY", "LATENCY", "ENERGY_DELAY_PRODUCT"]


def relaxations(rng, base, small=False):
    """Yield (name, tight (params, knobs), loose (params, knobs)) pairs derived from a base spec."""
    out = []
    p = copy.deepcopy(base)
    # 1 larger memory
    t = copy.deepcopy(p)
    if t["glb_size"] == "inf":
        t["glb_size"] = rng.choice([3, 6, 12, 24]) * t["bits"]
    l = copy.deepcopy(t)
    l["glb_size"] = rng.choice([t["glb_size"] * 2, t["glb_size"] + t["bits"], "inf"])
    out.append(("larger-memory", (t, {}), (l, {})))
    # 2 smaller keep set
    t = copy.deepcopy(p); l = copy.deepcopy(p)
    if p["workload"].get("N_EINSUMS", 1) > 1:
        # the mapper requires that some memory is REQUIRED to hold every tensor (it raises "pmapping template … missing tensors"
        # otherwise, which it documents as a spec error): keep the intermediates required on both sides
        if rng.random() < 0.5:
            t["mm_keep"], l["mm_keep"] = "All", "~Intermediates"
        else:
            t["glb_keep"], l["glb_keep"] = "All", "~MainMemory"
    else:
        t["glb_keep"], l["glb_keep"] = rng.choice([("All", "~MainMemory"), ("~MainMemory", "Nothing"), ("Inputs", "Nothing"), ("All", "Outputs")])
    out.append(("smaller-keep", (t, {}), (l, {})))
    # 3 larger may_keep set
    t = copy.deepcopy(p); l = copy.deepcopy(p)
    t["glb_keep"] = l["glb_keep"] = "Nothing"
    t["glb_may_keep"], l["glb_may_keep"] = rng.choice([("Nothing", "All"), ("Inputs", "All"), ("Outputs", "All"), ("Nothing", "Inputs")])
    out.append(("larger-may-keep", (t, {}), (l, {})))
    # 4 removing loop-bound constraints
    t = copy.deepcopy(p)
    t["fanout"] = rng.choice([2, 4]); t["fanout_at"] = rng.choice(["glb", "mac"])
    if small:  # quick tier: spatial exploration of fused 3-level specs takes a minute per mapper run
        t["levels"] = 2
        if t["workload"]["kind"] == "matmuls":
            t["workload"]["N_EINSUMS"] = 1
    rv = "m" if t["workload"]["kind"] == "matmuls" else rng.choice(["a", "b", "c"])
    t["lb_expr"] = rng.choice([f"~{rv}", rv, "All"])
    t["lb_op"], t["lb_val"] = rng.choice([("==", 1), ("<=", 2), ("==", 2), ("product<=", 2)])
    l = copy.deepcopy(t); l["lb_op"] = ""
    out.append(("no-loop-bounds", (t, {}), (l, {})))
    # 5 higher fused-loop limit
    t = copy.deepcopy(p)
    if t["workload"]["kind"] != "matmuls" or t["workload"]["N_EINSUMS"] < 2:
        t["workload"] = {"kind": "matmuls", "N_EINSUMS": 2, "M": rng.choice([2, 4]), "KN": rng.choice([2, 4])}
    t["mm_keep"] = "~Intermediates"
    a, b = rng.choice([(0, 1), (0, "inf"), (1, "inf"), (0, 2)])
    out.append(("higher-fused-limit", (t, {"max_fused_loops": a}), (copy.deepcopy(t), {"max_fused_loops": b})))
    # 6 lower min_usage
    t = copy.deepcopy(p)
    t["fanout"] = rng.choice([2, 4]); t["fanout_at"] = rng.choice(["glb", "mac"])
    if small:
        t["levels"] = 2
        if t["workload"]["kind"] == "matmuls":
            t["workload"]["N_EINSUMS"] = 1
    t["min_usage"] = rng.choice([1, 0.5])
    l = copy.deepcopy(t); l["min_usage"] = 0
    out.append(("lower-min-usage", (t, {}), (l, {})))
    # 7 imperfect factorisation: rank sizes with few divisors and a tight buffer, where imperfect tiles matter
    t = copy.deepcopy(p)
    if t["workload"]["kind"] == "matmuls":
        t["workload"].update(M=rng.choice([5, 7, 9]), KN=rng.choice([3, 5, 6]))
        fp = 2 * t["workload"]["M"] * t["workload"]["KN"] + t["workload"]["KN"] ** 2
    else:
        t["workload"].update(A=rng.choice([5, 7]), B=rng.choice([5, 6]), C=3)
        w = t["workload"]; fp = w["A"] * w["C"] + w["C"] * w["B"] + w["A"] * w["B"]
    t["glb_size"] = max(3, fp // rng.choice([2, 3, 4])) * t["bits"]
    t["mm_energy"] = rng.choice([50, 100, 200])
    if small:  # quick tier: imperfect exploration is slow on three levels
        t["levels"] = 2
    out.append(("imperfect", (t, {}), (copy.deepcopy(t), {"explore_imperfect_temporal_loops": True})))
    return out


def work(job):
    import time as _t
    _t0 = _t.time()
    name, tight, loose = job
    res = {}
    for side, (params, knobs) in (("tight", tight), ("loose", loose)):
        res[side] = {}
        for m in METRICS:
            # the property speaks of the model-evaluated optimum: for the imperfect relaxation the explorer's compiled formulas
            # and the model can differ (ceilings), so the returned mappings are re-evaluated in detail there
            r = ML.run_mapper(params, [m], knobs=knobs, eval_in_detail=(name == "imperfect"))
            res[side][m] = {"error": r["error"], "best": ML.best(r["rows"], m), "n": len(r["rows"])}
            if name == "imperfect" and side == "loose":
                rj = ML.run_mapper(params, [m], knobs=knobs, eval_in_detail=False)
                res[side][m]["explorer_best"] = ML.best(rj["rows"], m)  # what the tile-shape explorer / joiner believed
    res["seconds"] = round(_t.time() - _t0, 1)
    return res


def run(ctx: Ctx):
    ctx.lean_gate()
    ctx.anchors(ANCHORS)
    ctx.cov["rule"] = ("seeded small specs × one of 7 relaxations (larger memory, smaller keep, larger may_keep, no loop bounds, higher "
                       "fused-loop limit, lower min_usage, imperfect factorisation) × {ENERGY, LATENCY, EDP}; non-trivial = both sides have "
                       "a mapping and the tight optimum is strictly worse for at least one metric")
    ctx.cov["tolerance"] = REL
    ctx.assumptions += ["objective values are float32/float64 sums: compared with relative tolerance %g" % REL]
    n_specs = 24 if ctx.thorough else 6
    per_spec = 7 if ctx.thorough else 2
    jobs = []
    for _ in range(n_specs):
        base = ML.gen_params(ctx.rng)
        rel = relaxations(ctx.rng, base, small=not ctx.thorough)
        ctx.rng.shuffle(rel)
        jobs += rel[:per_spec]
    if not ctx.thorough:  # make sure every relaxation kind is visited by the quick tier across seeds
        kinds = {j[0] for j in jobs}
        base = ML.gen_params(ctx.rng)
        jobs += [r for r in relaxations(ctx.rng, base, small=True) if r[0] not in kinds][:4]
        # the imperfect relaxation is always exercised twice (one matmul, one 3-rank Einsum)
        for kind in ("matmuls", "einsum3"):
            base = ML.gen_params(ctx.rng, kind=kind, n_einsums=1, levels=2)
            jobs += [r for r in relaxations(ctx.rng, base, small=True) if r[0] == "imperfect"]
    results = ML.pool_map(work, jobs, workers=8)
    drv = ctx.driver()
    ctx.cov["job_seconds"] = sorted(((res.get("seconds", 0), name, json.dumps(tight[0]["workload"]), tight[0]["levels"]) for (name, tight, loose), res in zip(jobs, results)), reverse=True)[:6]
    for (name, tight, loose), res in zip(jobs, results):
        ctx.dist(name)
        strictly = False
        both = True
        for m in METRICS:
            t, l = res["tight"][m], res["loose"][m]
            rep = {"relaxation": name, "metric": m, "tight": {"params": tight[0], "knobs": tight[1], **t},
                   "loose": {"params": loose[0], "knobs": loose[1], **l}}
            if t["best"] is None:
                both = False
                continue
            if l["best"] is None:
                both = False
                ctx.fail(f"relaxed-has-no-mapping:{name}", "the tight spec has a mapping but the relaxed spec has none", rep)
                continue
            v = drv.ask("C18", {"op": "le", "a": ML.to_int_vec([l["best"]])[0], "b": ML.to_int_vec([t["best"]])[0],
                                "tol_num": 1, "tol_den": 50000})
            if v is not True and v is not False:
                raise RuntimeError(f"driver: {v}")
            if not v:
                key = f"relaxed-worse:{name}"
                eb = l.get("explorer_best")
                if name == "imperfect" and eb is not None and eb <= t["best"] * (1 + REL):
                    # mechanism: the explorer's estimate of the returned imperfect mapping (average tile shapes) is no worse than
                    # the perfect optimum, but the model's evaluation of that mapping is
                    key = "relaxed-worse:imperfect:explorer-estimate-below-model-cost"
                ctx.fail(key, "the optimum got worse after relaxing the mapspace", rep)
            if l["best"] < t["best"] * (1 - 1e-6):
                strictly = True
        ctx.case({"relaxation": name, "tight": tight, "loose": loose, "res": res}, nontrivial=both and strictly,
                 branches=[name + ("-strict" if strictly else "-equal")])
