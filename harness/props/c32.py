"""C32 — the parallel runner returns each job's result in job order.

Proof:   AFV/Props/C32.lean  (collect_perm, dict_collect, sequential_path, parallel_eq_sequential)
Model:   AFV/Model/Collect.lean  (hand-written model of parallel()'s collection loop)
Tie:     correspondence.  The real `accelforge.util.parallel.parallel` is run
         (a) with joblib.Parallel replaced *in the harness process* by a scheduler that executes the
             submitted jobs and hands the results back in a seeded, arbitrary completion order — every
             arrival order is reachable deterministically, and the exact arrival sequence is what is sent
             to the Lean model;
         (b) with the real joblib, worker counts 2..16 and random sleeps.
         Observable compared: the returned list / dict / generator contents.
"""
from __future__ import annotations

import time

from harness.core import Ctx

ANCHORS = ["accelforge.util.parallel:parallel", "accelforge.util.parallel:_dict_job"]


def _job(x, sleep=0.0):
    if sleep:
        time.sleep(sleep)
    return x * 7 + 3


class FakeParallel:
    """Stands in for joblib.Parallel: runs jobs, yields results in a chosen completion order."""

    rng = None
    log = None  # list of arrival sequences

    def __init__(self, n_jobs=None, return_as="list", **kw):
        self.return_as = return_as

    def __call__(self, jobs):
        jobs = list(jobs)
        results = [f(*a, **k) for (f, a, k) in jobs]
        order = list(range(len(results)))
        if self.return_as == "generator_unordered":
            FakeParallel.rng.shuffle(order)
        out = [results[i] for i in order]
        FakeParallel.log.append(out)
        if self.return_as == "list":
            return out
        return iter(out)


def run(ctx: Ctx):
    ctx.lean_gate()
    ctx.anchors(ANCHORS)
    ctx.cov["rule"] = (
        "job lists of length 0..64 returning distinct integers; completion order = seeded permutation injected "
        "through a stand-in for joblib.Parallel (stream A) or real joblib with random sleeps and 2..16 workers (stream B); "
        "list, dict, generator and generator_unordered modes. non-trivial = at least 2 jobs and a non-identity arrival order"
    )
    ctx.cov["trusted_base"] += [
        "joblib delivers each submitted job's return value exactly once (stream B exercises it, the theorem assumes it)",
        "stand-in scheduler in harness/props/c32.py (stream A)",
    ]
    ctx.assumptions += [
        "process scheduling and joblib internals are runtime behaviour: explored (stream B), not proved",
        "model covers the collection logic of parallel(): tagging, slot assignment, dict rebuild, sequential shortcut",
    ]
    import importlib

    P = importlib.import_module("accelforge.util.parallel")
    from joblib import delayed

    drv = ctx.driver()
    rng = ctx.rng
    real_parallel = P.Parallel
    n_cases = 4000 if ctx.thorough else 600

    # ---------------- stream A: injected completion orders
    corr_broken = []
    FakeParallel.rng = rng
    P.Parallel = FakeParallel
    try:
        lengths = list(range(0, 9)) * 3 + [rng.randint(0, 64) for _ in range(n_cases)]
        for n in lengths:
            mode = rng.choice(["list", "list", "dict", "generator", "generator_unordered", "return_list"])
            n_jobs = rng.choice([1, 2, 3, 8, 16])
            xs = rng.sample(range(-1000, 1000), n)
            expect = [_job(x) for x in xs]
            FakeParallel.log = []
            ctx.dist(f"mode={mode}")
            ctx.dist(f"n_jobs={'1' if n_jobs == 1 else '>1'}")
            try:
                if mode == "dict":
                    keys = [f"k{j}" for j in rng.sample(range(10 * n + 1), n)]
                    jobs = {k: delayed(_job)(x) for k, x in zip(keys, xs)}
                    got = P.parallel(jobs, n_jobs=n_jobs)
                    got_c = [[k, v] for k, v in got.items()]
                    want = [[k, v] for k, v in zip(keys, expect)]
                    if FakeParallel.log:
                        arrivals = [[k, v] for (k, v) in FakeParallel.log[-1]]
                        m = drv.ask("C32", {"op": "dict", "keys": keys, "arrivals": arrivals})
                    else:  # sequential shortcut inside the recursive call
                        arrivals = None
                        m = want
                    key = "dict-map"
                else:
                    jobs = [delayed(_job)(x) for x in xs]
                    ra = {"list": None, "return_list": "list"}.get(mode, mode)
                    got = P.parallel(jobs, n_jobs=n_jobs, return_as=ra)
                    got_c = list(got)
                    want = expect
                    arrivals = FakeParallel.log[-1] if FakeParallel.log else None
                    if mode == "generator_unordered" and arrivals is not None:
                        # contract: same multiset
                        got_c, want = sorted(got_c), sorted(want)
                        m = want
                    elif mode == "list" and arrivals is not None:
                        m = drv.ask("C32", {"op": "collect", "n": n, "arrivals": [list(a) for a in arrivals]})
                    else:
                        m = drv.ask("C32", {"op": "seq", "vals": expect})
                    key = "list-order" if mode in ("list", "return_list") else f"{mode}-order"
            except Exception as e:  # the implementation raised on a valid job list
                ctx.fail("impl-exception", f"parallel() raised {type(e).__name__} on a valid job list",
                         {"mode": mode, "n_jobs": n_jobs, "xs": xs, "error": repr(e)})
                continue
            nontrivial = n >= 2 and arrivals is not None
            ctx.case({"mode": mode, "n": n, "n_jobs": n_jobs, "xs": xs[:6], "arrivals": (arrivals or [])[:6]},
                     nontrivial=nontrivial, branches=["unordered-collect" if arrivals is not None else "sequential"])
            if isinstance(m, dict) and "err" in m:
                # the arrival sequence no longer has the shape the model expects (e.g. jobs tagged differently):
                # the correspondence is broken; the property itself is still judged by the spec below
                corr_broken.append({"mode": mode, "n": n, "arrivals": (arrivals or [])[:8], "model_reply": m})
            elif m != want:
                raise RuntimeError(f"Lean model disagrees with its own proved spec: {m} vs {want}")
            if got_c != want:
                ctx.fail(key, "parallel() returned a result at the wrong position / key",
                         {"mode": mode, "n_jobs": n_jobs, "xs": xs, "arrivals": arrivals, "got": got_c, "want": want})
    finally:
        P.Parallel = real_parallel

    # ---------------- stream B: real joblib, random sleeps
    n_real = 24 if ctx.thorough else 6
    for t in range(n_real):
        n = rng.randint(2, 64 if ctx.thorough else 24)
        n_jobs = rng.choice([2, 4, 8, 16])
        xs = rng.sample(range(-1000, 1000), n)
        sleeps = [rng.choice([0, 0, 0.001, 0.01, 0.03]) for _ in xs]
        expect = [_job(x) for x in xs]
        ctx.dist("real-joblib")
        try:
            if t % 3 == 2:
                keys = [f"k{j}" for j in rng.sample(range(10 * n), n)]
                got = P.parallel({k: delayed(_job)(x, s) for k, x, s in zip(keys, xs, sleeps)}, n_jobs=n_jobs)
                ok = [[k, v] for k, v in got.items()] == [[k, v] for k, v in zip(keys, expect)]
                key = "dict-map"
            else:
                got = P.parallel([delayed(_job)(x, s) for x, s in zip(xs, sleeps)], n_jobs=n_jobs)
                ok = list(got) == expect
                key = "list-order"
        except Exception as e:
            ctx.fail("impl-exception", f"parallel() raised {type(e).__name__} with real joblib",
                     {"n_jobs": n_jobs, "xs": xs, "error": repr(e)})
            continue
        ctx.case({"real": True, "n": n, "n_jobs": n_jobs, "xs": xs[:6]}, branches=["real-joblib"])
        if not ok:
            ctx.fail(key, "parallel() with real joblib returned a result at the wrong position / key",
                     {"n_jobs": n_jobs, "xs": xs, "sleeps": sleeps, "got": str(got)[:2000], "want": expect})
    if corr_broken and ctx.n_violations() == 0:
        ctx.broken("correspondence C32: the arrival sequence observed at joblib.Parallel no longer matches the model's tagged "
                   "(index|key, value) arrivals, so collect_perm / dict_collect no longer speak about this code; no failing input found",
                   {"examples": corr_broken[:3], "count": len(corr_broken)})
    ctx.cov["correspondence_broken_cases"] = len(corr_broken)
