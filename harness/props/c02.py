"""C02 — the returned Pareto front is complete and contains no dominated mapping.

Proof:  AFV/Props/C02.lean
        (front layer)    front_complete / front_minimal / front_distinct / front_unique, frontFast_eq_front, dominatedBy_spec,
                         ffm_front (the prune–join–prune pipeline returns the front of ALL valid combinations), edp_reprune;
        (mapspace layer) refFront_complete / refFront_minimal / refFront_distinct: `refFront` is the Pareto front of the objective
                         vectors of every valid member of the reference mapspace (`Mapspace.all`, proved to be exactly `inSpace`),
                         and projecting a front onto fewer objectives and pruning again gives the front of the projection.
Tie:    for every spec of the seeded small-spec family the real `map_workload_to_arch` is run with ENERGY|LATENCY and with
        ENERGY|LATENCY|RESOURCE_USAGE; the returned objective vectors are compared AS SETS with the Lean front of the whole
        reference mapspace (float tolerance), and the returned table is checked directly: no row strictly dominated by another
        (Lean `dominated` oracle on the exact reported values), no two rows with identical objective vectors.

Verdicts
  * a reference front point that no returned row weakly dominates → the driver supplies a witness mapping, the real
    `evaluate_mapping` must confirm its cost → VIOLATION "front-incomplete" (replay = spec + mapping); not confirmed → broken
    correspondence (cost model, C05).
  * a returned row that is strictly dominated by / identical to another returned row → VIOLATION (replay = spec + the rows).
  * a returned row not dominated by any reference front point (better than the reference) → judged by `inSpace`/`cost` in Lean:
    outside the space / over capacity → VIOLATION; inside with the same cost → harness error (enumerator), never a violation.
"""
from __future__ import annotations

from fractions import Fraction

from harness.core import Ctx, HarnessError
from harness import mapperlib as ML
from harness import mapspacelib as MS
from harness.props.c01 import MIX_QUICK, MIX_THOROUGH, judge_mapper_mapping

ANCHORS = [
    "accelforge.mapper.FFM._pareto_df.fast_pareto:fast_pareto_mask",
    "accelforge.mapper.FFM._pareto_df.pareto:makepareto",
    "accelforge.mapper.FFM._join_pmappings.join_pmappings:clean_compress_and_join_pmappings",
    "accelforge.mapper.FFM._join_pmappings.join_pmappings:join_pmappings",
    "accelforge.mapper.FFM._join_pmappings.join_pmappings:multi_strategy_join",
    "accelforge.mapper.FFM._join_pmappings.pmapping_dataframe:PmappingDataframe.make_pareto",
    "accelforge.mapper.FFM._join_pmappings.pmapping_dataframe:PmappingDataframe.limit_capacity",
    "accelforge.mapper.FFM.main:map_workload_to_arch",
]

METRIC_SETS = [("EL", ["ENERGY", "LATENCY"]), ("ELU", ["ENERGY", "LATENCY", "RESOURCE_USAGE"])]
SC = 1 << 20


def vec_of_row(row, desc, with_usage):
    v = [row["energy"], row["latency"]]
    if with_usage:
        S = desc["einsums"][0]["spec"]
        for name, inf in zip(desc["levels"], S["inf"]):
            v.append(0.0 if inf else float(row["usage"].get(name, 0.0) or 0.0))
    return v


def leq(a, b, rel):
    """a ≤ b coordinatewise up to relative tolerance."""
    return all(x <= y + rel * max(abs(x), abs(y), 1e-30) for x, y in zip(a, b))


def run(ctx: Ctx):
    ctx.lean_gate()
    ctx.anchors(ANCHORS)
    ctx.cov["rule"] = ("seeded small specs as in C01 (1–2 Einsums, 2–3 memory levels, finite/infinite buffers, mixed energy ratios and "
                       "throughputs), each run with ENERGY|LATENCY and ENERGY|LATENCY|RESOURCE_USAGE.  non-trivial = the reference front "
                       "of the metric set has ≥ 2 points")
    ctx.cov["tolerance"] = MS.REL
    ctx.cov["trusted_base"] += [
        "harness/mapspacelib.py describe(): reads bounds / projections / keep / may_keep / sizes / energies / throughputs from the repo's own evaluated Spec",
        "AFV.Nest.analytic as the cost model (C05's correspondence; every disagreement is re-checked with the real evaluate_mapping)",
    ]
    ctx.assumptions += [
        "that the mapper's template and tile-shape pruning lose no Pareto-optimal mapping is NOT proved for all specs; it is checked end to end against the exhaustive reference on every generated spec",
        "spatial loops, Tolls, imperfect factorisation are outside the reference mapspace",
        "two Einsums: additivity of energy/latency and the shared-prefix + max-over-branches peak usage are assumed (C04/C06's subject)",
        "usage objectives: one coordinate per memory of finite size (the reservation columns the mapper reports)",
    ]
    n = 36 if ctx.thorough else 5
    limit = 600_000 if ctx.thorough else 70_000
    ML.init(1)
    drv = ctx.driver()
    fam = MS.family(ctx, drv, n, limit, MIX_THOROUGH if ctx.thorough else MIX_QUICK)
    ctx.cov["mapspace_sizes"] = [sz for _, _, sz in fam]
    ctx.cov["timing"] = {"family_s": round(ctx.elapsed(), 1)}
    results = ML.pool_map(MS.mapper_work, [(p, METRIC_SETS) for p, _, _ in fam], workers=4)
    ctx.cov["timing"]["mapper_s"] = round(ctx.elapsed(), 1)
    sc = MS.Scanner(4)
    try:
        reqs, owner = [], []
        for i, (p, desc, size) in enumerate(fam):
            parts = 1 if len(desc["einsums"]) == 2 else max(1, min(4, size // 20_000))
            for r in MS.scan_requests(desc, parts):
                reqs.append(r)
                owner.append(i)
        replies = sc.run(reqs)
        scans = [MS.merge_scans(desc, [r for r, o in zip(replies, owner) if o == i]) for i, (p, desc, size) in enumerate(fam)]
        ctx.cov["timing"]["scans_s"] = round(ctx.elapsed(), 1)
        ctx.cov["mappings_enumerated"] = sum(s["n"] for s in scans)
        pending = []   # (i, kind, name, int vector, payload)
        for i, ((p, desc, size), res, scan) in enumerate(zip(fam, results, scans)):
            ne = len(desc["einsums"])
            if ne == 1 and scan["n"] != size:
                raise HarnessError(f"size estimator {size} ≠ driver's |all| {scan['n']}")
            ctx.dist(f"{p['workload']['kind']}-{ne}E-L{p['levels']}-{'finite' if p['glb_size'] != 'inf' else 'inf'}")
            uscale = MS.usage_scale(desc)
            D = desc["D"]
            full = drv.ask("C02", {"op": "front", "rows": scan["rows"]})          # front of (E, L, U…)
            proj = drv.ask("C02", {"op": "front", "rows": [r[:2] for r in full]})  # front of (E, L): projection of a front, pruned again
            for name, mets in METRIC_SETS:
                with_u = name == "ELU"
                ref_int = full if with_u else proj
                ref = [[float(Fraction(r[0], D)), float(Fraction(r[1], D))] +
                       ([float(Fraction(x) / s) for x, s in zip(r[2:], uscale)] if with_u else []) for r in ref_int]
                r = res[name]
                base = {"params": p, "metrics": mets, "mapspace_size": scan["n"], "valid": scan["valid"]}
                if r["error"] or not r["rows"]:
                    ctx.case({**base, "mapper": r["error"] or "no rows"}, nontrivial=False, branches=["mapper-no-mapping"])
                    if ref:
                        pending.append((i, "incomplete", name, ref_int[0], {**base, "missing": ref[0], "returned": []}))
                    continue
                rows = r["rows"]
                vecs = [vec_of_row(x, desc, with_u) for x in rows]
                ctx.case({**base, "ref_front": ref[:8], "returned": vecs[:8]}, nontrivial=len(ref) >= 2,
                         branches=[f"{name}-front-{min(len(ref), 6)}", f"{ne}E"])
                # (a) direct checks on the returned table
                ints = [ML.to_int_vec(v, SC) for v in vecs]
                dom = drv.ask("C02", {"op": "dominated", "rows": ints})
                for j, dj in enumerate(dom):
                    if dj is not None:
                        other_usage = vec_of_row(rows[j], desc, True)[2:] != vec_of_row(rows[dj], desc, True)[2:]
                        key = "dominated-row-returned:" + name + (":rows-differ-in-usage" if (not with_u and other_usage) else "")
                        ctx.fail(key, "a returned mapping is strictly dominated by another returned mapping on the requested objectives",
                                 {**base, "row": vecs[j], "dominated_by": vecs[dj], "usage_row": rows[j]["usage"], "usage_other": rows[dj]["usage"],
                                  "mapping": rows[j].get("mapping"), "all_rows": vecs})
                seen = {}
                for j, v in enumerate(ints):
                    if tuple(v) in seen:
                        k0 = seen[tuple(v)]
                        other_usage = vec_of_row(rows[j], desc, True)[2:] != vec_of_row(rows[k0], desc, True)[2:]
                        key = "duplicate-objective-vectors:" + name + (":rows-differ-in-usage" if (not with_u and other_usage) else "")
                        ctx.fail(key, "two returned mappings have identical objective vectors",
                                 {**base, "row": vecs[j], "usage_row": rows[j]["usage"], "usage_other": rows[k0]["usage"], "all_rows": vecs})
                    else:
                        seen[tuple(v)] = j
                # (b) complete: every reference front point is weakly dominated by a returned row
                for rv, rint in zip(ref, ref_int):
                    if not any(leq(v, rv, MS.REL) for v in vecs):
                        pending.append((i, "incomplete", name, rint, {**base, "missing": rv, "returned": vecs}))
                # (c) every returned row is weakly dominated by a reference front point (else it beats the reference)
                for j, v in enumerate(vecs):
                    if not any(leq(rv, v, MS.REL) for rv in ref):
                        verdicts = judge_mapper_mapping(drv, desc, rows[j]["mapping"]) if rows[j].get("mapping") else []
                        rep = {**base, "row": v, "ref_front": ref, "mapping": rows[j].get("mapping"), "lean": verdicts}
                        bad = sorted({k for x in verdicts for k, ok in x["clauses"].items() if not ok})
                        if bad:
                            ctx.fail("returned-row-beats-reference-front:outside-space:" + "+".join(bad),
                                     "a returned mapping is not weakly dominated by any valid mapping of the mapspace and lies outside the described space", rep)
                        elif ne == 1 and verdicts and verdicts[0]["fits"] is False:
                            ctx.fail("returned-row-beats-reference-front:over-capacity",
                                     "a returned mapping is not weakly dominated by any valid mapping of the mapspace and exceeds a memory's size", rep)
                        elif ne == 1 and verdicts and verdicts[0]["cost"] is not None:
                            c = verdicts[0]["cost"]
                            lv = [float(MS.qf(c["energy"])), float(MS.qf(c["latency"]))] + \
                                 ([float(MS.qf(u)) for u in c["usage"]] if with_u else [])
                            if all(ML.close(a, b, MS.REL) or (a == 0 and b == 0) for a, b in zip(lv, v)):
                                raise HarnessError(f"reference front incomplete: a mapping in the space with cost {lv} is not dominated by the reference front: {rep}")
                            ctx.broken("correspondence: the Lean cost model and the mapper's reported objectives differ on a returned mapping (C05's subject)",
                                       {**rep, "lean_vector": lv})
                        else:
                            ctx.broken("correspondence: a returned fused mapping is better than the reference front of the fused mapspace "
                                       "(additivity / peak-usage assumption or cost model differs)", rep)
        # witnesses for missing front points: second scan with "want", then the REAL model
        if pending:
            by_spec = {}
            for item in pending:
                by_spec.setdefault(item[0], []).append(item)
            evjobs, evmeta = [], []
            for i, items in by_spec.items():
                p, desc, size = fam[i]
                # the wanted vectors are points of the (E, L, U) front; for an (E, L) point take any full point projecting onto it
                full = drv.ask("C02", {"op": "front", "rows": scans[i]["rows"]})
                uscale_i = MS.usage_scale(desc)

                def is_strict(row):
                    return all(Fraction(x) / sc_ < 1 for x, sc_ in zip(row[2:], uscale_i))

                want, strict_attainable = [], []
                for (_, _, name, rint, _) in items:
                    if name == "ELU":
                        want.append(rint)
                        strict_attainable.append(is_strict(rint))
                    else:
                        same = sorted((f for f in full if f[:2] == rint[:2]), key=lambda f: f[2:])
                        want.append(same[0])
                        strict_attainable.append(any(is_strict(f) for f in same))
                reqs = [dict(r, want=want) for r in MS.scan_requests(desc, 1)]
                rep = sc.run(reqs)[0]
                found = {tuple(f["v"]): f for f in rep["found"]}
                for (_, kind, name, rint, payload), w, sa in zip(items, want, strict_attainable):
                    payload["attained_by_a_strictly_fitting_mapping"] = sa
                    f = found.get(tuple(w))
                    if f is None:
                        raise HarnessError(f"driver found no witness for front point {w}")
                    wit = ("single", f["m"]) if "m" in f else ("pair", f["a"], f["b"])
                    export, ms = MS.witness_export(drv, desc, wit)
                    evjobs.append((p, export))
                    evmeta.append((i, name, payload, export, ms))
            evs = ML.pool_map(MS.eval_work, evjobs, workers=4)
            for (i, name, payload, export, ms), ev in zip(evmeta, evs):
                p, desc, _ = fam[i]
                rep = {**payload, "witness_mapping": export, "evaluate_mapping": ev, "lean_mappings": ms}
                ok = ev.get("error") is None and ev.get("energy") is not None
                if ok:
                    real = [ev["energy"], ev["latency"]]
                    if name == "ELU":
                        S = desc["einsums"][0]["spec"]
                        real += [0.0 if inf else float((ev.get("usage") or {}).get(nm, 0.0) or 0.0) for nm, inf in zip(desc["levels"], S["inf"])]
                    usage_ok = all(u is None or u <= 1 + 1e-9 for u in (ev.get("usage") or {}).values())
                    confirmed = usage_ok and all(ML.close(a, b, 1e-4) or (abs(a) < 1e-12 and abs(b) < 1e-12) for a, b in zip(real, payload["missing"]))
                else:
                    confirmed = False
                if confirmed and MS.exactly_full(ev) and not payload["attained_by_a_strictly_fitting_mapping"]:
                    # the delimited finding of C01 (exactly_full_counterexample): only mappings that fill a memory exactly reach this point
                    ctx.fail("front-incomplete:" + MS.KNOWN_FULL,
                             "a Pareto point attained only by mappings that fill a memory exactly (accepted by evaluate_mapping with usage 1.0) "
                             "is missing from the returned front", rep)
                elif confirmed:
                    feats = "+".join(MS.mapping_features(desc, ms))
                    ctx.fail(f"front-incomplete:{name}:{feats}",
                             "a valid mapping of the mapspace (accepted by evaluate_mapping) is not weakly dominated by any returned mapping", rep)
                else:
                    ctx.broken("correspondence: a reference front point is not covered by the returned front, but the real evaluate_mapping does not "
                               "confirm the witness mapping's cost (cost-model difference, C05/C04/C06's subject)", rep)
    finally:
        sc.close()
