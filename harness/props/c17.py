"""C17 — optima are consistent across metric combinations.

Proof:  AFV/Props/C17.lean (metric_consistency, edp_reprune, edp_column …): for ANY finite set of (energy, latency)
        points, the minimum energy / latency / energy×latency over its Pareto front equals the minimum over the whole set.
Tie:    the mapper is run on every spec of the seeded small-spec family with ENERGY, LATENCY, ENERGY|LATENCY and
        ENERGY_DELAY_PRODUCT; the returned rows are sent to the Lean front oracle (exact scaled integers) which recomputes the
        three minima over the front; these must equal the single-metric optima of the real mapper, and every row's EDP
        column must equal energy × latency.
"""
from __future__ import annotations

from harness.core import Ctx
from harness import mapperlib as ML

ANCHORS = [
    "accelforge.mapper.FFM._join_pmappings.join_pmappings:_apply_edp_columns",
    "accelforge.mapper.FFM._join_pmappings.join_pmappings:clean_compress_and_join_pmappings",
    "accelforge.mapper.FFM.main:map_workload_to_arch",
]
REL = 2e-5  # float32 accumulation in the joiner


def work(params):
    out = {}
    for name, mets in (("E", ["ENERGY"]), ("L", ["LATENCY"]), ("EL", ["ENERGY", "LATENCY"]), ("EDP", ["ENERGY_DELAY_PRODUCT"])):
        # single-metric runs: joiner totals only; EL and EDP also re-evaluated in detail so that energy, latency and the
        # EDP column are all reported for the edp-column clause
        r = ML.run_mapper(params, mets, eval_in_detail=name in ("EL", "EDP"))
        out[name] = {"error": r["error"], "rows": [{k: v for k, v in row.items() if k != "mapping"} for row in r["rows"]]}
    return out


def run(ctx: Ctx):
    ctx.lean_gate()
    ctx.anchors(ANCHORS)
    ctx.cov["rule"] = ("seeded small specs (1–2 Einsum matmul chains / 3-rank Einsums, 2–3 memory levels, finite/infinite buffers, "
                       "energy ratios 1:1…1:200, bandwidth- or compute-bound); each run with 4 metric sets. non-trivial = the "
                       "energy-latency front has ≥ 2 points")
    ctx.cov["tolerance"] = REL
    ctx.assumptions += [
        "the theorem is about exact fronts of a finite set; that the mapper's returned set IS the front of the mapspace is C01/C02's subject",
        "objective values are float32/float64 sums: compared with relative tolerance %g" % REL,
    ]
    n = 48 if ctx.thorough else 8
    plist = [ML.gen_params(ctx.rng) for _ in range(n)]
    results = ML.pool_map(work, plist, workers=8)
    drv = ctx.driver()
    for p, res in zip(plist, results):
        errs = {k: v["error"] for k, v in res.items()}
        empties = {k: not v["rows"] for k, v in res.items()}
        if any(errs.values()) or any(empties.values()):
            # all four runs must agree on "no mapping / error"
            ctx.case({"params": p, "errors": errs}, nontrivial=False, branches=["no-mapping"])
            if not all(empties.values()):
                ctx.fail("some-metric-sets-fail", "the mapper finds mappings for some metric sets but not for others on the same spec",
                         {"params": p, "errors": errs, "n_rows": {k: len(v["rows"]) for k, v in res.items()}})
            continue
        el = res["EL"]["rows"]
        ctx.case({"params": p, "front": [(r["energy"], r["latency"]) for r in el][:6]}, nontrivial=len(el) >= 2,
                 branches=[f"front-size-{min(len(el), 5)}"])
        ctx.dist(p["workload"]["kind"] + f"-L{p['levels']}")
        rows_int = [ML.to_int_vec([r["energy"], r["latency"]]) for r in el]
        m = drv.ask("C17", {"op": "minima", "rows": rows_int})
        if "err" in m:
            raise RuntimeError(f"driver: {m}")
        sc = float(1 << 20)
        minE, minL, minEDP = m["minE"] / sc, m["minL"] / sc, m["minEDP"] / sc / sc
        bE, bL, bEDP = ML.best(res["E"]["rows"], "ENERGY"), ML.best(res["L"]["rows"], "LATENCY"), ML.best(res["EDP"]["rows"], "ENERGY_DELAY_PRODUCT")
        rep = {"params": p, "front_EL": [(r["energy"], r["latency"]) for r in el], "E_run": bE, "L_run": bL, "EDP_run": bEDP,
               "front_minE": minE, "front_minL": minL, "front_minEDP": minEDP}
        if not ML.close(minE, bE, REL):
            ctx.fail("energy-front-vs-single", "min energy on the energy-latency front differs from the ENERGY-only optimum", rep)
        if not ML.close(minL, bL, REL):
            ctx.fail("latency-front-vs-single", "min latency on the energy-latency front differs from the LATENCY-only optimum", rep)
        if not ML.close(minEDP, bEDP, REL):
            ctx.fail("edp-front-vs-single", "min energy×latency over the front differs from the EDP optimum", rep)
        for k in ("E", "L", "EL", "EDP"):
            for r in res[k]["rows"]:
                if r["edp"] is not None and r["energy"] is not None and r["latency"] is not None and not ML.close(r["edp"], r["energy"] * r["latency"], 1e-5):
                    ctx.fail("edp-column", "reported EDP column differs from energy × latency", {"params": p, "metric_set": k, "row": r})
