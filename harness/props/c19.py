"""C19 — optimal costs scale with the architecture's cost parameters.

Proof:  AFV/Props/C19.lean  scale_energy, scale_throughput, scale_instances (about `analytic`, the proved model of
                            evaluate_mapping, AFV/Model/Nest.lean — for every mapping it evaluates, no size bound), front_scale
                            (multiplying coordinates by positive factors maps Pareto fronts to Pareto fronts ⇒ optima scale).
Tie:    (A) model stream: evaluate_mapping on a generated mapping and on the same mapping with all energies+leak × k, all
            throughputs × k, n_instances × k: the implementation's outputs must scale as the theorems say (energy × k,
            latency ÷ k, totals × k; counts / usage / validity unchanged) and both evaluations must agree with Lean `analytic`;
        (B) mapper stream: the real mapper is run on (spec, scaled spec) pairs: all per-action energies and leak powers ×k ⇒
            optimal energy ×k; all throughputs ×k ⇒ optimal latency ÷k; workload / Einsum n_instances ×n ⇒ optimal energy and
            latency ×n; the number of returned front points (validity) must not change.  k ranges over powers of two and
            non-integers, including very large/small ones that would expose magnitude-dependent sentinels in the Pareto filter.
"""
from __future__ import annotations

import math

import copy
from fractions import Fraction

import json

from harness import nestlib as N
from harness.core import Ctx
from harness import mapperlib as ML

ANCHORS = [
    "accelforge.model.run_model:run_model",
    "accelforge.model._looptree.energy:compute_energy_from_actions",
    "accelforge.model._looptree.latency.memory:component_latency",
    "accelforge.mapper.FFM._pareto_df.fast_pareto:fast_pareto_mask",
]
REL = 1e-4
SEP = N.SEP
KS = [Fraction(1, 1024), Fraction(3, 10), Fraction(3), Fraction(1 << 20), Fraction(10**9), Fraction(5, 2), Fraction(1, 7)]
E_KEYS = ["mm_energy", "glb_energy", "lb_energy", "mac_energy", "glb_leak"]
T_KEYS = ["mm_tp", "glb_tp", "lb_tp", "mac_tp"]


def scaled(params, kind, k: Fraction):
    q = copy.deepcopy(params)
    if kind == "energy":
        for key in E_KEYS:
            q[key] = float(Fraction(q[key]) * k)
    elif kind == "throughput":
        for key in T_KEYS:
            if q[key] != "inf":
                q[key] = float(Fraction(q[key]) * k)
    elif kind == "wl_instances":
        q["wl_instances"] = int(k)
    elif kind == "einsum_instances":
        q["einsum_instances"] = int(k)
    return q


def work(job):
    params, kind, k = job
    out = {}
    for side, p in (("base", params), ("scaled", scaled(params, kind, k))):
        out[side] = {}
        for name, mets in (("E", ["ENERGY"]), ("L", ["LATENCY"]), ("EL", ["ENERGY", "LATENCY"])):
            r = ML.run_mapper(p, mets, eval_in_detail=False)
            out[side][name] = {"error": r["error"], "rows": [(row["energy"], row["latency"]) for row in r["rows"]]}
    return out



def qmul(q, k: Fraction):
    return N.frac2q(N.q2frac(q) * k)


def scale_case(case, kind, k: Fraction):
    c = copy.deepcopy(case)
    if kind == "energy":
        for lv in c["arch"]["levels"]:
            lv["leak"] = qmul(lv["leak"], k)
            lv["read"]["e"] = qmul(lv["read"]["e"], k)
            lv["write"]["e"] = qmul(lv["write"]["e"], k)
        c["arch"]["compute"]["e"] = qmul(c["arch"]["compute"]["e"], k)
        c["arch"]["compute"]["leak"] = qmul(c["arch"]["compute"]["leak"], k)
    elif kind == "throughput":
        for lv in c["arch"]["levels"]:
            lv["read"]["thr"] = qmul(lv["read"]["thr"], k)
            lv["write"]["thr"] = qmul(lv["write"]["thr"], k)
        c["arch"]["compute"]["thr"] = qmul(c["arch"]["compute"]["thr"], k)
    else:
        c["workload"]["ninst"] = qmul(c["workload"]["ninst"], k)
    return c


def expected_factor(col, kind, k: Fraction):
    """Factor by which a run_model df column must change (None = must be identical)."""
    head = col.split(SEP)[0]
    if kind == "energy":
        if head == "energy" or col in (f"Total{SEP}dynamic_energy", f"Total{SEP}leak_energy"):
            return k
        return Fraction(1)
    if kind == "throughput":
        if head == "latency" or col == f"Total{SEP}latency" or col.endswith(f"{SEP}leak") or col == f"Total{SEP}leak_energy":
            return 1 / k
        return Fraction(1)
    # n_instances
    if head in ("action", "energy", "latency", "Total"):
        return k
    return Fraction(1)


def model_stream(ctx: Ctx):
    ctx.cov["rule"] = (
        "stream A: single-Einsum mappings of the C05 generator, each evaluated unscaled and with (energies+leak) × k, "
        "throughputs × k, n_instances × k for k from {1/1024, 3/10, 3, 2^20, 10^9} (integers for n_instances); "
        "non-trivial = a non-backing holder"
    )
    ctx.cov["tolerance"] = {"run_model df (float64), dyadic k and parameters": 0.0, "otherwise": 1e-9}
    ctx.assumptions += [
        "model-level theorems are about `analytic` (C05 fragment); the mapper-level statement (optimal costs scale) is "
        "checked by correspondence on small specs, its proof needs the mapper-optimality properties (C01/C08/C11)",
    ]
    drv = ctx.driver()
    rng = ctx.rng
    reported = {}

    def fail(key, what, payload):
        reported[key] = reported.get(key, 0) + 1
        ctx.cov["failing_cases_by_key"] = dict(reported)
        if reported[key] > 1 or len(reported) > 6:
            return
        ctx.fail(key, what, payload)

    KS = [Fraction(1, 1024), Fraction(3, 10), Fraction(3), Fraction(2 ** 20), Fraction(10 ** 9)]
    n_a = 700 if ctx.thorough else 40
    for i in range(n_a):
        case = N.gen_case(rng, exact=True, toll_prob=0.2)
        rep0 = drv.ask("C19", N.driver_req(case))
        if not rep0.get("wf") or rep0["oversubscribed"]:
            continue
        base = N.run_impl(case)
        if base.error is not None:
            fail("impl-exception-" + base.error[0], f"evaluate_mapping raised {base.error[0]}", {"case": case, "error": base.error})
            continue
        d0 = N.compare_df(base.df, base.per_memory_usage, rep0["analytic"], case, 0.0)
        d0 = [d for d in d0 if d[0].split(SEP)[0] not in ("usage", "reservation")]
        for kind in ("energy", "throughput", "ninst"):
            k = rng.choice(KS) if kind != "ninst" else Fraction(rng.choice([2, 3, 7]))
            sc = scale_case(case, kind, k)
            rep1 = drv.ask("C19", N.driver_req(sc))
            run1 = N.run_impl(sc, yaml_path="case_scaled.yaml")
            feats = N.case_features(case)
            ctx.case({"mapping": case["mapping"], "bounds": case["workload"]["bounds"], "kind": kind, "k": str(k)},
                     nontrivial="non-backing-holder" in feats, branches=["scale-" + kind])
            ctx.dist(f"A-{kind}-k={k}")
            if run1.error is not None:
                fail(f"validity-changed-{kind}", f"scaling {kind} by {k} made evaluate_mapping raise {run1.error[0]}",
                     {"case": case, "kind": kind, "k": str(k), "error": run1.error, "yaml": N.case_to_yaml(sc)})
                continue
            exact = N.is_pow2(k) or (kind != "throughput" and N.is_dyadic(k))
            tol = 0.0 if exact else 1e-9
            bad = None
            for col, v0 in base.df.items():
                if col.split(SEP)[0] not in ("action", "energy", "latency", "Total", "usage", "reservation"):
                    continue
                if col not in run1.df:
                    bad = (col, str(v0), "missing")
                    break
                f = expected_factor(col, kind, k)
                want = N.py2frac(v0) * f
                got = N.py2frac(run1.df[col])
                if not N.close(got, want, tol):
                    bad = (col, str(got), str(want))
                    break
            if bad:
                fail(f"scale-{kind}-{bad[0].split(SEP)[0]}",
                     f"{kind} × {k}: column {bad[0]} is {bad[1]}, expected {bad[2]}",
                     {"case": case, "kind": kind, "k": str(k), "column": bad[0], "got": bad[1], "want": bad[2],
                      "yaml": N.case_to_yaml(case), "yaml_scaled": N.case_to_yaml(sc)})
                continue
            # model agreement on the scaled input (ties `analytic` to the code on both sides of the theorem)
            d1 = N.compare_df(run1.df, run1.per_memory_usage, rep1["analytic"], sc, tol)
            d1 = [d for d in d1 if d[0].split(SEP)[0] not in ("usage", "reservation")]
            if (d0 or d1) and ctx.n_violations() == 0 and "model-drift" not in reported:
                reported["model-drift"] = 1
                ctx.broken("the Lean model `analytic` no longer reproduces run_model on a C19 case", {"case": case, "diffs": (d0 or d1)[:8]})



def mapper_stream(ctx: Ctx):
    ctx.cov["rule"] += (" || mapper stream: ""seeded small specs × {energy×k, throughput×k, workload n_instances×n, Einsum n_instances×n}, k ∈ "
                       "{2^-10, 0.3, 1/7, 2.5, 3, 2^20, 1e9}, n ∈ {2,3,7}; non-trivial = base spec has a mapping and a front with ≥ 2 points")
    ctx.cov["tolerance"]["mapper optimum (float32 tables)"] = REL
    ctx.assumptions += ["float32 accumulation: scaled optimum compared with relative tolerance %g" % REL]
    n = 40 if ctx.thorough else 4
    jobs = []
    for i in range(n):
        p = ML.gen_params(ctx.rng)
        if ctx.rng.random() < 0.5:
            p["glb_leak"] = ctx.rng.choice([1, 2])  # make leak energy matter
        kind = ["energy", "throughput", "wl_instances", "einsum_instances"][i % 4]
        k = ctx.rng.choice(KS) if kind in ("energy", "throughput") else Fraction(ctx.rng.choice([2, 3, 7]))
        jobs.append((p, kind, k))
    results = ML.pool_map(work, jobs, workers=4)
    drv = ctx.driver()

    def eq_scaled(a, b, k):  # b == a*k ?
        # exact integers on a common scale (the relation is scale-invariant); a fixed scale such as 2^20 would truncate
        # latencies like 1.68e-7 (throughput × 1e9) to 0 and raise a false alarm
        fa, fb = Fraction(a), Fraction(b)
        D = math.lcm(fa.denominator, fb.denominator)
        v = drv.ask("C19", {"op": "eqScaled", "a": int(fa * D), "b": int(fb * D),
                            "k_num": k.numerator, "k_den": k.denominator, "tol_num": 1, "tol_den": 10000})
        if v is not True and v is not False:
            raise RuntimeError(f"driver: {v}")
        return v

    for (p, kind, k), res in zip(jobs, results):
        ctx.dist(kind)
        base, sc = res["base"], res["scaled"]
        rep = {"params": p, "kind": kind, "k": str(k), "base": base, "scaled": sc}
        if not base["EL"]["rows"]:
            ctx.case({"params": p, "kind": kind}, nontrivial=False, branches=["no-mapping"])
            if sc["EL"]["rows"]:
                ctx.fail(f"validity-changed:{kind}", "scaling a cost parameter changed whether a mapping exists", rep)
            continue
        ctx.case({"params": p, "kind": kind, "k": str(k), "front": base["EL"]["rows"][:5]},
                 nontrivial=len(base["EL"]["rows"]) >= 2, branches=[kind])
        kE = {"energy": k, "throughput": Fraction(1), "wl_instances": k, "einsum_instances": k}[kind]
        kL = {"energy": Fraction(1), "throughput": 1 / k, "wl_instances": k, "einsum_instances": k}[kind]
        if kind == "throughput" and p.get("glb_leak"):
            kE = None  # leak energy = leak power × latency changes with latency: no pure scaling law for energy
        if not sc["E"]["rows"] or not sc["L"]["rows"]:
            ctx.fail(f"validity-changed:{kind}", "scaling a cost parameter changed whether a mapping exists", rep)
            continue
        bE, sE = min(r[0] for r in base["E"]["rows"]), min(r[0] for r in sc["E"]["rows"])
        bL, sL = min(r[1] for r in base["L"]["rows"]), min(r[1] for r in sc["L"]["rows"])
        if kE is not None and not eq_scaled(bE, sE, kE):
            ctx.fail(f"energy-not-scaled:{kind}", f"optimal energy did not scale by {kE}", rep)
        if not eq_scaled(bL, sL, kL):
            ctx.fail(f"latency-not-scaled:{kind}", f"optimal latency did not scale by {kL}", rep)
        if kE is not None and len(base["EL"]["rows"]) != len(sc["EL"]["rows"]):
            ctx.fail(f"front-size-changed:{kind}", "the energy-latency front has a different number of points after scaling", rep)


def run(ctx: Ctx):
    ctx.lean_gate()
    ctx.anchors(ANCHORS)
    model_stream(ctx)
    mapper_stream(ctx)
