"""C19 — optimal costs scale with the architecture's cost parameters.

Proof:  AFV/Props/C19.lean  scale_energy, scale_throughput, scale_instances (about `analytic`, the proved model of
                            evaluate_mapping — for every mapping it evaluates, no size bound), front_scale (multiplying
                            coordinates by positive factors maps Pareto fronts to Pareto fronts ⇒ optima scale).
Tie:    (A) evaluate_mapping on a generated mapping and on the same mapping with all energies+leak × k, all throughputs × k,
            n_instances × k: the implementation's outputs must scale as the theorems say (energy × k, latency ÷ k, totals × k;
            counts / usage / validity unchanged) and both evaluations must agree with Lean `analytic`;
        (B) map_workload_to_arch on small specs for k ∈ {2⁻¹⁰, 0.3, 3, 2²⁰, 1e9}: the returned front must be the scaled
            front (same number of rows, each objective scaled) — this is where scale-dependent sentinels / float32 effects
            of the mapper would show.
"""
from __future__ import annotations

import copy
import json
from fractions import Fraction

from harness import nestlib as N
from harness.core import Ctx

ANCHORS = [
    "accelforge.model.run_model:run_model",
    "accelforge.model._looptree.energy:compute_energy_from_actions",
    "accelforge.model._looptree.latency.memory:component_latency",
    "accelforge.mapper.FFM._pareto_df.fast_pareto:fast_pareto_mask",
]
SEP = N.SEP
TOL_MAPPER = 1e-5


def qmul(q, k: Fraction):
    return N.frac2q(N.q2frac(q) * k)


def scale_case(case, kind, k: Fraction):
    c = copy.deepcopy(case)
    if kind == "energy":
        for lv in c["arch"]["levels"]:
            lv["leak"] = qmul(lv["leak"], k)
            lv["read"]["e"] = qmul(lv["read"]["e"], k)
            lv["write"]["e"] = qmul(lv["write"]["e"], k)
        c["arch"]["compute"]["e"] = qmul(c["arch"]["compute"]["e"], k)
        c["arch"]["compute"]["leak"] = qmul(c["arch"]["compute"]["leak"], k)
    elif kind == "throughput":
        for lv in c["arch"]["levels"]:
            lv["read"]["thr"] = qmul(lv["read"]["thr"], k)
            lv["write"]["thr"] = qmul(lv["write"]["thr"], k)
        c["arch"]["compute"]["thr"] = qmul(c["arch"]["compute"]["thr"], k)
    else:
        c["workload"]["ninst"] = qmul(c["workload"]["ninst"], k)
    return c


def expected_factor(col, kind, k: Fraction):
    """Factor by which a run_model df column must change (None = must be identical)."""
    head = col.split(SEP)[0]
    if kind == "energy":
        if head == "energy" or col in (f"Total{SEP}dynamic_energy", f"Total{SEP}leak_energy"):
            return k
        return Fraction(1)
    if kind == "throughput":
        if head == "latency" or col == f"Total{SEP}latency" or col.endswith(f"{SEP}leak") or col == f"Total{SEP}leak_energy":
            return 1 / k
        return Fraction(1)
    # n_instances
    if head in ("action", "energy", "latency", "Total"):
        return k
    return Fraction(1)


def run(ctx: Ctx):
    ctx.lean_gate()
    ctx.anchors(ANCHORS)
    ctx.cov["rule"] = (
        "stream A: single-Einsum mappings of the C05 generator, each evaluated unscaled and with (energies+leak) × k, "
        "throughputs × k, n_instances × k for k from {1/1024, 3/10, 3, 2^20, 10^9} (integers for n_instances); "
        "stream B: mapper runs on small two-level matmul / matvec specs for the same k. non-trivial = at least one loop with "
        "more than one iteration and a non-backing holder"
    )
    ctx.cov["tolerance"] = {"run_model df (float64), dyadic k and parameters": 0.0, "otherwise": 1e-9,
                            "mapper results (float32 tables)": TOL_MAPPER}
    ctx.assumptions += [
        "model-level theorems are about `analytic` (C05 fragment); the mapper-level statement (optimal costs scale) is "
        "checked by correspondence on small specs, its proof needs the mapper-optimality properties (C01/C08/C11)",
    ]
    drv = ctx.driver()
    rng = ctx.rng
    reported = {}

    def fail(key, what, payload):
        reported[key] = reported.get(key, 0) + 1
        ctx.cov["failing_cases_by_key"] = dict(reported)
        if reported[key] > 1 or len(reported) > 6:
            return
        ctx.fail(key, what, payload)

    KS = [Fraction(1, 1024), Fraction(3, 10), Fraction(3), Fraction(2 ** 20), Fraction(10 ** 9)]
    n_a = 700 if ctx.thorough else 40
    for i in range(n_a):
        case = N.gen_case(rng, exact=True, toll_prob=0.2)
        rep0 = drv.ask("C19", N.driver_req(case))
        if not rep0.get("wf") or rep0["oversubscribed"]:
            continue
        base = N.run_impl(case)
        if base.error is not None:
            fail("impl-exception-" + base.error[0], f"evaluate_mapping raised {base.error[0]}", {"case": case, "error": base.error})
            continue
        d0 = N.compare_df(base.df, base.per_memory_usage, rep0["analytic"], case, 0.0)
        d0 = [d for d in d0 if d[0].split(SEP)[0] not in ("usage", "reservation")]
        for kind in ("energy", "throughput", "ninst"):
            k = rng.choice(KS) if kind != "ninst" else Fraction(rng.choice([2, 3, 7]))
            sc = scale_case(case, kind, k)
            rep1 = drv.ask("C19", N.driver_req(sc))
            run1 = N.run_impl(sc, yaml_path="case_scaled.yaml")
            feats = N.case_features(case)
            ctx.case({"mapping": case["mapping"], "bounds": case["workload"]["bounds"], "kind": kind, "k": str(k)},
                     nontrivial="non-backing-holder" in feats, branches=["scale-" + kind])
            ctx.dist(f"A-{kind}-k={k}")
            if run1.error is not None:
                fail(f"validity-changed-{kind}", f"scaling {kind} by {k} made evaluate_mapping raise {run1.error[0]}",
                     {"case": case, "kind": kind, "k": str(k), "error": run1.error, "yaml": N.case_to_yaml(sc)})
                continue
            exact = N.is_pow2(k) or (kind != "throughput" and N.is_dyadic(k))
            tol = 0.0 if exact else 1e-9
            bad = None
            for col, v0 in base.df.items():
                if col.split(SEP)[0] not in ("action", "energy", "latency", "Total", "usage", "reservation"):
                    continue
                if col not in run1.df:
                    bad = (col, str(v0), "missing")
                    break
                f = expected_factor(col, kind, k)
                want = N.py2frac(v0) * f
                got = N.py2frac(run1.df[col])
                if not N.close(got, want, tol):
                    bad = (col, str(got), str(want))
                    break
            if bad:
                fail(f"scale-{kind}-{bad[0].split(SEP)[0]}",
                     f"{kind} × {k}: column {bad[0]} is {bad[1]}, expected {bad[2]}",
                     {"case": case, "kind": kind, "k": str(k), "column": bad[0], "got": bad[1], "want": bad[2],
                      "yaml": N.case_to_yaml(case), "yaml_scaled": N.case_to_yaml(sc)})
                continue
            # model agreement on the scaled input (ties `analytic` to the code on both sides of the theorem)
            d1 = N.compare_df(run1.df, run1.per_memory_usage, rep1["analytic"], sc, tol)
            d1 = [d for d in d1 if d[0].split(SEP)[0] not in ("usage", "reservation")]
            if (d0 or d1) and ctx.n_violations() == 0 and "model-drift" not in reported:
                reported["model-drift"] = 1
                ctx.broken("the Lean model `analytic` no longer reproduces run_model on a C19 case", {"case": case, "diffs": (d0 or d1)[:8]})

    # ---------------------------------------------------------------- stream B: the mapper
    import importlib
    import logging
    import warnings

    Metrics = importlib.import_module("accelforge.frontend.mapper.metrics").Metrics
    mods = N.impl_modules()

    def map_front(case, path):
        y = N.case_to_yaml(case)
        y = y[: y.index("mapping:")]
        with open(path, "w") as f:
            f.write(y)
        logging.disable(logging.CRITICAL)
        try:
            with warnings.catch_warnings():
                warnings.simplefilter("ignore")
                spec = mods["spec"].Spec.from_yaml(path)
                spec.mapper.metrics = Metrics.ENERGY | Metrics.LATENCY
                res = spec.map_workload_to_arch(print_progress=False)
            d = res.data
            return sorted((float(a), float(b)) for a, b in zip(d[f"Total{SEP}energy"], d[f"Total{SEP}latency"]))
        finally:
            logging.disable(logging.NOTSET)

    n_specs = 6 if ctx.thorough else 1
    ks_b = KS if ctx.thorough else [Fraction(2 ** 20)]
    for si in range(n_specs):
        case = N.gen_case(rng, exact=True, einsum=rng.choice(["matmul", "matvec"]), toll_prob=0.0, n_levels=2)
        case["workload"]["bounds"] = [rng.choice([2, 4]) for _ in case["workload"]["bounds"]]
        case["workload"]["ninst"] = 1
        for lv in case["arch"]["levels"]:
            lv["size"] = 1 << 20
            lv["bpv"], lv["vpa"], lv["bpa"] = [], [], None
            for a in ("read", "write"):
                lv[a]["bpa"], lv[a]["vpa"] = None, []
                if N.q2frac(lv[a]["e"]) == 0:
                    lv[a]["e"] = 1
        try:
            base = map_front(case, "mapper_base.yaml")
        except Exception as e:
            fail("mapper-exception", f"map_workload_to_arch raised {type(e).__name__} on a small spec", {"case": case, "error": repr(e)[:300]})
            continue
        for kind in (("energy", "throughput") if ctx.thorough else ("energy",)):
            for k in ks_b:
                sc = scale_case(case, kind, k)
                try:
                    got = map_front(sc, "mapper_scaled.yaml")
                except Exception as e:
                    fail(f"mapper-exception-{kind}", f"map_workload_to_arch raised {type(e).__name__} after scaling {kind} by {k}",
                         {"case": case, "kind": kind, "k": str(k), "error": repr(e)[:300]})
                    continue
                kf = float(k)
                if kind == "energy":
                    want = sorted((e * kf, l) for e, l in base)
                else:
                    # leak energy = leak power × latency also shrinks; compare latency only and the number of rows
                    want = sorted((None, l / kf) for e, l in base)
                ctx.case({"mapper": True, "bounds": case["workload"]["bounds"], "kind": kind, "k": str(k)}, branches=["mapper-" + kind])
                ctx.dist(f"B-{kind}-k={k}")
                ok = len(got) == len(want)
                if ok:
                    gl = sorted(l for _, l in got)
                    wl = sorted(l for _, l in want)
                    ok = all(abs(a - b) <= TOL_MAPPER * max(abs(a), abs(b), 1e-300) for a, b in zip(gl, wl))
                    if ok and kind == "energy":
                        ge = sorted(e for e, _ in got)
                        we = sorted(e for e, _ in want)
                        ok = all(abs(a - b) <= TOL_MAPPER * max(abs(a), abs(b), 1e-300) for a, b in zip(ge, we))
                if not ok:
                    fail(f"mapper-front-not-scaled-{kind}",
                         f"the mapper's front for {kind} × {k} is not the scaled front: {got[:4]} vs expected {want[:4]}",
                         {"case": case, "kind": kind, "k": str(k), "base_front": base, "scaled_front": got})
