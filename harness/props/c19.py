"""C19 — optimal costs scale with the architecture's cost parameters.

Proof:  AFV/Props/C19.lean (scale_energy, scale_throughput, scale_instances on the cost model of AFV/Model/Nest.lean, and
        front_scale: multiplying one coordinate of every point by k>0 maps Pareto fronts to Pareto fronts, so optima scale).
Tie:    the real mapper is run on (spec, scaled spec) pairs: all per-action energies and leak powers ×k ⇒ optimal energy ×k;
        all throughputs ×k ⇒ optimal latency ÷k; workload / Einsum n_instances ×n ⇒ optimal energy and latency ×n; the number of
        returned front points (validity) must not change.  k ranges over powers of two and non-integers, including very
        large/small ones that would expose magnitude-dependent sentinels in the Pareto filter.
"""
from __future__ import annotations

import copy
from fractions import Fraction

from harness.core import Ctx
from harness import mapperlib as ML

ANCHORS = [
    "accelforge.model.run_model:run_model",
    "accelforge.model._looptree.energy:compute_energy_from_actions",
    "accelforge.mapper.FFM._pareto_df.fast_pareto:fast_pareto_mask",
]
REL = 1e-4
KS = [Fraction(1, 1024), Fraction(3, 10), Fraction(3), Fraction(1 << 20), Fraction(10**9), Fraction(5, 2), Fraction(1, 7)]
E_KEYS = ["mm_energy", "glb_energy", "lb_energy", "mac_energy", "glb_leak"]
T_KEYS = ["mm_tp", "glb_tp", "lb_tp", "mac_tp"]


def scaled(params, kind, k: Fraction):
    q = copy.deepcopy(params)
    if kind == "energy":
        for key in E_KEYS:
            q[key] = float(Fraction(q[key]) * k)
    elif kind == "throughput":
        for key in T_KEYS:
            if q[key] != "inf":
                q[key] = float(Fraction(q[key]) * k)
    elif kind == "wl_instances":
        q["wl_instances"] = int(k)
    elif kind == "einsum_instances":
        q["einsum_instances"] = int(k)
    return q


def work(job):
    params, kind, k = job
    out = {}
    for side, p in (("base", params), ("scaled", scaled(params, kind, k))):
        out[side] = {}
        for name, mets in (("E", ["ENERGY"]), ("L", ["LATENCY"]), ("EL", ["ENERGY", "LATENCY"])):
            r = ML.run_mapper(p, mets, eval_in_detail=False)
            out[side][name] = {"error": r["error"], "rows": [(row["energy"], row["latency"]) for row in r["rows"]]}
    return out


def run(ctx: Ctx):
    ctx.lean_gate()
    ctx.anchors(ANCHORS)
    ctx.cov["rule"] = ("seeded small specs × {energy×k, throughput×k, workload n_instances×n, Einsum n_instances×n}, k ∈ "
                       "{2^-10, 0.3, 1/7, 2.5, 3, 2^20, 1e9}, n ∈ {2,3,7}; non-trivial = base spec has a mapping and a front with ≥ 2 points")
    ctx.cov["tolerance"] = REL
    ctx.assumptions += ["float32 accumulation: scaled optimum compared with relative tolerance %g" % REL]
    n = 40 if ctx.thorough else 10
    jobs = []
    for i in range(n):
        p = ML.gen_params(ctx.rng)
        if ctx.rng.random() < 0.5:
            p["glb_leak"] = ctx.rng.choice([1, 2])  # make leak energy matter
        kind = ["energy", "throughput", "wl_instances", "einsum_instances"][i % 4]
        k = ctx.rng.choice(KS) if kind in ("energy", "throughput") else Fraction(ctx.rng.choice([2, 3, 7]))
        jobs.append((p, kind, k))
    results = ML.pool_map(work, jobs, workers=8)
    drv = ctx.driver()

    def eq_scaled(a, b, k):  # b == a*k ?
        v = drv.ask("C19", {"op": "eqScaled", "a": ML.to_int_vec([a])[0], "b": ML.to_int_vec([b])[0],
                            "k_num": k.numerator, "k_den": k.denominator, "tol_num": 1, "tol_den": 10000})
        if v is not True and v is not False:
            raise RuntimeError(f"driver: {v}")
        return v

    for (p, kind, k), res in zip(jobs, results):
        ctx.dist(kind)
        base, sc = res["base"], res["scaled"]
        rep = {"params": p, "kind": kind, "k": str(k), "base": base, "scaled": sc}
        if not base["EL"]["rows"]:
            ctx.case({"params": p, "kind": kind}, nontrivial=False, branches=["no-mapping"])
            if sc["EL"]["rows"]:
                ctx.fail(f"validity-changed:{kind}", "scaling a cost parameter changed whether a mapping exists", rep)
            continue
        ctx.case({"params": p, "kind": kind, "k": str(k), "front": base["EL"]["rows"][:5]},
                 nontrivial=len(base["EL"]["rows"]) >= 2, branches=[kind])
        kE = {"energy": k, "throughput": Fraction(1), "wl_instances": k, "einsum_instances": k}[kind]
        kL = {"energy": Fraction(1), "throughput": 1 / k, "wl_instances": k, "einsum_instances": k}[kind]
        if kind == "throughput" and p.get("glb_leak"):
            kE = None  # leak energy = leak power × latency changes with latency: no pure scaling law for energy
        if not sc["E"]["rows"] or not sc["L"]["rows"]:
            ctx.fail(f"validity-changed:{kind}", "scaling a cost parameter changed whether a mapping exists", rep)
            continue
        bE, sE = min(r[0] for r in base["E"]["rows"]), min(r[0] for r in sc["E"]["rows"])
        bL, sL = min(r[1] for r in base["L"]["rows"]), min(r[1] for r in sc["L"]["rows"])
        if kE is not None and not eq_scaled(bE, sE, kE):
            ctx.fail(f"energy-not-scaled:{kind}", f"optimal energy did not scale by {kE}", rep)
        if not eq_scaled(bL, sL, kL):
            ctx.fail(f"latency-not-scaled:{kind}", f"optimal latency did not scale by {kL}", rep)
        if kE is not None and len(base["EL"]["rows"]) != len(sc["EL"]["rows"]):
            ctx.fail(f"front-size-changed:{kind}", "the energy-latency front has a different number of points after scaling", rep)
