"""C04 — mapper-reported metrics equal the model's evaluation of the returned mapping.

Proof:  AFV/Props/C04.lean — the joiner's totals are column-wise sums of per-Einsum pmapping values (and maxima of combined
        reservations); `fuse_additive` shows that the cost model of a fused (sequential) tree is the sum over its Einsums of the
        per-Einsum values, so joiner totals equal the model on the reconstructed tree in the Lean model.
Tie:    map_workload_to_arch is run with eval_in_detail=False (joiner totals) and =True (model re-evaluation inside the mapper);
        every returned mapping is ALSO exported to plain JSON, rebuilt from scratch as YAML and evaluated with the public
        evaluate_mapping (independent reconstruction — exercises MappingFromRow/row2pmappings).  Totals (energy, latency, EDP,
        resource usage) are compared three ways, per-Einsum breakdown columns two ways; the Lean driver re-adds the
        per-Einsum columns exactly.
"""
from __future__ import annotations

import json
import math

from harness.core import Ctx
from harness import mapperlib as ML

ANCHORS = [
    "accelforge.mapper.FFM.main:map_workload_to_arch",
    "accelforge.mapper.FFM._join_pmappings.join_pmappings:MappingFromRow",
    "accelforge.mapper.FFM._join_pmappings.pmapping_dataframe:PmappingDataframe.merge_next",
    "accelforge.model.main:evaluate_mapping",
]
REL = 1e-4  # float32 rounding in joiner columns
METRIC_SETS = [["ENERGY", "LATENCY"], ["ENERGY", "LATENCY", "RESOURCE_USAGE"], ["ENERGY_DELAY_PRODUCT"], ["ENERGY"], ["LATENCY"]]


def numeric_cols(result):
    d = result.data
    out = []
    for c in d.columns:
        if str(d[c].dtype) == "object":
            continue
        out.append(str(c))
    return out


def work(job):
    params, mets = job
    F = ML.run_mapper(params, mets, eval_in_detail=False)
    T = ML.run_mapper(params, mets, eval_in_detail=True)
    out = {"F_error": F["error"], "T_error": T["error"], "nF": len(F["rows"]), "nT": len(T["rows"]), "rows": []}
    if F["error"] or T["error"] or len(F["rows"]) != len(T["rows"]):
        return out
    Fd, Td = F["_result"].data, T["_result"].data
    for i, (fr, tr) in enumerate(zip(F["rows"], T["rows"])):
        rec = {"i": i, "same_mapping": json.dumps(fr.get("mapping"), sort_keys=True) == json.dumps(tr.get("mapping"), sort_keys=True),
               "mapping": fr.get("mapping"), "mapping_error": fr.get("mapping_error")}
        rec["F"] = {c: float(Fd.iloc[i][c]) for c in numeric_cols(F["_result"]) if c.startswith(("Total<SEP>", "reservation<SEP>"))}
        rec["T"] = {c: float(Td.iloc[i][c]) for c in numeric_cols(T["_result"])}
        if fr.get("mapping") is not None:
            ev = ML.evaluate(params, fr["mapping"])
            rec["ev_error"] = ev["error"]
            if not ev["error"]:
                ed = ev["_result"].data
                rec["EV"] = {c: float(ed.iloc[0][c]) for c in numeric_cols(ev["_result"])}
        out["rows"].append(rec)
    return out


def close(a, b):
    if math.isnan(a) and math.isnan(b):
        return True
    return ML.close(a, b, REL) or abs(a - b) <= 1e-9


def run(ctx: Ctx):
    ctx.lean_gate()
    ctx.anchors(ANCHORS)
    ctx.cov["rule"] = ("seeded small specs (incl. 2-Einsum fused chains) × 5 metric sets; every returned row compared: joiner totals vs "
                       "in-mapper detailed evaluation vs independent YAML reconstruction + evaluate_mapping. non-trivial = a row of a "
                       "2-Einsum spec or a row with a GlobalBuffer-resident tensor")
    ctx.cov["tolerance"] = REL
    ctx.assumptions += ["float32 effects only by relative tolerance %g" % REL]
    n = 30 if ctx.thorough else 8
    jobs = []
    for i in range(n):
        p = ML.gen_params(ctx.rng, n_einsums=2 if i % 2 == 0 else None, kind="matmuls" if i % 2 == 0 else None)
        mets = METRIC_SETS[i % len(METRIC_SETS)]
        if i % 4 == 3:
            # directed stream: many returned rows that share one pmapping template with different tile shapes
            # (single Einsum, divisor-rich bounds, tight finite buffer, usage requested as an objective)
            p = ML.gen_params(ctx.rng, n_einsums=1, kind="matmuls", levels=2, finite_glb=True)
            p["workload"].update(M=8, KN=8)
            p["glb_size"] = ctx.rng.choice([200, 320, 520]) * p["bits"] // 8
            p["glb_tp"] = ctx.rng.choice([2, 4])
            mets = ["ENERGY", "LATENCY", "RESOURCE_USAGE"]
        jobs.append((p, mets))
    results = ML.pool_map(work, jobs, workers=8)
    drv = ctx.driver()
    for (p, mets), res in zip(jobs, results):
        ctx.dist("+".join(mets))
        base = {"params": p, "metrics": mets}
        if res["F_error"] or res["T_error"]:
            ctx.case(base, nontrivial=False, branches=["error"])
            if bool(res["F_error"]) != bool(res["T_error"]):
                ctx.fail("detail-changes-outcome", "eval_in_detail changes whether the mapper succeeds",
                         {**base, "F_error": res["F_error"], "T_error": res["T_error"]})
            continue
        if res["nF"] != res["nT"]:
            ctx.fail("row-count", "eval_in_detail changes the number of returned mappings", {**base, "nF": res["nF"], "nT": res["nT"]})
            continue
        for rec in res["rows"]:
            rep = {**base, **{k: rec.get(k) for k in ("i", "mapping", "F", "ev_error")}}
            multi = p["workload"].get("N_EINSUMS", 1) > 1
            ctx.case({"params": p, "metrics": mets, "row": rec["i"], "F": rec["F"]}, nontrivial=True,
                     branches=["fused-2" if multi else "single"])
            if rec.get("mapping") is None:
                ctx.fail("mapping-not-reconstructible", "a returned row's mapping could not be reconstructed", {**rep, "err": rec.get("mapping_error")})
                continue
            if not rec["same_mapping"]:
                ctx.fail("detail-changes-mapping", "row i holds a different mapping with and without eval_in_detail", rep)
            if rec.get("ev_error"):
                ctx.fail("returned-mapping-rejected", "evaluate_mapping rejects a mapping the mapper returned", {**rep, "error": rec["ev_error"]})
                continue
            F, T, EV = rec["F"], rec["T"], rec["EV"]
            for c, v in F.items():  # joiner totals vs both evaluations
                for other, name in ((T, "in-mapper-detail"), (EV, "independent")):
                    if c in other and not close(v, other[c]):
                        kind = c.split("<SEP>")[0] + ":" + c.split("<SEP>")[1 if c.startswith("Total") else 0]
                        ctx.fail(f"joiner-vs-model:{kind}", f"joiner-reported {c} differs from the model's evaluation ({name})",
                                 {**rep, "column": c, "joiner": v, "model": other[c]})
            for c, v in T.items():  # in-mapper detailed evaluation vs independent reconstruction (all columns)
                if c in EV and not close(v, EV[c]):
                    ctx.fail("detail-vs-independent", f"detailed column {c} differs from an independent evaluation of the same mapping",
                             {**rep, "column": c, "detail": v, "independent": EV[c]})
            # Lean: totals are exact sums of the per-Einsum breakdown columns
            for what in ("energy", "latency"):
                parts = [v for c, v in T.items() if not c.startswith(("Total", "reservation")) and c.split("<SEP>")[1] == what
                         and not (what == "latency" and False)]
                if what == "latency":
                    # per Einsum: max over components; total = sum over Einsums
                    per = {}
                    for c, v in T.items():
                        s = c.split("<SEP>")
                        if len(s) == 3 and s[1] == "latency":
                            per.setdefault(s[0], []).append(v)
                    req = {"op": "sumOfMax", "groups": [ML.to_int_vec(vs) for vs in per.values()]}
                else:
                    req = {"op": "sumOfMax", "groups": [[x] for x in ML.to_int_vec(parts)]}
                tot = T.get(f"Total<SEP>{what}")
                if tot is None or not req["groups"]:
                    continue
                m = drv.ask("C04", req)
                if not isinstance(m, int):
                    raise RuntimeError(f"driver: {m}")
                if not close(m / float(1 << 20), tot):
                    ctx.fail(f"total-vs-breakdown:{what}", f"Total {what} is not the sum of the per-Einsum breakdown",
                             {**rep, "total": tot, "sum": m / float(1 << 20)})
