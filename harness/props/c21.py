"""C21 — spec expressions evaluate in dependency order with correct scoping.

Proof:   AFV/Props/C21.lean  (order_perm, order_respects_deps, order_ok_iff_acyclic, cycle_raises, eval_fixpoint,
         sem_unique, eval_complete, eval_key_order_irrelevant, inner_shadows_outer, evalAll_sem, scope_chain,
         evalAll_key_order_irrelevant, order_valid, …)
Model:   AFV/Model/Topo.lean  (order = _get_parsable_field_order, evalOrder/evalScopeG = _eval_expressions_final,
         evalAll = Spec._spec_eval_expressions threading the symbol table through spec variables ⊃ arch variables ⊃
         component extra attributes ⊃ the component's own numeric fields)
Spec:    AFV/Spec/Topo.lean   (Dep, Cyclic, Sem, SemAll, validOrder)
Tie:     correspondence.  Random definition graphs (≤ 12 integer definitions over + - * unary-minus parentheses,
         acyclic or with embedded cycles) are placed in `Spec.variables`, `Arch.variables`, the components'
         `extra_attributes_for_component_model` and the components' own numeric fields, in random key orders, and
         evaluated by the real `Spec._spec_eval_expressions` / `Spec.calculate_component_costs`.  The values of every
         defined name in every scope (or the EvaluationError) are compared with the Lean model `evalAll`, which is
         fed the *Python parser's own AST* of the very strings given to the implementation.
         A second stream calls `_get_parsable_field_order` directly on mixed (plain / nested / EvalsTo) fields and has
         the returned order judged by the proved-sound Lean checker `validOrder`.

The judge of a disagreement is the property (theorems sem_unique / eval_complete / order_ok_iff_acyclic make the
model's answer the only one the property allows): values ≠ model values, a value where a cycle exists, or an error on
an acyclic fully-defined input are all property violations.
"""
from __future__ import annotations

import ast
import itertools
import json
import keyword
import logging

from harness.core import Ctx, HarnessError, CORPUS_DIR, VERIF

ANCHORS = [
    "accelforge.util._basetypes:_get_parsable_field_order",
    "accelforge.util._basetypes:eval_field",
    "accelforge.util._basetypes:Evalable._eval_expressions_final",
    "accelforge.util._basetypes:EvalableModel._eval_expressions",
    "accelforge.util._basetypes:EvalableModel.get_fields",
    "accelforge.util._basetypes:EvalableDict._eval_expressions",
    "accelforge.util._basetypes:EvalableList._eval_expressions",
    "accelforge.util._eval_expressions:eval_expression",
    "accelforge.util._eval_expressions:cast_to_numeric",
    "accelforge.frontend.spec:Spec._spec_eval_expressions",
    "accelforge.frontend.spec:Spec.calculate_component_costs",
    "accelforge.frontend.arch.arch:Arch._eval_expressions",
    "accelforge.frontend.arch.components:Component._eval_expressions",
    "accelforge.frontend.arch.components:_ExtraAttrs._eval_expressions",
]

# component fields whose validator is EvalsTo[int | float …] and that the generators may define / mention
OWN_COMMON = ["area", "leak_power", "area_scale", "leak_power_scale", "energy_scale", "actions_scale",
              "throughput_scale", "n_parallel_instances"]
OWN_MEMORY = OWN_COMMON + ["size"]
COMP_PRE = ["extra_attributes_for_component_model"]  # Component._eval_expressions: order = (this,) + order

NAME_POOLS = {
    "plain": ["a", "b", "c", "d", "f", "g", "h", "k", "m", "n", "p", "q", "r", "s", "t", "u", "v", "w", "x", "y", "z"],
    # names that are prefixes / suffixes / substrings of each other, with digits and underscores (regex \b boundaries)
    "prefix": ["a", "aa", "aaa", "a_a", "a_", "_a", "a1", "a11", "a_1", "ab", "abc", "b", "ba", "bab", "b_",
               "x", "xx", "x_1", "x1", "x10", "x_", "_x", "xa", "ax", "A", "Aa", "aA"],
}


# --------------------------------------------------------------------------------------- expressions
class Gen:
    """Random arithmetic expression strings that mention a given list of names."""

    def __init__(self, rng):
        self.rng = rng

    def tree(self, names: list[str], extra_leaves: int):
        rng = self.rng
        leaves = [("v", n) for n in names] + [("n", rng.choice([0, 1, 1, 2, 2, 3, 4, 5, 7, 10])) for _ in range(extra_leaves)]
        if not leaves:
            leaves = [("n", rng.randint(0, 12))]
        rng.shuffle(leaves)
        nodes = leaves
        while len(nodes) > 1:
            i = rng.randrange(len(nodes) - 1)
            op = rng.choice(["+", "+", "-", "-", "*"])
            nodes[i : i + 2] = [(op, nodes[i], nodes[i + 1])]
            if rng.random() < 0.12:
                nodes[i] = ("~", nodes[i])
        t = nodes[0]
        if rng.random() < 0.08:
            t = ("~", t)
        return t

    PREC = {"+": 1, "-": 1, "*": 2, "~": 3}

    def render(self, t, parent_prec=0, right=False) -> str:
        rng = self.rng
        k = t[0]
        sp = lambda: rng.choice(["", "", " ", " ", "  "])
        if k == "n":
            s = str(t[1])
        elif k == "v":
            s = t[1]
        elif k == "~":
            inner = self.render(t[1], 3)
            s = "-" + sp() + inner
            if parent_prec >= 3 or right:  # avoid "--x" / "a - -x" ambiguity in reading; both are valid python anyway
                s = "(" + s + ")"
            return s
        else:
            p = self.PREC[k]
            l = self.render(t[1], p, False)
            r = self.render(t[2], p + 1, True)  # left-assoc: parenthesise equal-precedence right operands
            s = l + sp() + k + sp() + r
            if p < parent_prec:
                s = "(" + sp() + s + sp() + ")"
        if rng.random() < 0.1:
            s = "(" + s + ")"
        return s

    def expr(self, names: list[str], extra_leaves: int | None = None):
        """→ value to hand to accelforge: an expression string, or sometimes a bare int for constants"""
        rng = self.rng
        if extra_leaves is None:
            extra_leaves = rng.choice([0, 0, 1, 1, 2])
        t = self.tree(list(names), extra_leaves)
        if t[0] == "n" and rng.random() < 0.5:
            return t[1]  # a YAML integer, not a string
        s = self.render(t)
        if rng.random() < 0.15:
            s = " " + s
        if rng.random() < 0.15:
            s = s + " "
        return s


def to_rpn(value) -> list:
    """Postfix tokens of the expression *as Python's own parser reads the string*."""
    if isinstance(value, bool):
        raise HarnessError("bool value in generated definition")
    if isinstance(value, int):
        return [value]
    node = ast.parse(value.strip(), mode="eval").body
    out: list = []

    def go(n):
        if isinstance(n, ast.Constant) and type(n.value) is int:
            out.append(n.value)
        elif isinstance(n, ast.Name):
            out.append(n.id)
        elif isinstance(n, ast.UnaryOp) and isinstance(n.op, ast.USub):
            go(n.operand)
            out.append("~")
        elif isinstance(n, ast.UnaryOp) and isinstance(n.op, ast.UAdd):
            go(n.operand)
        elif isinstance(n, ast.BinOp) and isinstance(n.op, (ast.Add, ast.Sub, ast.Mult)):
            go(n.left)
            go(n.right)
            out.append({ast.Add: "+", ast.Sub: "-", ast.Mult: "*"}[type(n.op)])
        else:
            raise ValueError("outside the modelled fragment: " + ast.dump(n))

    go(node)
    return out


def names_in(value) -> set:
    return {t for t in to_rpn(value) if isinstance(t, str) and t not in "+-*~"}


# --------------------------------------------------------------------------------------- the implementation side
class Impl:
    def __init__(self):
        logging.disable(logging.WARNING)
        import warnings

        warnings.filterwarnings("ignore")
        from accelforge.frontend.spec import Spec
        from accelforge.frontend.arch import Arch, Memory, Compute
        from accelforge.frontend.variables import Variables
        from accelforge.util.exceptions import EvaluationError
        import accelforge.util._basetypes as B
        import accelforge.util._eval_expressions as E

        self.Spec, self.Arch, self.Memory, self.Compute, self.Variables = Spec, Arch, Memory, Compute, Variables
        self.EvaluationError = EvaluationError
        self.B, self.E = B, E
        # names the generators must never use: built-ins of the evaluator, python keywords, every name the symbol
        # table holds besides user definitions, every field of the objects involved
        res = set(E.MATH_FUNCS) | set(keyword.kwlist) | set(keyword.softkwlist)
        res |= {"true", "false", "True", "False", "None", "inf", "nan", "infinity", "spec", "variables", "renames",
                "workload", "arch", "einsums", "All", "Inputs", "Outputs", "Tensors", "Nothing", "Intermediates",
                "arch_extra_attributes_for_all_component_models", "M0", "M1", "M2", "MAC"}
        for cls in (Spec, Arch, Memory, Compute, Variables):
            res |= set(cls.model_fields.keys())
        self.reserved = res
        self.own_ok = {"Memory": [f for f in OWN_MEMORY if f in Memory.model_fields],
                       "Compute": [f for f in OWN_COMMON if f in Compute.model_fields]}

    # -- build the real Spec from a case
    def build(self, case):
        nodes = []
        for c in case["comps"]:
            own = dict(c["own"])
            if c["kind"] == "Memory":
                own.setdefault("size", 1)
            own.setdefault("area", 0)
            own.setdefault("leak_power", 0)
            kw = dict(name=c["name"], extra_attributes_for_component_model=dict(c["attrs"]), **own)
            if c["kind"] == "Memory":
                nodes.append(self.Memory(actions=[{"name": "read", "energy": 1, "latency": 0},
                                                  {"name": "write", "energy": 1, "latency": 0}], **kw))
            else:
                nodes.append(self.Compute(actions=[{"name": "compute", "energy": 1, "latency": 1}], **kw))
        return self.Spec(variables=self.Variables(**dict(case["spec"])),
                         arch=self.Arch(variables=dict(case["arch"]), nodes=nodes))

    # -- classify the fields of a (not yet evaluated) component the way the code does, for the model
    def comp_fields(self, comp) -> tuple[list, list]:
        from typing import get_origin

        B, E = self.B, self.E
        fields, unmodelled = [], []
        for f in comp.get_fields():
            value = getattr(comp, f)
            validator = comp.get_validator(f)
            if isinstance(value, B.Evalable):
                fields.append([f, "nested"])
            elif get_origin(validator) is not B.EvalsTo:
                fields.append([f, "plain"])
            elif isinstance(value, str) and not E.is_literal_string(value):
                try:
                    fields.append([f, "expr", to_rpn(value)])
                except (ValueError, SyntaxError):
                    fields.append([f, "opaque"])
                    unmodelled.append(f)
            elif type(value) is int:
                fields.append([f, "expr", [value]])
            else:
                fields.append([f, "opaque"])
        return fields, unmodelled

    def model_request(self, case, spec) -> dict:
        comps = []
        for c in case["comps"]:
            comp = spec.arch.find(c["name"])
            fields, unm = self.comp_fields(comp)
            comps.append({"attrs": [[k, to_rpn(v)] for k, v in c["attrs"]], "pre": COMP_PRE, "fields": fields,
                          "_unmodelled": unm})
        return {"spec": [[k, to_rpn(v)] for k, v in case["spec"]],
                "arch": [[k, to_rpn(v)] for k, v in case["arch"]],
                "comps": comps}

    @staticmethod
    def _num(v):
        if isinstance(v, bool) or not isinstance(v, (int, float)):
            return {"non-numeric": repr(v)[:80], "type": type(v).__name__}
        if isinstance(v, float):
            return int(v) if v == int(v) else {"non-integer": repr(v)}
        return v

    def observe(self, case, req, ev) -> dict:
        """canonical observable of an evaluated spec: defined names → values, per scope"""
        out = {"spec": sorted([k, self._num(ev.variables[k])] for k, _ in case["spec"]),
               "arch": sorted([k, self._num(ev.arch.variables[k])] for k, _ in case["arch"]),
               "comps": []}
        for c, rc in zip(case["comps"], req["comps"]):
            comp = ev.arch.find(c["name"])
            ex = comp.extra_attributes_for_component_model
            own_names = sorted(f[0] for f in rc["fields"] if f[1] == "expr")
            out["comps"].append({"attrs": sorted([k, self._num(ex[k])] for k, _ in c["attrs"]),
                                 "own": [[f, self._num(getattr(comp, f))] for f in own_names]})
        return out

    # -- the same case written as a YAML file, loaded by Spec.from_yaml (jinja + ruamel + pydantic)
    _yaml_n = 0

    @staticmethod
    def yaml_scalar(v) -> str:
        if isinstance(v, int):
            return str(v)
        import re

        s = re.sub(r"^-\s+", "-", v.strip())  # "- x" would read as a YAML sequence
        return s

    def yaml_text(self, case) -> str:
        def block(defs, ind):
            if not defs:
                return " {}\n"
            return "\n" + "".join(f"{ind}{k}: {self.yaml_scalar(v)}\n" for k, v in defs)

        out = ["variables:" + block(case["spec"], "  "), "arch:\n", "  variables:" + block(case["arch"], "    "), "  nodes:\n"]
        for c in case["comps"]:
            own = dict(c["own"])
            if c["kind"] == "Memory":
                own.setdefault("size", 1)
            own.setdefault("area", 0)
            own.setdefault("leak_power", 0)
            items = [("name", c["name"])] + list(own.items())
            self_rng_items = items[1:]
            out.append(f"  - !{c['kind']}\n")
            out.append(f"    name: {c['name']}\n")
            # keep the user's key order for own fields, defaults appended
            for k, v in self_rng_items:
                out.append(f"    {k}: {self.yaml_scalar(v)}\n")
            out.append("    extra_attributes_for_component_model:" + block(c["attrs"], "      "))
            if c["kind"] == "Memory":
                out.append("    actions:\n    - {name: read, energy: 1, latency: 0}\n    - {name: write, energy: 1, latency: 0}\n")
            else:
                out.append("    actions:\n    - {name: compute, energy: 1, latency: 1}\n")
        return "".join(out)

    def canon_yaml_case(self, case):
        import copy

        c2 = copy.deepcopy(case)
        for sc in ("spec", "arch"):
            c2[sc] = [(k, self._yaml_value(v)) for k, v in c2[sc]]
        for c in c2["comps"]:
            c["attrs"] = [(k, self._yaml_value(v)) for k, v in c["attrs"]]
            c["own"] = [(k, self._yaml_value(v)) for k, v in c["own"]]
        return c2

    def _yaml_value(self, v):
        """what the YAML loader hands to accelforge for the scalar we wrote"""
        s = self.yaml_scalar(v)
        try:
            return int(s)  # plain YAML integers ("7", "-7") arrive as ints
        except ValueError:
            return s

    def run(self, case, path: str):
        """→ (request for the model, outcome) ; outcome = {"ok": observable} | {"error": "EvaluationError"} |
        {"exception": type}"""
        if path == "yaml":
            import os

            Impl._yaml_n += 1
            fn = os.path.abspath(f"c21_{Impl._yaml_n}.yaml")
            with open(fn, "w") as fh:
                fh.write(self.yaml_text(case))
            try:
                spec = self.Spec.from_yaml(fn)
            finally:
                os.unlink(fn)
            case = self.canon_yaml_case(case)
        else:
            spec = self.build(case)
        req = self.model_request(case, spec)
        try:
            if path == "ccc":
                ev = spec.calculate_component_costs()
            elif path == "twice":
                ev = spec._spec_eval_expressions()._spec_eval_expressions()
            elif path == "eval-then-ccc":
                ev = spec._spec_eval_expressions().calculate_component_costs()
            else:
                ev = spec._spec_eval_expressions()
        except self.EvaluationError as e:
            return req, {"error": "EvaluationError", "message": str(e).splitlines()[0][:200]}
        except RecursionError:
            return req, {"exception": "RecursionError"}
        except Exception as e:  # noqa: BLE001 — any other exception type is an observable outcome
            return req, {"exception": type(e).__name__, "message": str(e)[:200]}
        return req, {"ok": self.observe(case, req, ev)}


def strip_req(req):
    return {"spec": req["spec"], "arch": req["arch"],
            "comps": [{k: v for k, v in c.items() if not k.startswith("_")} for c in req["comps"]]}


# --------------------------------------------------------------------------------------- case generators
class Cases:
    def __init__(self, rng, impl: Impl):
        self.rng, self.impl, self.g = rng, impl, Gen(rng)

    def pool(self, which: str) -> list[str]:
        return [n for n in NAME_POOLS[which] if n not in self.impl.reserved and not n.startswith("global_")]

    def layout(self, n_comps=None):
        rng = self.rng
        if n_comps is None:
            n_comps = rng.choice([1, 2, 2, 3])
        comps = [{"kind": "Memory", "name": f"M{i}", "attrs": [], "own": []} for i in range(n_comps - 1)]
        comps.append({"kind": "Compute", "name": "MAC", "attrs": [], "own": []})
        return {"spec": [], "arch": [], "comps": comps}

    def scopes(self, case):
        """scope ids: ("spec",), ("arch",), ("attrs", i), ("own", i); and the chain of enclosing scopes"""
        ids = [("spec",), ("arch",)]
        for i in range(len(case["comps"])):
            ids += [("attrs", i), ("own", i)]
        return ids

    @staticmethod
    def chain(sid):
        if sid[0] == "spec":
            return [sid]
        if sid[0] == "arch":
            return [("spec",), sid]
        if sid[0] == "attrs":
            return [("spec",), ("arch",), sid]
        return [("spec",), ("arch",), ("attrs", sid[1]), sid]

    def defs_of(self, case, sid):
        if sid[0] in ("spec", "arch"):
            return case[sid[0]]
        return case["comps"][sid[1]][sid[0]]

    def own_names(self, case, i):
        return self.impl.own_ok[case["comps"][i]["kind"]]

    # defaults of own fields that exist even when the case does not define them (shadow outer names!)
    def implicit_own(self, case, i):
        kind = case["comps"][i]["kind"]
        d = {f: 1 for f in OWN_COMMON}
        d["area"] = 0
        d["leak_power"] = 0
        if kind == "Memory":
            d["size"] = 1
        return d

    def random_graph(self, pool_name="plain", n_defs=None, cyc_len=0, selfref_p=0.1, undefined_p=0.0,
                     shadow_p=0.35, bad_selfref_p=0.0):
        """A random case.  Inside every scope the same-scope dependency graph is acyclic (a random order is drawn and
        definitions only mention same-scope names that are *earlier* in it), except for one embedded cycle of length
        `cyc_len` ≥ 2 when requested; `cyc_len == 1` = a self-reference."""
        rng = self.rng
        case = self.layout()
        pool = self.pool(pool_name)
        n_defs = n_defs or rng.randint(2, 12)
        sids = self.scopes(case)
        weights = {"spec": 4, "arch": 3, "attrs": 2, "own": 1}
        # choose (scope, name) slots
        slots = []
        tries = 0
        while len(slots) < n_defs and tries < 200:
            tries += 1
            sid = rng.choices(sids, [weights[s[0]] for s in sids])[0]
            if sid[0] == "own":
                cand = self.own_names(case, sid[1])
            else:
                cand = pool
                # shadowing: reuse a name already defined in another scope
                used = sorted({n for s, n in slots})
                if used and rng.random() < shadow_p:
                    cand = [n for n in used if n in pool] or pool
            name = rng.choice(cand)
            if (sid, name) in slots:
                continue
            slots.append((sid, name))
        by_scope = {}
        for sid, name in slots:
            by_scope.setdefault(sid, []).append(name)
        # embedded cycle
        cyc_scope, cyc_names = None, []
        if cyc_len >= 2:
            cands = [s for s, ns in by_scope.items() if len(ns) >= cyc_len]
            if not cands:
                # force: put enough names into one scope
                s = rng.choice([("spec",), ("arch",), ("attrs", 0)])
                have = by_scope.setdefault(s, [])
                free = [n for n in pool if n not in have]
                rng.shuffle(free)
                have += free[: cyc_len - len(have)]
                cands = [s]
            cyc_scope = rng.choice(cands)
            cyc_names = rng.sample(by_scope[cyc_scope], cyc_len)
        for sid, names in by_scope.items():
            rng.shuffle(names)  # the hidden dependency order of this scope
            visible_outer = []
            for outer in self.chain(sid)[:-1]:
                visible_outer += by_scope.get(outer, [])
                if outer[0] == "own":
                    pass
            # own fields of the same component are visible from nowhere else; implicit own defaults are visible in "own"
            if sid[0] == "own":
                visible_same_implicit = list(self.implicit_own(case, sid[1]).keys())
            else:
                visible_same_implicit = []
            defs = []
            for j, name in enumerate(names):
                earlier = names[:j]
                mention = []
                k = rng.choice([0, 1, 1, 2, 2, 3])
                cands = earlier + [n for n in visible_outer if n != name and n not in names]
                # outer names that are redefined later in this scope would be same-scope dependencies → excluded above
                if cands:
                    mention = [rng.choice(cands) for _ in range(k)]
                if sid[0] == "own" and visible_same_implicit and rng.random() < 0.2:
                    imp = [n for n in visible_same_implicit if n not in names]
                    if imp:
                        mention.append(rng.choice(imp))
                has_outer = name in visible_outer
                if (has_outer and rng.random() < selfref_p) or (not has_outer and rng.random() < bad_selfref_p):
                    mention.append(name)  # self-reference: reads the enclosing scope (error if there is none)
                if rng.random() < undefined_p:
                    mention.append(rng.choice(pool))  # may or may not be visible
                if sid == cyc_scope and name in cyc_names:
                    nxt = cyc_names[(cyc_names.index(name) + 1) % len(cyc_names)]
                    mention.append(nxt)
                rng.shuffle(mention)
                defs.append((name, self.g.expr(mention)))
            rng.shuffle(defs)  # the key order the user wrote
            self.defs_of(case, sid).extend(defs)
        return case

    def shadow_case(self, xname=None):
        """one name defined in several nested scopes with different values and mentioned everywhere.
        `xname`: use this name (e.g. the name of an evaluator built-in such as `e`, `pi`, `max`), always defined at spec
        level so that every mention resolves to a user definition."""
        rng = self.rng
        case = self.layout(rng.choice([2, 3]))
        pool = self.pool("plain")
        x, y, z = rng.sample(pool, 3)
        levels = [("spec",), ("arch",)] + [("attrs", i) for i in range(len(case["comps"]))]
        defined_in = [s for s in levels if rng.random() < 0.6] or [("spec",)]
        if xname is not None:
            x = xname
            if ("spec",) not in defined_in:
                defined_in.insert(0, ("spec",))
        for s in defined_in:
            style = rng.choice(["const", "self", "const"])
            if style == "self" and s != ("spec",) and any(t in defined_in for t in self.chain(s)[:-1]):
                v = self.g.expr([x], 1)
            else:
                v = self.g.expr([], 1)
            self.defs_of(case, s).append((x, v))
        def visible(s):
            return any(t in defined_in for t in self.chain(s))

        for s in levels:
            if rng.random() < 0.8 and (visible(s) or (xname is None and rng.random() < 0.1)):
                self.defs_of(case, s).append((rng.choice([y, z]) if s[0] != "spec" else y, self.g.expr([x], 1)))
        for i in range(len(case["comps"])):
            if rng.random() < 0.7 and (visible(("attrs", i)) or (xname is None and rng.random() < 0.1)):
                f = rng.choice(self.own_names(case, i))
                case["comps"][i]["own"].append((f, self.g.expr([x], 1)))
        # dedupe keys per scope (later wins = dict semantics; keep first to stay simple)
        for s in self.scopes(case):
            seen, out = set(), []
            for k, v in self.defs_of(case, s):
                if k not in seen:
                    seen.add(k)
                    out.append((k, v))
            self.defs_of(case, s)[:] = out
            rng.shuffle(self.defs_of(case, s))
        return case

    def sibling_case(self):
        """a name defined only inside one component is mentioned by a sibling component / by the arch level"""
        rng = self.rng
        case = self.layout(rng.choice([2, 3]))
        pool = self.pool("plain")
        x, y, w = rng.sample(pool, 3)
        i = rng.randrange(len(case["comps"]))
        where = rng.choice(["attrs", "own"])
        if where == "attrs":
            case["comps"][i]["attrs"].append((x, self.g.expr([], 1)))
            leaked = x
        else:
            f = rng.choice([n for n in self.own_names(case, i) if n not in ("area", "leak_power")])
            case["comps"][i]["own"].append((f, rng.randint(2, 9)))
            leaked = None  # own fields have implicit definitions in every component: no undefined name, but a value check
            x = f
        outer_has = rng.random() < 0.5
        if outer_has:
            case[rng.choice(["spec", "arch"])].append((x, self.g.expr([], 1)))
        j = rng.choice([k for k in range(len(case["comps"])) if k != i])
        if where == "own" and rng.random() < 0.5:
            case["comps"][j]["own"].append((rng.choice([n for n in self.own_names(case, j) if n != x and n not in ("area", "leak_power")]),
                                            self.g.expr([x], 1)))
        else:
            case["comps"][j]["attrs"].append((y, self.g.expr([x], 1)))
        if rng.random() < 0.3 and where == "attrs":
            case["arch"].append((w, self.g.expr([x], 0)))
        return case

    def exhaustive_small(self):
        """every dependency graph on 3 names (each definition mentions any subset of the 3 names, itself included),
        once in the spec variables with nothing enclosing, once in the arch variables with all 3 names defined outside"""
        names = ["a", "b", "c"]
        subsets = [list(s) for r in range(4) for s in itertools.combinations(names, r)]
        for combo in itertools.product(subsets, repeat=3):
            for where in ("spec", "arch"):
                case = {"spec": [], "arch": [], "comps": [{"kind": "Compute", "name": "MAC", "attrs": [], "own": []}]}
                defs = []
                for n, mention in zip(names, combo):
                    k = names.index(n) + 2
                    s = " + ".join(mention + [str(k)])
                    defs.append((n, s))
                if where == "arch":
                    case["spec"] = [("a", 10), ("b", 20), ("c", 30)]
                case[where] = defs
                yield case


# --------------------------------------------------------------------------------------- comparison
def compare(model, outcome):
    """→ None if the implementation's outcome is what the property demands, else (key, what)"""
    if "err" in model:
        raise HarnessError(f"driver rejected the request: {model}")
    if "ok" in model:
        if "ok" in outcome:
            if outcome["ok"] == model["ok"]:
                return None
            for scope in ("spec", "arch"):
                if outcome["ok"][scope] != model["ok"][scope]:
                    return (f"wrong-value-{scope}", f"a {scope}-level name does not have the value of its expression")
            for a, b in zip(outcome["ok"]["comps"], model["ok"]["comps"]):
                if a["attrs"] != b["attrs"]:
                    return ("wrong-value-component-attrs", "a component attribute does not have the value of its expression")
                if a["own"] != b["own"]:
                    return ("wrong-value-component-field", "a component field does not have the value of its expression")
            return ("wrong-value", "values differ")
        if "error" in outcome:
            return ("acyclic-raises", "EvaluationError raised for an acyclic set of definitions whose names are all defined")
        return ("acyclic-other-exception", f"{outcome.get('exception')} raised for an acyclic, fully defined input")
    if model.get("error") == "cycle":
        if "ok" in outcome:
            return ("cycle-not-raised", "a dependency cycle produced values instead of an EvaluationError")
        if "exception" in outcome:
            return ("cycle-other-exception", f"a dependency cycle raised {outcome['exception']} instead of EvaluationError")
        return None
    if model.get("error") == "undefined":
        if "ok" in outcome:
            return ("undefined-name-got-value", "a definition mentioning a name that is defined in no enclosing scope got a value")
        if "exception" in outcome:
            return ("undefined-other-exception", f"an undefined name raised {outcome['exception']} instead of EvaluationError")
        return None
    raise HarnessError(f"unexpected model reply {model}")


def features(case, model) -> list[str]:
    fs = []
    names_by_scope = {}
    all_defs = [("spec", case["spec"]), ("arch", case["arch"])]
    for i, c in enumerate(case["comps"]):
        all_defs += [(f"attrs{i}", c["attrs"]), (f"own{i}", c["own"])]
    defined = {}
    for s, defs in all_defs:
        for k, v in defs:
            defined.setdefault(k, []).append(s)
            ns = names_in(v)
            if k in ns:
                fs.append("self-reference")
            if ns - {k}:
                fs.append("has-dependency")
    if any(len(v) > 1 for v in defined.values()):
        fs.append("shadowing")
    if "ok" in model:
        fs.append("model-ok")
    else:
        fs.append("model-" + model["error"])
    return sorted(set(fs))


# --------------------------------------------------------------------------------------- shrinking
def shrink(case, still_fails):
    """greedy delta debugging on definitions, components, then expression → constant"""
    import copy

    cur = copy.deepcopy(case)
    changed = True
    while changed:
        changed = False
        # drop components (keep at least the last)
        for i in range(len(cur["comps"]) - 1):
            t = copy.deepcopy(cur)
            del t["comps"][i]
            for j, c in enumerate(t["comps"][:-1]):
                c["name"] = f"M{j}"
            if still_fails(t):
                cur, changed = t, True
                break
        if changed:
            continue
        lists = [cur["spec"], cur["arch"]] + [c[k] for c in cur["comps"] for k in ("attrs", "own")]
        for li, l in enumerate(lists):
            for di in range(len(l)):
                t = copy.deepcopy(cur)
                tl = ([t["spec"], t["arch"]] + [c[k] for c in t["comps"] for k in ("attrs", "own")])[li]
                del tl[di]
                if still_fails(t):
                    cur, changed = t, True
                    break
            if changed:
                break
        if changed:
            continue
        for li, l in enumerate(lists):
            for di, (k, v) in enumerate(l):
                if isinstance(v, str) and not names_in(v) and v.strip() != str(to_rpn(v)[0]):
                    pass
                if isinstance(v, str):
                    ns = sorted(names_in(v))
                    simpler = [" + ".join(ns) if ns else 1, 1]
                    for sv in simpler:
                        if sv == v:
                            continue
                        t = copy.deepcopy(cur)
                        tl = ([t["spec"], t["arch"]] + [c[kk] for c in t["comps"] for kk in ("attrs", "own")])[li]
                        tl[di] = (k, sv)
                        if still_fails(t):
                            cur, changed = t, True
                            break
                if changed:
                    break
            if changed:
                break
    return cur


# --------------------------------------------------------------------------------------- direct ordering stream
def order_triples(impl: Impl, ocase):
    """rebuild the (field, value, validator) triples and the model's view of them from a JSON-able description"""
    from typing import Any

    B = impl.B
    VAL = {"EvalsTo": B.EvalsTo[Any], "TryEvalTo": B.TryEvalTo[Any], "int": int, "str": str, "Any": Any}
    triples, fields = [], []
    for it in ocase["items"]:
        nm, kd, v = it["name"], it["kind"], it["value"]
        if kd == "nested":
            v = B.EvalableDict({"q": 1}) if v == "dict" else B.EvalableList([1])
            fields.append([nm, "nested"])
        elif kd == "expr":
            fields.append([nm, "expr", to_rpn(v)])
        elif kd == "opaque":
            v = {"none": None, "dict": {}, "float": 2.5}[v]
            fields.append([nm, "opaque"])
        else:  # plain, try: validator origin is not EvalsTo and the value is not Evalable → not sorted
            fields.append([nm, "plain"])
        triples.append((nm, v, VAL[it["validator"]]))
    return triples, fields


def check_order_case(ctx, impl: Impl, drv, ocase) -> tuple[bool, bool]:
    """→ (fine, same order as the model)"""
    B = impl.B
    triples, fields = order_triples(impl, ocase)
    pre = ocase["pre"]
    try:
        got = B._get_parsable_field_order(tuple(pre), list(triples))
        outcome = {"ok": [str(x) for x in got]}
    except impl.EvaluationError:
        outcome = {"error": "EvaluationError"}
    except Exception as e:  # noqa: BLE001
        outcome = {"exception": type(e).__name__}
    m = drv.ask("C21", {"op": "order", "pre": pre, "fields": fields})
    if "err" in m:
        raise HarnessError(f"driver rejected order request: {m}")
    ctx.case({"pre": pre, "fields": fields}, nontrivial=len(fields) >= 2, branches=["order-" + ("ok" if "ok" in m else "cycle")])
    ctx.dist("stream=order")
    replay = {"stream": "order", "order_case": ocase, "model_fields": fields, "implementation": outcome, "model": m,
              "how_to_run": "accelforge.util._basetypes._get_parsable_field_order(tuple(pre), [(name, value, validator)…])"}
    if "error" in m:
        if "ok" in outcome:
            ctx.fail("order-cycle-not-raised", "_get_parsable_field_order returned an order although the fields contain a dependency cycle", replay)
            return False, False
        if "exception" in outcome:
            ctx.fail("order-cycle-other-exception", "_get_parsable_field_order raised a non-EvaluationError for a cycle", replay)
            return False, False
        return True, True
    if "ok" not in outcome:
        ctx.fail("order-acyclic-raises", "_get_parsable_field_order raised on acyclic fields", replay)
        return False, False
    v = drv.ask("C21", {"op": "validorder", "pre": pre, "fields": fields, "out": outcome["ok"]})
    if not v.get("valid"):
        ctx.fail("order-invalid", "_get_parsable_field_order returned an order that is not (pre-ordered, non-evaluated, "
                 "then a dependency-respecting permutation of the sorted fields)", replay)
        return False, False
    return True, outcome["ok"] == m["ok"]


def order_stream(ctx, impl: Impl, drv, n):
    rng = ctx.rng
    g = Gen(rng)
    pool = sorted({n_ for n_ in NAME_POOLS["prefix"] + NAME_POOLS["plain"] if n_ not in impl.reserved})
    exact_diff = 0
    n_bad = 0
    for _ in range(n):
        if n_bad >= 6:
            break
        k = rng.randint(0, 9)
        names = rng.sample(pool, k)
        kinds = [rng.choices(["expr", "plain", "nested", "opaque", "try"], [6, 2, 2, 1, 1])[0] for _ in names]
        n_pre = rng.choice([0, 0, 1, 2])
        pre = rng.sample(names, min(n_pre, len(names)))
        cyclic = rng.random() < 0.3
        perm = list(range(k))
        rng.shuffle(perm)  # hidden order
        rank = {names[i]: r for r, i in enumerate(perm)}
        kinds = [("nested" if (nm in pre and kd in ("expr", "try")) else kd) for nm, kd in zip(names, kinds)]
        exprs = [nm for nm, kd in zip(names, kinds) if kd == "expr"]
        ring = rng.sample(exprs, rng.randint(2, min(4, len(exprs)))) if cyclic and len(exprs) >= 2 else []
        items = []
        for nm, kd in zip(names, kinds):
            if kd == "expr":
                cands = [m for m in names if m != nm and rank[m] < rank[nm]]
                mention = rng.sample(cands, min(len(cands), rng.choice([0, 1, 1, 2])))
                if nm in ring:
                    mention.append(ring[(ring.index(nm) + 1) % len(ring)])
                if rng.random() < 0.15:
                    mention.append(nm)
                items.append({"name": nm, "kind": "expr", "value": g.expr(mention), "validator": "EvalsTo"})
            elif kd == "opaque":
                items.append({"name": nm, "kind": "opaque", "value": rng.choice(["none", "dict", "float"]), "validator": "EvalsTo"})
            elif kd == "plain":
                # a plain field's value may be a string mentioning others: it must NOT create dependencies
                v = rng.choice([3, "x + 1", g.expr(rng.sample(names, min(2, len(names))))])
                items.append({"name": nm, "kind": "plain", "value": v, "validator": rng.choice(["int", "str", "Any"])})
            elif kd == "try":
                items.append({"name": nm, "kind": "try", "value": g.expr(rng.sample(names, min(1, len(names)))), "validator": "TryEvalTo"})
            else:
                items.append({"name": nm, "kind": "nested", "value": rng.choice(["dict", "list"]),
                              "validator": rng.choice(["Any", "EvalsTo"])})
        fine, same = check_order_case(ctx, impl, drv, {"pre": pre, "items": items})
        if not fine:
            n_bad += 1
        elif not same:
            exact_diff += 1
    ctx.cov["order_stream_valid_but_different_from_model"] = exact_diff


# --------------------------------------------------------------------------------------- main
def check_case(ctx, impl, drv, case, stream, path="eval", do_shrink=True):
    req, outcome = impl.run(case, path)
    model = drv.ask("C21", {"op": "eval", **strip_req(req)})
    if "err" in model:
        raise HarnessError(f"driver rejected request ({model}) for case {case}")
    if path in ("ccc", "eval-then-ccc") and "ok" in outcome and "ok" in model:
        # calculate_component_costs rescales area / leak_power afterwards (C26/C27 territory): not compared here
        for oc, mc in zip(outcome["ok"]["comps"], model["ok"]["comps"]):
            oc["own"] = [p for p in oc["own"] if p[0] not in ("area", "leak_power", "total_area", "total_leak_power")]
            mc["own"] = [p for p in mc["own"] if p[0] not in ("area", "leak_power", "total_area", "total_leak_power")]
    n_defs = len(case["spec"]) + len(case["arch"]) + sum(len(c["attrs"]) + len(c["own"]) for c in case["comps"])
    fs = features(case, model)
    ctx.case(strip_req(req), nontrivial=n_defs >= 2 and ("has-dependency" in fs or "self-reference" in fs), branches=fs)
    ctx.dist(f"stream={stream}")
    ctx.dist(f"outcome[{stream}]=" + ("ok" if "ok" in model else model["error"]))
    ctx.dist(f"path={path}")
    ctx.dist(f"n_defs={min(n_defs, 13)}")
    for c in req["comps"]:
        for f in c["_unmodelled"]:
            ctx.cov.setdefault("unmodelled_component_fields", [])
            if f not in ctx.cov["unmodelled_component_fields"]:
                ctx.cov["unmodelled_component_fields"].append(f)
    verdict = compare(model, outcome)
    if verdict is None:
        return True
    key, what = verdict
    small, s_req, s_out, s_model = case, req, outcome, model
    if do_shrink:
        def still(t):
            try:
                r, o = impl.run(t, path)
                m = drv.ask("C21", {"op": "eval", **strip_req(r)})
                if "err" in m:
                    return False
                vv = compare(m, o)
                return vv is not None and vv[0] == key
            except Exception:  # noqa: BLE001
                return False

        small = shrink(case, still)
        s_req, s_out = impl.run(small, path)
        s_model = drv.ask("C21", {"op": "eval", **strip_req(s_req)})
    judge = None
    if "ok" in s_out and all(isinstance(p[1], int) for sc in ("spec", "arch") for p in s_out["ok"][sc]):
        try:
            judge = drv.ask("C21", {"op": "judge", **strip_req(s_req), "vals": s_out["ok"]})
        except Exception:  # noqa: BLE001
            judge = None
    ctx.fail(key, what, {"stream": stream, "path": path, "case": small, "implementation": s_out, "model": s_model,
                         "property_judge_per_scope": judge, "original_case": case if small is not case else None,
                         "how_to_run": "Spec(variables=Variables(**spec), arch=Arch(variables=arch, nodes=[Memory/Compute("
                                       "name, extra_attributes_for_component_model=attrs, **own)…]))._spec_eval_expressions()"})
    return False


def run(ctx: Ctx):
    ctx.lean_gate()
    ctx.anchors(ANCHORS)
    ctx.cov["rule"] = (
        "definition graphs of 2..12 integer definitions (+ - * unary minus, parentheses, random spacing, small constants; "
        "strings or bare ints) spread over Spec.variables, Arch.variables, 1..3 components' extra attributes and own numeric "
        "fields, random key order; streams: dag, cycles of length 2..4 embedded in larger graphs, self-references with/without "
        "enclosing definition, names that are prefixes/substrings of each other, one name shadowed across scopes (also a user "
        "name that shadows an evaluator built-in such as e / pi / max), names "
        "leaking between sibling components, undefined names, all 2×512 dependency graphs on 3 names (exhaustive), the same "
        "through calculate_component_costs, and direct calls of _get_parsable_field_order on mixed field kinds. "
        "non-trivial = at least 2 definitions with a dependency or self-reference"
    )
    ctx.cov["trusted_base"] += [
        "CPython's ast.parse reads an expression string the same way CPython's eval does (the Lean model is fed Python's own AST)",
        "the harness' classification of component fields (nested / plain / EvalsTo) by introspection of the live objects",
    ]
    ctx.assumptions += [
        "Python's eval is modelled only on the fragment + - * unary-minus parentheses integer-constants identifiers; division, calls, attribute access, strings, floats are outside the model",
        "dependency detection by regex with word boundaries is modelled as exact identifier occurrence (measured by the prefix/substring stream)",
        "names colliding with the evaluator's built-ins (MATH_FUNCS: e, pi, max, …), with symbol-table entries of the framework (spec, arch, variables, leaf names, set names) or starting with 'global_' (which deliberately forbids shadowing) are excluded from the generators",
        "nested objects are modelled as scopes evaluated on a copy of the table; Arch's own field order (variables before nodes) and Component's (extra attributes first) are hard-wired in evalAll",
        "arch.extra_attributes_for_all_component_models (injection of global attributes into components) is kept empty: not modelled",
        "which EvaluationError is reported when several scopes are faulty is not compared (only: values vs EvaluationError)",
    ]
    impl = Impl()
    drv = ctx.driver()
    rng = ctx.rng
    cases = Cases(rng, impl)
    T = ctx.thorough

    # ---- corpus first
    cdir = CORPUS_DIR / "C21"
    if cdir.exists():
        for f in sorted(cdir.glob("*.json")):
            d = json.loads(f.read_text())
            case = d["case"]
            for sc in ("spec", "arch"):
                case[sc] = [tuple(p) for p in case[sc]]
            for c in case["comps"]:
                c["attrs"] = [tuple(p) for p in c["attrs"]]
                c["own"] = [tuple(p) for p in c["own"]]
            check_case(ctx, impl, drv, case, "corpus", d.get("path", "eval"), do_shrink=False)

    if ctx.replay:
        import os

        rp = ctx.replay if os.path.isabs(ctx.replay) else str(VERIF / ctx.replay)
        d = json.loads(open(rp).read())
        r = d.get("replay", d)
        if r.get("stream") == "order":
            check_order_case(ctx, impl, drv, r["order_case"])
            return
        if "case" in r:
            case = r["case"]
            for sc in ("spec", "arch"):
                case[sc] = [tuple(p) for p in case[sc]]
            for c in case["comps"]:
                c["attrs"] = [tuple(p) for p in c["attrs"]]
                c["own"] = [tuple(p) for p in c["own"]]
            check_case(ctx, impl, drv, case, "replay", r.get("path", "eval"), do_shrink=False)
            return

    budget_fail = 6  # stop a stream after this many distinct failures (keeps mutant runs short)

    def stream(name, n, make, path="eval"):
        bad = 0
        for _ in range(n):
            case = make()
            if not check_case(ctx, impl, drv, case, name, path):
                bad += 1
                if bad >= budget_fail:
                    break

    # ---- exhaustive small scope
    n_ex = 0
    bad = 0
    for case in cases.exhaustive_small():
        n_ex += 1
        if not check_case(ctx, impl, drv, case, "exhaustive-3", do_shrink=bad < 2):
            bad += 1
            if bad >= budget_fail:
                break
    ctx.cov["exhaustive"] = True
    ctx.cov["exhaustive_scope"] = f"all dependency graphs on 3 names (self-mentions included) in spec variables and in arch variables: {n_ex} cases"

    k = 15 if T else 1
    stream("dag", 500 * k, lambda: cases.random_graph("plain", selfref_p=0.15))
    stream("dag-prefix-names", 400 * k, lambda: cases.random_graph("prefix", selfref_p=0.15))
    stream("cycle", 300 * k, lambda: cases.random_graph(rng.choice(["plain", "prefix"]), n_defs=rng.randint(3, 12),
                                                        cyc_len=rng.choice([2, 2, 3, 4])))
    stream("self-reference", 300 * k, lambda: cases.random_graph(rng.choice(["plain", "prefix"]), selfref_p=0.8, shadow_p=0.7,
                                                                 bad_selfref_p=rng.choice([0, 0, 0.15])))
    stream("undefined", 200 * k, lambda: cases.random_graph("plain", undefined_p=0.15))
    stream("shadowing", 300 * k, cases.shadow_case)
    builtin_names = [n for n in ("e", "pi", "tau", "max", "min", "sum", "len", "abs", "log2", "ceil") if n in impl.E.MATH_FUNCS]
    stream("user-name-shadows-builtin", 100 * k, lambda: cases.shadow_case(xname=rng.choice(builtin_names)))
    stream("siblings", 300 * k, cases.sibling_case)
    stream("ccc", 150 * k, lambda: cases.random_graph("plain", n_defs=rng.randint(2, 8), selfref_p=0.2), path="ccc")
    stream("twice", 100 * k, lambda: cases.random_graph("plain", selfref_p=0.3), path="twice")
    stream("eval-then-ccc", 50 * k, lambda: cases.random_graph("plain", n_defs=rng.randint(2, 8), selfref_p=0.2), path="eval-then-ccc")
    stream("yaml", 150 * k, lambda: cases.random_graph(rng.choice(["plain", "prefix"]), selfref_p=0.2,
                                                       cyc_len=rng.choice([0, 0, 0, 2, 3])), path="yaml")
    stream("ccc-cycle", 50 * k, lambda: cases.random_graph("plain", n_defs=rng.randint(3, 8), cyc_len=rng.choice([2, 3])), path="ccc")
    order_stream(ctx, impl, drv, 1500 * k)
