"""C12 — pmapping-table Pareto pruning respects objectives, reservations and tolerances.

Proof:   AFV/Props/C12.lean   makepareto_zero_tol, const_cols_irrelevant, tol_bound, bucket_contract
Model:   AFV/Model/ParetoTable.lean (makepareto + df_convention column classification) on top of the C11 model
Spec:    AFV/Spec/ParetoTable.lean  (tableSpec: column-form all-pairs specification; tolViolation: the tolerance
         property evaluated exactly)
Tie:     the real `makepareto` and `PmappingDataframe.make_pareto` are run on generated pandas tables
         (objective / reservation / fused_loop / n_iterations / tensor / mapping / foreign columns, shuffled,
         constant columns, ties) with tolerances {0, 0.01, 0.1, 0.5} (objective, resource, absolute).
         * tolerance 0: the mask must equal the Lean specification evaluated on the exact values;
         * tolerance > 0: the property itself is evaluated exactly by the driver on the returned rows (every
           dropped row has a kept row with identical fused-loop shapes within the slack); the model (fed with the
           real rounding functions' outputs) is compared as well (plumbing), and the float rounding functions
           are validated against the bucket contract at bucket boundaries.
"""
from __future__ import annotations

import json
import math
import types
from fractions import Fraction

import numpy as np
import pandas as pd

from harness.core import CORPUS_DIR, VERIF, Ctx, HarnessError
from harness.props.pareto_common import encode_matrix, fixed_findings, repairs_for

FIXED = fixed_findings("C11") | fixed_findings("C12")

ANCHORS = [
    "accelforge.mapper.FFM._pareto_df.pareto:makepareto",
    "accelforge.mapper.FFM._pareto_df.pareto:multi_round",
    "accelforge.mapper.FFM._pareto_df.pareto:logscale_to_tolerance",
    "accelforge.mapper.FFM._pareto_df.pareto:round_to_tolerance",
    "accelforge.mapper.FFM._pareto_df.df_convention:col_used_in_pareto",
    "accelforge.mapper.FFM._pareto_df.df_convention:is_objective_col",
    "accelforge.mapper.FFM._pareto_df.df_convention:col2reservation",
    "accelforge.mapper.FFM._pareto_df.df_convention:partition_col",
    "accelforge.mapper.FFM._pareto_df.df_convention:is_fused_loop_col",
    "accelforge.mapper.FFM._pareto_df.df_convention:is_n_iterations_col",
    "accelforge.mapper.FFM._join_pmappings.pmapping_dataframe:PmappingDataframe.make_pareto",
    "accelforge.mapper.FFM._pareto_df.fast_pareto:fast_pareto_mask",
]

ETA = 1e-4  # stated relative slack for the float log/round/exp (and round/multiply) bucket functions
TOLS = [0.0, 0.01, 0.1, 0.5]

K_CAST = "float32-cast-collision"
K_SUM = "sum-key-not-strict"
K_SWEEP = "sweep2d-sentinel-hides-inf"


def _replay_path(p):
    from pathlib import Path

    q = Path(p)
    return q if q.is_absolute() else VERIF / q


# --------------------------------------------------------------------------- implementation side
class Impl:
    def __init__(self):
        import importlib

        self.pareto = importlib.import_module("accelforge.mapper.FFM._pareto_df.pareto")
        self.fp = importlib.import_module("accelforge.mapper.FFM._pareto_df.fast_pareto")
        self.pdf = importlib.import_module("accelforge.mapper.FFM._join_pmappings.pmapping_dataframe")
        self.fp.warmup()

    def run(self, df, split_by, ot, rt, at, via):
        """mask of kept rows (by index) or 'EXC:<type>'."""
        try:
            with np.errstate(all="ignore"):
                if via == "makepareto":
                    out = self.pareto.makepareto(df, split_by_cols=list(split_by), resource_usage_tolerance=rt,
                                                 objective_tolerance=ot, absolute_resource_usage_tolerance=at)
                else:
                    ns = types.SimpleNamespace(data=df, _data=None, drop_valid_reservations=(via == "make_pareto-dvr"))
                    r = self.pdf.PmappingDataframe.make_pareto(ns, objective_tolerance=ot, resource_usage_tolerance=rt,
                                                               absolute_resource_usage_tolerance=at)
                    out = r._data
        except Exception as e:
            return "EXC:" + type(e).__name__, None
        kept = set(out.index.tolist())
        mask = [i in kept for i in range(len(df))]
        same = out.equals(df.loc[out.index]) and len(out) == len(kept)
        return mask, same


# --------------------------------------------------------------------------- encoding
def col_numeric(s: pd.Series):
    return s.dtype.kind in "fiu"


def encode_table(impl: Impl, df: pd.DataFrame, split_by, ot, rt, at):
    """Driver request: exact values of every column (+ the real rounding functions' outputs)."""
    n = len(df)
    mats, names, kinds = [], [], []
    for c in df.columns:
        s = df[c]
        if col_numeric(s):
            v = s.to_numpy()
            cols = [v.astype(np.float64) if v.dtype.kind == "f" else v]
            with np.errstate(all="ignore"):
                o = np.asarray(impl.pareto.logscale_to_tolerance(s, ot))
                r = np.asarray(impl.pareto.multi_round(s, rt, at))
            cols += [o.astype(np.float64), r.astype(np.float64)]
            mats.append(cols)
        else:
            codes, _ = pd.factorize(s.map(repr), sort=False)
            mats.append([codes.astype(np.int64)])
        names.append(c)
    # common scale
    flat = [np.asarray(x, dtype=np.float64).reshape(n, 1) for cols in mats for x in cols]
    if flat:
        S, rows = encode_matrix(np.concatenate(flat, axis=1)) if n else (0, [])
    else:
        S, rows = 0, [[] for _ in range(n)]
    k = 0
    out = []
    for name, cols in zip(names, mats):
        enc = []
        for _ in cols:
            enc.append([rows[i][k] for i in range(n)])
            k += 1
        d = {"name": name, "vals": enc[0]}
        if len(enc) == 3:
            d["obj_rounded"], d["res_rounded"] = enc[1], enc[2]
        out.append(d)
    return {"op": "table", "scale": S, "n": n, "split_by": list(split_by), "cols": out}, S


def frac_to_pair(fr: Fraction):
    return fr.numerator, fr.denominator


def tol_request(df, req, rep, S, mask, ot, rt, at, dvr):
    """The tolerance property on the ORIGINAL values: slack per column from its kind."""
    cols = []
    if dvr:
        rt = ot
    for c, kind in zip(req["cols"], rep["kinds"]):
        if kind == "ignored":
            continue
        if kind == "split":
            cols.append({"goal": "diff", "vals": c["vals"], "num": 1, "den": 1, "abs": 0})
            continue
        s = df[c["name"]]
        positive = bool(len(s)) and float(s.min()) > 0
        if kind == "objective":
            t, a = (ot if positive else 0.0), 0.0
        else:
            t = rt if (positive or rt == 0) else 0.0
            a = at
            if rt and at == 0 and not positive:
                t = 0.0
        fac = (1 + Fraction(t)) * (1 + Fraction(ETA)) if (t or a) else Fraction(1)
        aa = Fraction(a) * (1 + Fraction(ETA)) * (2**S)
        num, den = frac_to_pair(fac)
        cols.append({"goal": "min", "vals": c["vals"], "num": num, "den": den, "abs": int(math.ceil(aa))})
    return {"op": "tolcheck", "n": len(df), "cols": cols, "mask": mask}


# --------------------------------------------------------------------------- generators
OBJ_NAMES = ["Total<SEP>energy", "Total<SEP>latency", "Total<SEP>area", "Total", "Total<SEP>x<SEP>y"]
FOREIGN = ["E0<SEP>Total<SEP>energy", "tensor<SEP>A", "tensor<SEP>B", "E0<SEP>mapping", "compressed_index",
           "Totals<SEP>energy", "binding<SEP>b0", "usage<SEP>memory<SEP>Buf<SEP>A", "n_pmappings",
           "fused_loopx<SEP>ts", "xreservation<SEP>Buf<SEP>0<SEP>left"]


def gen_table(rng, nmax, big=False, allow_inf=False, finite_positive=False):
    n = rng.choice([0, 1, 2, 3, 4, 6, 9]) if not big else rng.randint(10, nmax)
    if rng.random() < 0.5 and not big:
        n = rng.randint(0, nmax)
    cols = {}
    order = []
    n_obj = rng.randint(0, 3) if rng.random() < 0.3 else rng.randint(1, 2)
    for name in rng.sample(OBJ_NAMES, n_obj):
        order.append((name, "num"))
    for _ in range(rng.randint(0, 3)):
        nm = f"reservation<SEP>{rng.choice(['Buf', 'GlobalBuffer', 'Reg'])}<SEP>{rng.randint(-1, 3)}<SEP>{rng.choice(['left', 'right'])}"
        if nm not in dict(order):
            order.append((nm, "num"))
    for k in range(rng.randint(0, 2)):
        order.append((f"fused_loop<SEP>{rng.choice(['tile_shape', 'ts', 'stride<SEP>m'])}{k}", "shape"))
    if rng.random() < 0.4:
        order.append((f"fused_loop<SEP>n_iterations<SEP>{rng.randint(0, 2)}", "num"))
    for name in rng.sample(FOREIGN, rng.randint(0, 3)):
        order.append((name, rng.choice(["num", "obj", "shape"])))
    rng.shuffle(order)
    style = rng.choice(["ties", "ties", "float", "wide"])
    dt_default = np.float32 if rng.random() < 0.8 else np.float64
    for name, kind in order:
        if kind == "obj":
            pool = [{"a": 1}, {"a": 2}, "x", "y", 7]
            cols[name] = pd.Series([rng.choice(pool) for _ in range(n)], dtype=object)
            continue
        if kind == "shape":
            pool = rng.choice([[1.0, 2.0], [1.0, 2.0, 4.0, 8.0], [16.0]])
            vals = [rng.choice(pool) for _ in range(n)]
        elif rng.random() < 0.12:
            vals = [rng.choice([0.0, 5.0, 1024.0])] * n  # constant column
        elif style == "ties":
            pool = [float(rng.randint(1, 6)) for _ in range(rng.randint(1, 4))]
            if not finite_positive and rng.random() < 0.15:
                pool.append(0.0)
            vals = [rng.choice(pool) for _ in range(n)]
        elif style == "float":
            vals = [rng.random() * 100 + 0.01 for _ in range(n)]
        else:
            vals = [10.0 ** rng.uniform(-6, 12) for _ in range(n)]
        if allow_inf and rng.random() < 0.15 and n:
            vals[rng.randrange(n)] = float("inf")
        dt = dt_default if rng.random() < 0.85 else rng.choice([np.float32, np.float64])
        if kind == "shape" and rng.random() < 0.3 and all(math.isfinite(v) for v in vals):
            dt = np.int64
        cols[name] = pd.Series(np.array(vals, dtype=dt)) if n else pd.Series(np.array([], dtype=dt))
    df = pd.DataFrame(cols)
    if len(df.columns) == 0:
        df = pd.DataFrame({"Total<SEP>energy": pd.Series(np.arange(n, dtype=np.float32))})
    split_by = []
    if rng.random() < 0.2:
        cand = [c for c in df.columns if c.startswith("fused_loop") or c.startswith("tensor")]
        if cand:
            split_by = [rng.choice(cand)]
    return df, split_by


def gen_near_bucket(rng, t):
    """objective values clustered around bucket boundaries of tolerance t (ties after rounding)."""
    n = rng.randint(2, 30)
    L = math.log1p(t)
    base = int(rng.uniform(-13.0, 27.0) / L)
    xs = []
    for _ in range(n):
        k = base + rng.randint(0, 3)
        xs.append(math.exp((k + rng.choice([-0.5, 0.5, 0.0, 0.49, -0.49]) + rng.uniform(-1e-5, 1e-5)) * L))
    ys = [float(rng.randint(1, 3)) for _ in range(n)]
    dt = rng.choice([np.float32, np.float32, np.float64])
    df = pd.DataFrame({"Total<SEP>energy": np.array(xs, dtype=dt), "Total<SEP>latency": np.array(ys, dtype=dt),
                       "fused_loop<SEP>ts": np.array([float(rng.randint(1, 2)) for _ in range(n)], dtype=dt)})
    return df, []


# --------------------------------------------------------------------------- checker
class Checker:
    def __init__(self, ctx: Ctx):
        self.ctx = ctx
        self.drv = ctx.driver()
        self.impl = Impl()
        self.stats = {"zero_tol_cases": 0, "tol_cases": 0, "impl_eq_spec": 0, "impl_ne_spec": 0, "tol_property_ok": 0,
                      "tol_property_violated": 0, "model_eq_impl": 0, "model_ne_impl": 0, "valueerror_cases": 0,
                      "rows_unchanged": 0, "H_all_true": 0}
        self.n_new_replays = 0

    def evaluate(self, df, split_by, ot, rt, at, via):
        """→ (ok, key, what, payload-extra, nontrivial)."""
        impl, same = self.impl.run(df, split_by, ot, rt, at, via)
        dvr = via == "make_pareto-dvr"
        ert = ot if dvr else rt
        req, S = encode_table(self.impl, df, split_by, ot, ert, at)
        rep = self.drv.ask("C12", req)
        if "err" in rep:
            raise HarnessError(f"driver error {rep}")
        if FIXED and rep.get("kinds"):
            # dtype of the matrix handed to fast_pareto_mask: common dtype of the non-constant classified columns
            dts = [df[c["name"]].dtype for c, k in zip(req["cols"], rep["kinds"])
                   if k != "ignored" and len(df) > 1 and not (df[c["name"]].to_numpy() == df[c["name"]].to_numpy()[0]).all()]
            req["repairs"] = repairs_for(np.result_type(*dts) if dts else np.float32, FIXED)
            rep = self.drv.ask("C12", req)
        info = {"impl_mask": impl, "model_mask": rep["model"], "spec_mask": rep.get("spec"), "H": rep.get("H"),
                "kinds": rep.get("kinds")}
        if rep["model"] == "ValueError" or isinstance(impl, str):
            self.stats["valueerror_cases"] += 1
            if (rep["model"] == "ValueError") != (impl == "EXC:ValueError"):
                return False, "malformed-name-outcome", ("column-name grammar: implementation and model disagree on raising "
                                                         f"ValueError (impl {impl}, model {rep['model']})"), info, True
            return True, None, None, info, False
        if same is False:
            return False, "returned-rows-altered", "makepareto returned rows that differ from the selected input rows", info, True
        self.stats["rows_unchanged"] += 1
        H = rep["H"]
        allH = H["cast"] and H["sweep"] and H["key"]
        if allH:
            self.stats["H_all_true"] += 1
        nontrivial = len(df) >= 2 and len(rep["active_goals"]) >= 1
        if rep["model"] == impl:
            self.stats["model_eq_impl"] += 1
        else:
            self.stats["model_ne_impl"] += 1
        zero = ot == 0 and ert == 0 and at == 0
        if zero:
            self.stats["zero_tol_cases"] += 1
            if allH and rep["model"] != rep["spec"]:
                raise HarnessError("Lean model ≠ Lean table spec although all hypotheses hold")
            if impl == rep["spec"]:
                self.stats["impl_eq_spec"] += 1
                return True, None, None, info, nontrivial
            self.stats["impl_ne_spec"] += 1
            key, what = self.classify(impl, rep, "zero tolerance: kept rows differ from the specification")
            return False, key, what, info, nontrivial
        self.stats["tol_cases"] += 1
        tr = tol_request(df, req, rep, S, impl, ot, rt, at, dvr)
        v = self.drv.ask("C12", tr)
        if "err" in v:
            raise HarnessError(f"driver error {v}")
        if v["violation"] is None:
            self.stats["tol_property_ok"] += 1
            return True, None, None, info, nontrivial
        self.stats["tol_property_violated"] += 1
        info["uncovered_row"] = v["violation"]
        key, what = self.classify(impl, rep, f"tolerance: dropped row {v['violation']} has no kept row within the slack",
                                  default="tolerance-bound-violated")
        return False, key, what, info, nontrivial

    @staticmethod
    def classify(impl, rep, what, default="table-mask-differs"):
        H = rep["H"]
        if rep["model"] == impl:
            bad = [k for k in ("cast", "sweep", "key") if not H[k]]
            if len(bad) >= 1:
                key = {"cast": K_CAST, "sweep": K_SWEEP, "key": K_SUM}[bad[0]]
                return key, what + f" — caused by the C11 defect '{key}' of fast_pareto_mask (hypotheses failing: {bad})"
        elif (default == "table-mask-differs" and not rep.get("key_exact", True) and H["cast"] and H["sweep"]
              and rep.get("spec") is not None and all(a or not b for a, b in zip(impl, rep["spec"]))):
            # zero tolerance only, and only when the implementation keeps a superset of the specification's rows
            # (the only effect a mis-ordered window can have); extra rows can never break the tolerance property
            return K_SUM, what + " — general path with inexact float64 row-sum accumulation (fastmath association)"
        return default, what

    def fails(self, df, split_by, ot, rt, at, via, key0):
        ok, key, _, _, _ = self.evaluate(df, split_by, ot, rt, at, via)
        return (not ok) and key == key0

    def shrink(self, df, split_by, ot, rt, at, via, key0):
        budget = 200
        changed = True
        while changed and budget > 0:
            changed = False
            for i in range(len(df) - 1, -1, -1):
                if len(df) <= 1 or budget <= 0:
                    break
                d2 = df.drop(df.index[i]).reset_index(drop=True)
                budget -= 1
                if self.fails(d2, split_by, ot, rt, at, via, key0):
                    df, changed = d2, True
            for c in list(df.columns):
                if len(df.columns) <= 1 or budget <= 0:
                    break
                d2 = df.drop(columns=[c])
                sb = [x for x in split_by if x != c]
                budget -= 1
                if self.fails(d2, sb, ot, rt, at, via, key0):
                    df, split_by, changed = d2, sb, True
        return df, split_by

    def check(self, df, split_by, ot, rt, at, via, stream):
        ctx = self.ctx
        if via != "makepareto":
            split_by = []  # PmappingDataframe.make_pareto has no split_by_cols argument
        ok, key, what, info, nontrivial = self.evaluate(df, split_by, ot, rt, at, via)
        canon = {"via": via, "tol": [ot, rt, at], "split_by": split_by, "columns": list(df.columns), "n": len(df)}
        if len(df) * len(df.columns) <= 40:
            canon["data"] = {c: [repr(x) for x in df[c].tolist()] for c in df.columns}
        else:
            canon["sha1"] = str(pd.util.hash_pandas_object(df.astype(str), index=False).sum())
        ctx.case(canon, nontrivial=nontrivial, branches=[("tol0" if (ot == 0 and rt == 0 and at == 0) else "tol>0"), via] +
                 sorted(set(info.get("kinds") or [])))
        ctx.dist(stream)
        if ok:
            return
        if key in ctx._known and self.n_new_replays >= 0 and self.known_count(key) >= 3:
            ctx.fail(key, what, {})
            return
        if self.n_new_replays >= 25:
            self.stats["further_failing_cases_not_minimised"] = self.stats.get("further_failing_cases_not_minimised", 0) + 1
            return
        d2, sb = self.shrink(df, split_by, ot, rt, at, via, key)
        ok2, key2, what2, info2, _ = self.evaluate(d2, sb, ot, rt, at, via)
        if ok2:  # should not happen: shrink keeps the failure
            d2, sb, key2, what2, info2 = df, split_by, key, what, info
        if key2 not in ctx._known:
            self.n_new_replays += 1
        self._known_counts[key2] = self.known_count(key2) + 1
        ctx.fail(key2, what2, {
            "via": via, "objective_tolerance": ot, "resource_usage_tolerance": rt, "absolute_resource_usage_tolerance": at,
            "split_by": sb, "columns": list(d2.columns), "dtypes": [str(d2[c].dtype) for c in d2.columns],
            "data": {c: [x.hex() if isinstance(x, float) else repr(x) for x in d2[c].tolist()] for c in d2.columns},
            "data_repr": {c: [repr(x) for x in d2[c].tolist()] for c in d2.columns},
            **{k: v for k, v in info2.items()}, "stream": stream})

    _known_counts: dict = {}

    def known_count(self, key):
        return self._known_counts.get(key, 0)


def df_from_payload(p):
    cols = {}
    for c, dt in zip(p["columns"], p["dtypes"]):
        raw = p["data"][c]
        if dt == "object":
            cols[c] = pd.Series([eval(x, {"__builtins__": {}}, {}) for x in raw], dtype=object)  # reprs of literals
        else:
            vals = [float.fromhex(x) if isinstance(x, str) and ("0x" in x or x in ("inf", "-inf", "nan")) else float(eval(x, {"__builtins__": {}}, {})) for x in raw]
            cols[c] = pd.Series(np.array(vals, dtype=np.dtype(dt)))
    return pd.DataFrame(cols)


# --------------------------------------------------------------------------- bucket contract of the float functions
def validate_contract(ctx: Ctx, chk: Checker, rng):
    """`ρ(a) ≤ ρ(b) ⇒ a ≤ max(b,(1+t)b)(1+η) + abs(1+η)` for the real rounding functions, on values placed at and around
    bucket boundaries; a violating pair is turned into a two-row table and run through makepareto."""
    P = chk.impl.pareto
    n_pairs = 0
    worst = 0.0
    for t in TOLS[1:]:
        L = math.log1p(t)
        for dt in (np.float32, np.float64):
            ks = sorted(set([int(rng.uniform(-30.0, 60.0) / L) for _ in range(40)] + [0, 1, -1, 2]))
            xs = []
            for k in ks:
                for off in (-0.5, 0.5):
                    for eps in (-3e-6, -1e-7, 0.0, 1e-7, 3e-6):
                        xs.append(math.exp((k + off + eps) * L))
                xs.append(math.exp(k * L))
            x = np.array(sorted(set(np.array(xs, dtype=dt).tolist())), dtype=dt)
            x = x[np.isfinite(x) & (x > 0)]
            for (fn, at) in (("log", 0.0), ("multi", 0.0), ("multi", float(np.median(x)) * t), ("abs", float(np.median(x)) * 0.01)):
                with np.errstate(all="ignore"):
                    if fn == "log":
                        r = np.asarray(P.logscale_to_tolerance(pd.Series(x), t), dtype=np.float64)
                        tt = t
                    elif fn == "multi":
                        r = np.asarray(P.multi_round(pd.Series(x), t, at), dtype=np.float64)
                        tt = t
                    else:
                        r = np.asarray(P.multi_round(pd.Series(x), 0, at), dtype=np.float64)
                        tt = 0.0
                a = x.astype(np.float64)
                # for each b: the largest a with r(a) <= r(b)
                order = np.argsort(r, kind="stable")
                amax = np.maximum.accumulate(a[order])
                # ties in r: extend to the last index with the same r
                rs = r[order]
                last = np.searchsorted(rs, rs, side="right") - 1
                bound = (np.maximum(a[order], (1 + tt) * a[order]) * (1 + ETA) + at * (1 + ETA))
                viol = amax[last] > bound
                n_pairs += len(a)
                ratio = float(np.max(amax[last] / np.maximum(a[order] * (1 + tt) + at, 1e-300)))
                worst = max(worst, ratio)
                if viol.any():
                    jb = int(np.argmax(viol))
                    b = x[order][jb]
                    ia = int(np.argmax(np.where(rs <= rs[jb], a[order], -np.inf)))
                    av = x[order][ia]
                    df = pd.DataFrame({"Total<SEP>energy": np.array([av, b], dtype=dt)})
                    if fn == "log":
                        chk.check(df, [], t, 0, 0, "makepareto", "bucket-contract-witness")
                    else:
                        df = df.rename(columns={"Total<SEP>energy": "reservation<SEP>Buf<SEP>0<SEP>left"})
                        chk.check(df, [], 0, tt, at, "makepareto", "bucket-contract-witness")
                    ctx.cov.setdefault("bucket_contract_violations", []).append(
                        {"fn": fn, "t": t, "abs": at, "dtype": np.dtype(dt).name, "a": float(av), "b": float(b)})
    ctx.cov["bucket_contract"] = {"pairs_checked": n_pairs, "eta": ETA,
                                  "worst_ratio_a_over_(1+t)b+abs": worst,
                                  "contract": "rho(a) <= rho(b)  =>  a <= max(b,(1+t)b)(1+eta) + abs(1+eta)"}


# --------------------------------------------------------------------------- run
def run(ctx: Ctx):
    ctx.lean_gate()
    ctx.anchors(ANCHORS)
    ctx.cov["rule"] = (
        "pandas tables 0..300 rows with shuffled objective (Total<SEP>…), reservation, fused_loop, fused_loop<SEP>n_iterations, "
        "tensor / mapping / foreign columns, float32/float64/int64/object dtypes, heavy ties, constant columns, optional "
        "split_by_cols; tolerances (objective, resource, absolute) from {0,0.01,0.1,0.5}; through makepareto and "
        "PmappingDataframe.make_pareto (with and without drop_valid_reservations); malformed reservation names; values at "
        "bucket boundaries. non-trivial = ≥ 2 rows and at least one non-constant classified column"
    )
    ctx.cov["tolerance"] = (f"zero tolerance: exact mask equality. tolerance t>0: slack (1+t)(1+eta) relative and abs(1+eta) absolute, "
                            f"eta = {ETA} (float32 log/round/exp error, validated at bucket boundaries on every run)")
    ctx.cov["trusted_base"] += [
        "harness/props/pareto_common.py exact encoding; pandas selection mappings[mask] returns the selected rows (checked: rows unchanged)",
        "the rounding functions' outputs are taken from the real logscale_to_tolerance / multi_round (not re-implemented)",
    ]
    ctx.assumptions += [
        "float log/round/exp satisfy the bucket contract up to eta (validated at bucket boundaries each run, not proved)",
        "an explicit `columns=` argument of makepareto is not modelled (no caller passes it)",
        "column names do not contain overlapping '<SEP>' fragments; Python int() extras (whitespace, underscores) in the nloops "
        "field of reservation names are not modelled",
        "the C11 hypotheses (H-cast/H-sweep/H-key) carry over: makepareto_zero_tol assumes them for the matrix handed to fast_pareto_mask",
    ]
    chk = Checker(ctx)
    chk._known_counts = {}
    rng = ctx.rng
    T = ctx.thorough
    VIAS = ["makepareto", "makepareto", "make_pareto", "make_pareto-dvr"]

    if ctx.replay:
        body = json.loads(_replay_path(ctx.replay).read_text())["replay"]
        df = df_from_payload(body)
        chk.check(df, body["split_by"], body["objective_tolerance"], body["resource_usage_tolerance"],
                  body["absolute_resource_usage_tolerance"], body["via"], "replay")
        ctx.cov["stats"] = chk.stats
        return

    cdir = CORPUS_DIR / "C12"
    if cdir.exists():
        for f in sorted(cdir.glob("*.json")):
            body = json.loads(f.read_text())
            chk.check(df_from_payload(body), body["split_by"], body["objective_tolerance"], body["resource_usage_tolerance"],
                      body["absolute_resource_usage_tolerance"], body["via"], "corpus")

    scale = 12 if T else 1
    # zero tolerance
    for _ in range(500 * scale):
        df, sb = gen_table(rng, 40)
        chk.check(df, sb, 0, 0, 0, rng.choice(VIAS), "zero-tol")
    for _ in range(40 * scale):
        df, sb = gen_table(rng, 300, big=True)
        chk.check(df, sb, 0, 0, 0, rng.choice(VIAS), "zero-tol-large")
    for _ in range(60 * scale):
        df, sb = gen_table(rng, 20, allow_inf=True)
        chk.check(df, sb, 0, 0, 0, "makepareto", "zero-tol-inf")
    # tolerances
    for _ in range(500 * scale):
        df, sb = gen_table(rng, 40, finite_positive=rng.random() < 0.7)
        ot, rt = rng.choice(TOLS), rng.choice(TOLS)
        at = rng.choice([0, 0, 0.01, 0.5, 3.0])
        chk.check(df, sb, ot, rt, at, rng.choice(VIAS), "tolerance-grid")
    for _ in range(40 * scale):
        df, sb = gen_table(rng, 300, big=True, finite_positive=True)
        chk.check(df, sb, rng.choice(TOLS[1:]), rng.choice(TOLS), rng.choice([0, 0.5]), rng.choice(VIAS), "tolerance-large")
    for _ in range(120 * scale):
        t = rng.choice(TOLS[1:])
        df, sb = gen_near_bucket(rng, t)
        chk.check(df, sb, t, 0, 0, "makepareto", "bucket-boundaries")
    # malformed reservation names
    for name in ["reservation<SEP>Buf<SEP>0", "reservation<SEP>Buf<SEP>x<SEP>left", "reservation", "reservation<SEP>a<SEP>1<SEP>left<SEP>extra",
                 "reservation<SEP><SEP>-1<SEP>", "reservationx<SEP>a<SEP>1"]:
        for n in (0, 1, 3):
            df = pd.DataFrame({"Total<SEP>energy": np.arange(n, dtype=np.float32)[::-1].copy(), name: np.arange(n, dtype=np.float32)})
            chk.check(df, [], 0, 0, 0, "makepareto", "malformed-names")
    validate_contract(ctx, chk, rng)
    ctx.cov["stats"] = chk.stats
