"""C28 — result breakdowns aggregate consistently to the reported totals.

Proof:   AFV/Props/C28.lean (proofs in AFV/Lemmas/Breakdown{Dict,Access,Table,Main}.lean)
           A. any table:   sum_fiberwise, groupSum_eq_breakdown, aggregate_eq_spec, aggregate_sum (16 energy / 8 actions flag
                           combinations), perEinsumMax_eq, perComponentSum_eq, latency_agg, latencyTotal_perm, usage_max
           B. the `access` chains read exactly the columns of the positional grammar, under the decidable no-collision
              hypotheses wfEnergy / wfActions / wfLatency / wfUsage:
                           access_some_spec, access_none_spec, table4_eq_spec_partial, energy_consistent_partial,
                           actions_consistent_partial, energy_eq_total_column_partial, latency_eq_spec_partial,
                           latency_total_partial, usage_eq_spec_partial
           C. witnesses that the hypotheses are necessary:
                           energy_/actions_tensor_named_like_component_counterexample (genuine defect, known finding),
                           latency_einsum_named_Total_counterexample, usage_einsum_named_reservation_counterexample (reserved names),
                           keyword_as_tensor_raises, prefix_names_do_not_collide
Model:   AFV/Model/Breakdown.lean   (hand model of Mappings._get_cols / access / energy / actions / latency / resource_usage)
Spec:    AFV/Spec/Breakdown.lean    (positional column grammar, fibre sums, Σ_einsum max_component, max reservation; wf predicates)
Tie:     correspondence.  The real `Mappings` methods are run on
           (a) real result sets (`map_workload_to_arch`, `evaluate_mapping` on tiny specs),
           (b) synthetic `Mappings` around generated integer DataFrames following the column grammar,
           (c) a name-collision stream (names equal to / containing each other and the keywords), plus directed cases,
         and, for every row and every flag combination (16 energy, 8 actions, 4 latency, resource_usage), the returned
         dictionaries are compared with the Lean spec oracle (the judge) and with the Lean model's aggregation of the exported raw
         columns, and the totals with the `Total<SEP>energy` / `Total<SEP>latency` columns.
Verdicts: implementation != spec on an in-domain input  -> shrink, classify, ctx.fail (known key: tensor-named-like-component-dropped);
         implementation raises on a well-formed input   -> ctx.fail("impl-exception-on-wellformed-input:…");
         implementation != model only outside the well-formed domain while agreeing with the spec / refusing loudly -> recorded.
"""
from __future__ import annotations

import contextlib
import io
import itertools
import json
import math
import os
import types
from fractions import Fraction

from harness.core import Ctx, HarnessError

M = "accelforge.mapper.FFM.mappings:"
ANCHORS = [
    M + "Mappings._get_cols",
    M + "Mappings.access",
    M + "Mappings._get_keys_of_length",
    M + "Mappings.energy",
    M + "Mappings.actions",
    M + "Mappings.latency",
    M + "Mappings.resource_usage",
    M + "_series2list",
]

SEP = "<SEP>"
TOL = 1e-4  # relative tolerance for float-valued real results (float32 columns, pandas summation order)
RESERVED = {"Total", "reservation"}  # names the frontend rejects / the pipeline cannot carry as Einsum or component names
KNOWN_D1 = "tensor-named-like-component-dropped"

MASKS16 = list(itertools.product([False, True], repeat=4))  # (per_einsum, per_component, per_tensor, per_action)


# ----------------------------------------------------------------------------------------------- helpers
def fake_spec(einsums):
    """Only `spec.workload.einsums[name].tensor_names` is used by Mappings.energy/actions."""
    return types.SimpleNamespace(
        workload=types.SimpleNamespace(
            einsums={e: types.SimpleNamespace(tensor_names=list(ts)) for e, ts in einsums}
        )
    )


def make_mappings(cols, rows, einsums):
    import pandas as pd
    from accelforge.mapper.FFM.mappings import Mappings

    df = pd.DataFrame({c: [r[i] for r in rows] for i, c in enumerate(cols)}, columns=list(cols))
    if len(df.columns) != len(cols):  # duplicate column names collapse in a dict: build positionally
        df = pd.DataFrame([list(r) for r in rows])
        df.columns = list(cols)
    return Mappings(
        spec=fake_spec(einsums),
        einsum_names=[e for e, _ in einsums],
        data=df,
        total_mappings=len(rows),
        valid_mappings=len(rows),
        flattened_arches={},
        evaluated_specs={},
    )


def to_fraction(v):
    """Exact value of a numpy / python number; None if not finite / not numeric."""
    try:
        import numpy as np

        if isinstance(v, (bool, np.bool_)):
            return Fraction(int(v))
        if isinstance(v, (int, np.integer)):
            return Fraction(int(v))
        f = float(v)
    except Exception:
        return None
    if not math.isfinite(f):
        return None
    # float32 -> float conversion is exact; Fraction(float) is exact
    return Fraction(f)


def jkey(k):
    return json.dumps(k, sort_keys=True)


def canon_key(k):
    if isinstance(k, tuple):
        return [None if x is None else str(x) for x in k]
    return [None if k is None else str(k)]


class Impl:
    """Observable outputs of the four reporting methods for every flag combination, row-wise.

    out[name] = ("ok", {jkey(key): [value per row]})  |  ("err", ExceptionTypeName, message)
    """

    def __init__(self, m):
        self.n = len(m.data)
        self.out = {}
        for mask in MASKS16:
            self.out["energy", mask] = self._call(
                lambda: m.energy(per_einsum=mask[0], per_component=mask[1], per_tensor=mask[2], per_action=mask[3],
                                 list_if_one_mapping=True), scalar=not any(mask))
            if mask[3]:
                self.out["actions", mask] = self._call(
                    lambda: m.actions(per_einsum=mask[0], per_component=mask[1], per_tensor=mask[2],
                                      list_if_one_mapping=True), scalar=False)
        for pe, pc in itertools.product([False, True], repeat=2):
            self.out["latency", (pe, pc)] = self._call(
                lambda: m.latency(per_einsum=pe, per_component=pc, list_if_one_mapping=True), scalar=not (pe or pc))
        self.out["usage", ()] = self._call(lambda: m.resource_usage(list_if_one_mapping=True), scalar=False)
        # the scalar convention for a single mapping (list_if_one_mapping=False) is checked on one call per method
        self.single = None
        if self.n == 1:
            self.single = {
                "energy": self._raw(lambda: m.energy()),
                "energy_pc": self._raw(lambda: m.energy(per_component=True)),
                "latency": self._raw(lambda: m.latency()),
                "usage": self._raw(lambda: m.resource_usage()),
                "actions": self._raw(lambda: m.actions()),
            }

    @staticmethod
    def _raw(f):
        try:
            return ("ok", f())
        except Exception as e:  # noqa: BLE001 - an exception is an observable outcome
            return ("err", type(e).__name__, str(e)[:200])

    def _rowvals(self, v):
        """value (scalar | list | None) -> list of per-row values"""
        if v is None:
            return [None] * self.n
        if isinstance(v, list):
            if len(v) == 1 and self.n != 1:
                return v * self.n  # `_series2list(scalar, list_if_one=True)` wraps a non-Series value (0 / None) as [value]
            if len(v) != self.n:
                raise HarnessError(f"unexpected list length {len(v)} for {self.n} rows")
            return v
        return [v] * self.n  # e.g. `sum({}.values()) == 0`: a scalar whatever the number of rows

    def _call(self, f, scalar):
        r = self._raw(f)
        if r[0] == "err":
            return r
        v = r[1]
        if scalar:
            if isinstance(v, dict):
                return ("ok", {jkey(canon_key(k)): self._rowvals(x) for k, x in v.items()})
            return ("ok", {jkey([]): self._rowvals(v)})
        if not isinstance(v, dict):
            return ("ok", {"<not-a-dict>": self._rowvals(None), "repr": repr(v)[:100]})
        return ("ok", {jkey(canon_key(k)): self._rowvals(x) for k, x in v.items()})


def model_dict(agg):
    """driver [[key parts], v] list -> {jkey: int}"""
    d = {}
    for k, v in agg:
        kk = jkey(k)
        if kk in d:
            raise HarnessError("driver returned a duplicate key " + kk)
        d[kk] = v
    return d


def values_equal(impl_v, want: Fraction, exact: bool, scale: Fraction):
    """impl value vs exact expected value (already divided by the row's scale)."""
    if impl_v is None:
        return False
    f = to_fraction(impl_v)
    if f is None:
        return False
    if exact:
        return f == want
    a, b = float(f), float(want)
    return abs(a - b) <= TOL * max(abs(a), abs(b))


def diff_dict(impl_d, want_d, i, exact, scale):
    """Compare {jkey: [per-row]} (impl) with {jkey: int scaled} (model/spec) on row i.
    Returns None if equal else a description."""
    ik = set(k for k in impl_d)
    wk = set(want_d)
    if ik != wk:
        return {"missing_keys": sorted(wk - ik)[:8], "extra_keys": sorted(ik - wk)[:8]}
    for k in wk:
        want = Fraction(want_d[k]) / scale
        if i >= len(impl_d[k]):
            raise HarnessError(f"row {i} missing in implementation output {impl_d[k]!r} for key {k}")
        if not values_equal(impl_d[k][i], want, exact, scale):
            return {"key": k, "impl": repr(impl_d[k][i]), "want": str(want)}
    return None


# ----------------------------------------------------------------------------------------------- one case
class Case:
    """cols: column names; rows: list of lists of values (numbers; None for object columns);
    einsums: [[name, [tensor names]]]."""

    def __init__(self, cols, rows, einsums, stream, check_total_cols=True):
        self.cols, self.rows, self.einsums, self.stream = list(cols), [list(r) for r in rows], [[e, list(t)] for e, t in einsums], stream
        self.check_total_cols = check_total_cols

    def payload(self):
        return {"cols": self.cols, "rows": [[None if v is None else (int(v) if float(v).is_integer() and abs(float(v)) < 2**62 else float(v)) for v in r] for r in self.rows],
                "einsums": self.einsums, "stream": self.stream, "check_total_cols": self.check_total_cols}

    @staticmethod
    def from_payload(p):
        def val(v):
            if v is None or isinstance(v, (int, float)):
                return v
            return float(v)
        return Case(p["cols"], [[val(v) for v in r] for r in p["rows"]], p["einsums"], p.get("stream", "replay"), p.get("check_total_cols", True))


def scaled_rows(case):
    """Per row: (ints, scale, exact) with value = int/scale; or None if a value is not finite."""
    res = []
    for r in case.rows:
        fr = []
        bad = False
        for v in r:
            if v is None:
                fr.append(Fraction(0))
                continue
            f = to_fraction(v)
            if f is None:
                bad = True
                break
            fr.append(f)
        if bad:
            res.append(None)
            continue
        den = 1
        for f in fr:
            den = max(den, f.denominator)  # all denominators are powers of two
        ints = [int(f * den) for f in fr]
        exact = den == 1 and all(abs(x) < 2**50 for x in ints)
        res.append((ints, Fraction(den), exact))
    return res


def out_of_domain(case):
    """Names that cannot occur in a result set produced by the frontend/pipeline: the reserved words, and names containing
    the separator itself (names must be ISL identifiers)."""
    for e, ts in case.einsums:
        for n in [e] + list(ts):
            if n in RESERVED or SEP in n:
                return True
    for c in case.cols:
        parts = c.split(SEP)
        if any(p in RESERVED for p in parts[1:]):
            return True
        if len(parts) > 1 and ((parts[1] in ("energy", "action") and len(parts) > 5) or (parts[1] == "latency" and len(parts) > 3)):
            return True  # a component / action name containing the separator
    return False


def evaluate(ctx, drv, case, m=None):
    """Run implementation + Lean model/spec on a case.  Returns list of findings:
    (kind, report, detail) with kind in {"property", "exception", "info"}."""
    if m is None:
        m = make_mappings(case.cols, [[0 if v is None else v for v in r] for r in case.rows], case.einsums)
    impl = Impl(m)
    sr = scaled_rows(case)
    reqs, idx = [], []
    for i, s in enumerate(sr):
        if s is None:
            continue
        reqs.append({"op": "row", "cols": case.cols, "vals": s[0], "einsums": case.einsums})
        idx.append(i)
    replies = drv.ask_many("C28", reqs)
    findings = []
    info = {"wf": None, "model_err": {}, "impl_err": {}}
    names_used = set()
    for c in case.cols:
        names_used.update(c.split(SEP))
    names_used.update(e for e, _ in case.einsums)
    reserved_name = out_of_domain(case)
    info["reserved_name"] = reserved_name
    for rep, i in zip(replies, idx):
        if "err" in rep:
            raise HarnessError("driver: " + json.dumps(rep))
        ints, scale, exact = sr[i]
        info["wf"] = rep["wf"]
        spec = rep["spec"]
        # sanity: on well-formed input the proved theorems say model == spec
        for rname, sname in (("energy", "energy"), ("actions", "actions")):
            if rep["wf"][rname]:
                if "err" in rep[rname]:
                    raise HarnessError(f"Lean model raises on a well-formed input ({rname}) — contradicts the proved theorem")
                if sorted(map(jkey, rep[rname]["table"])) != sorted(map(jkey, spec[sname])):
                    raise HarnessError(f"Lean model != Lean spec on a well-formed input ({rname}) — contradicts the proved theorem")
        if rep["wf"]["latency"] and ("err" in rep["latency"] or sorted(map(jkey, rep["latency"]["table"])) != sorted(map(jkey, spec["latency"]))):
            raise HarnessError("Lean latency model != spec on a well-formed input")
        if rep["wf"]["usage"] and ("err" in rep["usage"] or sorted(map(jkey, rep["usage"]["table"])) != sorted(map(jkey, spec["usage"]))):
            raise HarnessError("Lean usage model != spec on a well-formed input")

        def judge(report, flagkey, impl_out, model_d, spec_d, wf):
            """model_d: dict or ("err", kind); spec_d: dict.

            The spec (positional grammar + fibre sums / Σ max / max) is the judge.  On well-formed input model == spec
            (proved), so implementation != model there IS implementation != spec.  On input that is not well-formed the
            model only documents how the CURRENT code misbehaves (witness theorems): a difference between implementation and
            model where the implementation agrees with the spec, or refuses loudly, is recorded ("info"), never an alarm —
            so fixing the known defect does not make this check fail."""
            model_err = isinstance(model_d, tuple)
            if model_err:
                info["model_err"][report] = model_d[1]
            if impl_out[0] == "err":
                info["impl_err"][report] = impl_out[1]
                if wf:
                    findings.append(("exception", report, {"flags": flagkey, "impl_raises": impl_out[1:], "row": i}))
                elif not model_err:
                    findings.append(("info", report, {"flags": flagkey, "impl_raises": impl_out[1:], "model": "returns"}))
                elif impl_out[1] != ("AssertionError" if model_d[1] == "notUnique" else "ValueError"):
                    findings.append(("info", report, {"flags": flagkey, "impl_raises": impl_out[1:], "model_raises": model_d[1]}))
                return
            impl_d = impl_out[1]
            dspec = diff_dict(impl_d, spec_d, i, exact, scale)
            if dspec is not None:
                findings.append(("property", report, {"flags": flagkey, "row": i, "diff_vs_spec": dspec}))
            if model_err:
                findings.append(("info", report, {"flags": flagkey, "impl": "returns", "model_raises": model_d[1]}))
                return
            dm = diff_dict(impl_d, model_d, i, exact, scale)
            if dm is not None:
                findings.append(("info", report, {"flags": flagkey, "row": i, "diff_vs_model": dm, "agrees_with_spec": dspec is None}))

        # ---- energy / actions
        for report in ("energy", "actions"):
            mr = rep[report]
            for mi, mask in enumerate(MASKS16):
                if report == "actions" and not mask[3]:
                    continue
                model_d = ("err", mr["err"]) if "err" in mr else model_dict(mr["agg"][mi])
                spec_d = model_dict(spec[report + "_agg"][mi])
                judge(report, list(mask), impl.out[report, mask], model_d, spec_d, rep["wf"][report])
        # ---- latency
        lr = rep["latency"]
        for pe, pc in itertools.product([False, True], repeat=2):
            if "err" in lr:
                model_d = ("err", lr["err"])
            elif pe and pc:
                model_d = {jkey([e, c]): v for e, c, v in lr["table"]}
            elif pe:
                model_d = {jkey([e]): v for e, v in lr["per_einsum"]}
            elif pc:
                model_d = {jkey([c]): v for c, v in lr["per_component"]}
            else:
                model_d = {jkey([]): lr["total"]}
            if pe and pc:
                spec_d = {jkey([e, c]): v for e, c, v in spec["latency"]}
            elif pe:
                spec_d = {jkey([e]): v for e, v in spec["latency_per_einsum"]}
            elif pc:
                spec_d = {jkey([c]): v for c, v in spec["latency_per_component"]}
            else:
                spec_d = {jkey([]): spec["latency_total"]}
            io_ = impl.out["latency", (pe, pc)]
            if not (pe or pc) and io_[0] == "ok":
                # `None` (no latency columns at all) is compared as null
                if spec_d[jkey([])] is None:
                    ok_spec = io_[1][jkey([])][i] is None
                    if not ok_spec:
                        findings.append(("property", "latency", {"flags": [pe, pc], "row": i, "impl": repr(io_[1][jkey([])][i]), "want": None}))
                    if not isinstance(model_d, tuple) and model_d[jkey([])] is not None:
                        findings.append(("info", "latency", {"flags": [pe, pc], "row": i, "model": model_d[jkey([])]}))
                    continue
                if not isinstance(model_d, tuple) and model_d[jkey([])] is None:
                    findings.append(("info", "latency", {"flags": [pe, pc], "row": i, "model": None, "impl": repr(io_[1][jkey([])][i])}))
                    model_d = spec_d
            judge("latency", [pe, pc], io_, model_d, spec_d, rep["wf"]["latency"])
        # ---- usage
        ur = rep["usage"]
        model_d = ("err", ur["err"]) if "err" in ur else {jkey([r]): v for r, v in ur["table"]}
        spec_d = {jkey([r]): v for r, v in spec["usage"]}
        judge("usage", [], impl.out["usage", ()], model_d, spec_d, rep["wf"]["usage"])
        # ---- totals vs the Total<SEP>… columns (data invariant of run_model/join + energy()/latency())
        if case.check_total_cols:
            for report, colname, key in (("energy", "total_energy_col", ("energy", MASKS16[0])), ("latency", "total_latency_col", ("latency", (False, False)))):
                tc = spec[colname]
                io_ = impl.out[key]
                if tc is None or io_[0] != "ok":
                    continue
                if report == "latency" and spec["latency_total"] is None:
                    continue  # no per-Einsum latency column at all: latency() is None, nothing to compare
                got = io_[1][jkey([])][i]
                if not values_equal(got, Fraction(tc) / scale, exact, scale):
                    findings.append(("property", report, {"flags": "total-vs-Total-column", "row": i, "impl": repr(got), "Total_column": str(Fraction(tc) / scale)}))
    # single-mapping scalar convention
    if impl.single is not None and sr and sr[0] is not None:
        for name, key in (("energy", ("energy", MASKS16[0])), ("latency", ("latency", (False, False)))):
            s, l = impl.single[name], impl.out[key]
            if s[0] == "ok" and l[0] == "ok":
                lv = l[1][jkey([])][0]
                if isinstance(s[1], (list, dict)) or (s[1] is None) != (lv is None) or (lv is not None and to_fraction(s[1]) != to_fraction(lv)):
                    findings.append(("property", name, {"flags": "list_if_one_mapping=False", "scalar": repr(s[1]), "list": repr(lv)}))
        for name, key in (("energy_pc", ("energy", (False, True, False, False))), ("usage", ("usage", ())), ("actions", ("actions", (False, True, False, True)))):
            s, l = impl.single[name], impl.out[key]
            if s[0] == "ok" and l[0] == "ok":
                sd = {jkey(canon_key(k)): v for k, v in s[1].items()} if isinstance(s[1], dict) else None
                if sd is None or set(sd) != set(l[1]) or any(isinstance(v, list) or to_fraction(v) != to_fraction(l[1][k][0]) for k, v in sd.items()):
                    findings.append(("property", name.split("_")[0], {"flags": "list_if_one_mapping=False", "scalar": repr(s[1])[:300]}))
    info["n_rows_checked"] = len(idx)
    info["n_rows_skipped_nonfinite"] = len(sr) - len(idx)
    info["impl"] = impl
    info["last_reply"] = replies[-1] if replies else None
    return findings, info


def classify(case, findings, info):
    """Classifier key of a property failure (of the minimised case)."""
    rep = info.get("last_reply") or {}
    reports = sorted({f[1] for f in findings if f[0] in ("property", "exception")})
    if any(f[0] == "exception" for f in findings):
        return "impl-exception-on-wellformed-input:" + "+".join(reports)
    if reports and set(reports) <= {"energy", "actions"} and rep:
        # which intended columns are missing from the implementation's full table?
        ok = True
        impl = info["impl"]
        for report in reports:
            full = impl.out[report, (True, True, True, True)]
            if full[0] != "ok":
                ok = False
                break
            want = {jkey(k[:4]) for k in rep["spec"][report]}
            got = set(full[1])
            lost = want - got
            extra = got - want
            if extra or not lost or any(json.loads(k)[1] != json.loads(k)[2] for k in lost):
                ok = False
                break
            for f in findings:
                if f[0] == "property" and f[1] == report and f[2].get("flags") == "list_if_one_mapping=False":
                    ok = False
        if ok:
            return KNOWN_D1
    return "breakdown-mismatch:" + "+".join(reports)


def shrink(ctx, drv, case, key, budget=120):
    """Greedy delta debugging on columns, rows and einsums keeping the classifier key."""
    def still(c):
        try:
            f, info = evaluate(ctx, drv, c)
        except HarnessError:
            return False
        pf = [x for x in f if x[0] in ("property", "exception")]
        return bool(pf) and classify(c, f, info) == key

    cur = case
    n = 0
    if len(cur.rows) > 1:
        for r in cur.rows:
            c = Case(cur.cols, [r], cur.einsums, cur.stream, cur.check_total_cols)
            n += 1
            if still(c):
                cur = c
                break
    changed = True
    while changed and n < budget:
        changed = False
        for j in range(len(cur.cols) - 1, -1, -1):
            if n >= budget:
                break
            if cur.check_total_cols and cur.cols[j].startswith("Total" + SEP):
                continue
            cols = cur.cols[:j] + cur.cols[j + 1:]
            rows = [r[:j] + r[j + 1:] for r in cur.rows]
            c = Case(cols, rows, cur.einsums, cur.stream, False)
            # removing a column invalidates the Total columns: judge the shrunk case without them
            n += 1
            if still(c):
                cur = c
                changed = True
        for j in range(len(cur.einsums) - 1, -1, -1):
            if n >= budget or len(cur.einsums) <= 1:
                break
            c = Case(cur.cols, cur.rows, cur.einsums[:j] + cur.einsums[j + 1:], cur.stream, False)
            n += 1
            if still(c):
                cur = c
                changed = True
    return cur


_SHRUNK: set = set()
_REPORTED: dict = {}
MAX_REPLAYS_PER_KEY = 3  # further failures with the same classifier key are only counted (input_distribution)


def report(ctx, drv, case, findings, info, do_shrink=True):
    """Turn findings of one case into ctx.fail / return the info-only findings."""
    prop = [f for f in findings if f[0] in ("property", "exception")]
    corr = [f for f in findings if f[0] == "info"]
    if prop and info.get("reserved_name"):
        # reserved names ("Total", "reservation") cannot occur in a result set produced by the frontend/pipeline:
        # out of the property's domain; only the model/implementation agreement is checked there
        ctx.dist("out-of-domain:reserved-name-mismatch-with-grammar")
        prop = []
    if prop:
        key = classify(case, findings, info)
        small = case
        if do_shrink and case.stream != "real" and key not in _SHRUNK and key not in ctx._known:
            _SHRUNK.add(key)
            small = shrink(ctx, drv, case, key)
            f2, info2 = evaluate(ctx, drv, small)
            if [x for x in f2 if x[0] in ("property", "exception")]:
                findings, info = f2, info2
                prop = [f for f in findings if f[0] in ("property", "exception")]
        what = {
            KNOWN_D1: "energy()/actions() silently drop the columns of a tensor whose name equals the component's name "
                      "(`_get_cols` locates the key with list.index = first occurrence), so breakdowns do not sum to Total<SEP>energy",
        }.get(key, f"Mappings.{'/'.join(sorted({f[1] for f in prop}))}() disagrees with the column grammar / totals")
        _REPORTED[key] = _REPORTED.get(key, 0) + 1
        if _REPORTED[key] <= MAX_REPLAYS_PER_KEY or key in ctx._known:
            ctx.fail(key, what, {"input": small.payload(), "findings": [list(f) for f in prop[:6]],
                                 "impl_errors": info.get("impl_err"), "wf": info.get("wf")})
        return key, corr
    return None, corr


# ----------------------------------------------------------------------------------------------- generators
PLAIN_E = ["Matmul0", "Matmul1", "Matmul10", "QK", "AV", "E", "E1", "E10", "conv", "fc"]
PLAIN_C = ["MainMemory", "GlobalBuffer", "MAC", "Reg", "PE", "LocalBuffer", "DRAM", "NoC"]
PLAIN_T = ["T0", "T1", "T2", "W0", "W1", "I", "O", "Q", "K", "V"]
PLAIN_A = ["read", "write", "compute", "update"]
CONFUSE = ["A", "B", "AB", "A<", "SEP>B", "A<SEP", ">B", "energy", "action", "latency", "leak", "None", "usage", "memory",
           "mapping", "read", "left", "right", "0", "-1", "", "Total", "reservation", "Tot", "Totals", "energy_delay_product",
           "leak_energy", "first_latency", "X<SEP>Y"]


def gen_case(rng, stream, big=False):
    collide = stream == "collision"
    allow_reserved = collide and rng.random() < 0.12  # reserved names are out of the property's domain: keep them rare
    confuse = [n for n in CONFUSE if allow_reserved or (n not in RESERVED and SEP not in n)]
    if collide and rng.random() < 0.1:
        confuse = confuse + ["X<SEP>Y"]

    def pool(plain):
        if not collide:
            return plain
        return plain[:3] + confuse if rng.random() < 0.7 else plain[:2] + ["A", "B", "AB"]

    ne = rng.choice([1, 1, 2, 2, 3, 4]) if not big else rng.randint(5, 10)
    nc = rng.choice([1, 2, 3, 4]) if not big else rng.randint(4, 7)
    nt = rng.choice([1, 2, 3]) if not big else rng.randint(3, 5)
    shared = None
    if collide and rng.random() < 0.6:
        # one shared small pool for every role => names collide across roles
        shared = rng.sample(confuse + PLAIN_C[:3] + PLAIN_T[:3], rng.randint(3, 7))

    def pick(plain, k):
        src = shared if shared and rng.random() < 0.8 else pool(plain)
        return rng.sample(src, min(k, len(src)))

    es = pick(PLAIN_E, ne)
    comps = pick(PLAIN_C, nc)
    alltens = pick(PLAIN_T, nt + 2)
    einsums = []
    for e in es:
        ts = rng.sample(alltens, min(len(alltens), rng.randint(1, nt)))
        if collide and rng.random() < 0.12:
            ts = ts + [rng.choice(comps)]  # hypothesis-directed: a tensor named like a component
        seen = []
        for t in ts:
            if t not in seen:
                seen.append(t)
        einsums.append([e, seen])
    nrows = rng.choice([1, 1, 2, 3]) if not big else rng.choice([1, 4])
    val = lambda: [rng.choice([0, 0, rng.randint(1, 9), rng.randint(10, 1000), rng.randint(1000, 10**6)]) for _ in range(nrows)]
    cols = {}  # name -> per-row values (insertion ordered)
    energy_tot = [0] * nrows
    lat_tot = [0] * nrows

    def add(name, v):
        if name in cols:
            return False
        cols[name] = v
        return True

    for e, ts in einsums:
        emax = None
        for c in comps:
            apool = pool(PLAIN_A)
            acts = rng.sample(apool, min(len(apool), rng.randint(1, 3)))
            is_compute = rng.random() < 0.3
            for t in (["None"] if is_compute else ts):
                for a in acts:
                    if rng.random() < 0.85:
                        v = val()
                        if add(SEP.join([e, "action", c, t, a]), v):
                            pass
                        if rng.random() < 0.9:
                            w = val()
                            if add(SEP.join([e, "energy", c, t, a]), w):
                                energy_tot = [x + y for x, y in zip(energy_tot, w)]
            if rng.random() < 0.9:
                w = val()
                if add(SEP.join([e, "energy", c, "leak"]), w):
                    energy_tot = [x + y for x, y in zip(energy_tot, w)]
            if rng.random() < 0.85:
                w = val()
                if add(SEP.join([e, "latency", c]), w):
                    emax = w if emax is None else [max(x, y) for x, y in zip(emax, w)]
            for t in ts:
                if rng.random() < 0.3:
                    add(SEP.join([e, "usage", "memory", c, t]), val())
        if emax is not None:
            lat_tot = [x + y for x, y in zip(lat_tot, emax)]
        add(SEP.join([e, "mapping"]), val())
    for c in comps:
        for n in rng.sample([-1, 0, 1, 2, 3], rng.randint(0, 3)):
            for side in rng.sample(["left", "right"], rng.randint(1, 2)):
                add(SEP.join(["reservation", c, str(n), side]), val())
    extras = [("Total" + SEP + "leak_energy", val()), ("Total" + SEP + "dynamic_energy", val()), ("Total" + SEP + "energy_delay_product", val()),
              ("Total" + SEP + "mapping", val()), ("first_latency" + SEP + comps[0] + SEP + "0", val()), ("tensor" + SEP + alltens[0], val()),
              ("stride" + SEP + "m" + SEP + "1", val()), ("n_iterations" + SEP + "0", val())]
    for n, v in extras:
        if rng.random() < 0.6:
            add(n, v)
    have_tot = rng.random() < 0.9
    if have_tot:
        add("Total" + SEP + "energy", energy_tot)
        add("Total" + SEP + "latency", lat_tot)
    names = list(cols)
    if rng.random() < 0.5:
        rng.shuffle(names)
    rows = [[cols[n][i] for n in names] for i in range(nrows)]
    # a name containing the separator or a collision may make the generated Total columns inconsistent with the
    # positional grammar; the Total columns are then recomputed from the Lean spec by the caller
    return Case(names, rows, einsums, stream, check_total_cols=have_tot)


def fix_totals(drv, case):
    """Make the Total<SEP>energy / Total<SEP>latency columns of a synthetic case equal to the grammar's totals
    (the data invariant that run_model/join establish for real results)."""
    if not case.check_total_cols:
        return case
    for name, skey in (("Total" + SEP + "energy", "energy_total"), ("Total" + SEP + "latency", "latency_total")):
        if case.cols.count(name) != 1:
            case.check_total_cols = False
            return case
    je, jl = case.cols.index("Total" + SEP + "energy"), case.cols.index("Total" + SEP + "latency")
    for r in case.rows:
        rep = drv.ask("C28", {"op": "row", "cols": case.cols, "vals": [int(v) for v in r], "einsums": case.einsums})
        if "err" in rep:
            raise HarnessError("driver: " + json.dumps(rep))
        r[je] = rep["spec"]["energy_total"]
        r[jl] = rep["spec"]["latency_total"] if rep["spec"]["latency_total"] is not None else 0
    return case


# ----------------------------------------------------------------------------------------------- real results
def real_specs(ctx):
    import accelforge as af

    A, W, MP = af.examples.arches, af.examples.workloads, af.examples.mappings
    mm = W.basic.matmuls
    fams = [
        ("map:simple/matmuls N=2 M=4 KN=6 glb=480", "map", [A.simple, mm], {"N_EINSUMS": 2, "M": 4, "KN": 6, "GlobalBufferSize": 480}, None),
        ("map:simple/matmuls N=3 float energies, finite GLB throughput", "map", [A.simple, mm],
         {"N_EINSUMS": 3, "M": 4, "KN": 4, "GlobalBufferSize": 300, "MainMemoryEnergy": 1.37, "GlobalBufferThroughput": 3}, None),
        ("eval:unfused_matmuls_to_simple", "eval", [A.simple, mm, MP.unfused_matmuls_to_simple],
         {"N_EINSUMS": 2, "M": 8, "KN": 4, "MainMemoryEnergy": 40, "GlobalBufferSize": 1e5}, None),
        ("eval:fused_matmuls_to_simple", "eval", [A.simple, mm, MP.fused_matmuls_to_simple],
         {"N_EINSUMS": 2, "M": 8, "KN": 8, "MainMemoryEnergy": 30.5, "GlobalBufferSize": 1e5}, None),
        ("map:simple/matmuls N=2 M=4 KN=4 pareto(energy,latency): several rows", "map", [A.simple, mm],
         {"N_EINSUMS": 2, "M": 4, "KN": 4, "GlobalBufferSize": 128, "GlobalBufferThroughput": 1, "MainMemoryEnergy": 7}, "pareto"),
        ("map:simple/matmuls N=1 leak>0", "map", [A.simple, mm], {"N_EINSUMS": 1, "M": 4, "KN": 4, "GlobalBufferSize": 200, "GlobalBufferThroughput": 2}, "leak"),
    ]
    if ctx.thorough:
        fams += [
            ("map:simple/matmuls N=3 M=8 KN=4 pareto(energy,latency)", "map", [A.simple, mm],
             {"N_EINSUMS": 3, "M": 8, "KN": 4, "GlobalBufferSize": 256, "GlobalBufferThroughput": 1, "MainMemoryEnergy": 7}, "pareto"),
            ("map:simple/matmuls N=2 M=6 KN=6 glb=300 float", "map", [A.simple, mm],
             {"N_EINSUMS": 2, "M": 6, "KN": 6, "GlobalBufferSize": 300, "MainMemoryEnergy": 0.3}, None),
            ("map:simple/matvecs", "map", [A.simple, W.basic.matvecs], {"N_EINSUMS": 2, "M": 4, "KN": 4}, None),
            ("eval:unfused_matmuls N=1", "eval", [A.simple, mm, MP.unfused_matmuls_to_simple],
             {"N_EINSUMS": 1, "M": 4, "KN": 4, "MainMemoryEnergy": 3, "GlobalBufferSize": 1e5}, None),
        ]
    return fams


def run_real(ctx, name, kind, files, jp, tweak):
    import accelforge as af
    from accelforge.mapper import Metrics

    buf = io.StringIO()
    with contextlib.redirect_stdout(buf), contextlib.redirect_stderr(buf):
        spec = af.Spec.from_yaml(*files, jinja_parse_data=jp)
        if tweak == "leak":
            for n in ("MainMemory", "GlobalBuffer", "MAC"):
                try:
                    spec.arch.find(n).leak_power = 0.25
                except Exception:
                    pass
        if tweak == "pareto":
            spec.mapper.metrics = Metrics.ENERGY | Metrics.LATENCY
        if kind == "map":
            r = spec.map_workload_to_arch(print_progress=False)
        else:
            r = spec.evaluate_mapping()
    return r


def case_of_mappings(r, stream="real"):
    import numpy as np

    df = r.data
    cols = [str(c) for c in df.columns]
    rows = []
    for i in range(len(df)):
        row = []
        for c in df.columns:
            v = df[c].iloc[i]
            if isinstance(v, (int, float, np.integer, np.floating, np.bool_)):
                row.append(v)
            else:
                row.append(None)
        rows.append(row)
    einsums = [[str(e), [str(t) for t in r.spec.workload.einsums[e].tensor_names]] for e in r.einsum_names]
    return Case(cols, rows, einsums, stream, True)


# ----------------------------------------------------------------------------------------------- run
def run(ctx: Ctx):
    import time as _time0
    _tg = _time0.time()
    ctx.lean_gate()
    ctx.cov.setdefault("timing_s", {})["lean-build-and-audit"] = round(_time0.time() - _tg, 2)
    ctx.anchors(ANCHORS)
    ctx.cov["rule"] = (
        "stream real: every row of Mappings returned by map_workload_to_arch / evaluate_mapping on tiny specs (integer and float32/float64 "
        "columns, tracked and untracked memories, leak > 0, fused and unfused); stream synthetic: Mappings built around generated integer "
        "DataFrames following the column grammar (1-10 Einsums, 1-7 components, shared tensors, compute 'None' tensor, zero columns, missing "
        "columns, 1-4 rows, shuffled column order, extra non-report columns); stream collision: the same with every role's names drawn from "
        "one confusing pool (keywords energy/action/latency/leak/None/Total/reservation, names that are prefixes of each other, names "
        "containing fragments of <SEP>, tensors named like components). All 16 energy / 8 actions / 4 latency flag combinations and "
        "resource_usage are compared per row with the Lean model's aggregation and the Lean spec oracle, totals also with Total<SEP>energy "
        "and Total<SEP>latency. non-trivial = at least 2 distinct keys in the energy table and at least one flag combination that merges keys"
    )
    ctx.cov["tolerance"] = (
        f"exact (rational) when every numeric value of the row is an integer < 2^50 (all synthetic and collision cases, integer-valued real "
        f"results); otherwise relative {TOL} on float-valued real results (float32 columns; pandas summation order is not modelled)"
    )
    ctx.cov["trusted_base"] += [
        "pandas column selection/rename/arithmetic and numpy.maximum act column-wise and row-independently (modelled per row, not verified)",
        "harness/props/c28.py canonicalisation of the returned dictionaries (None vs 'None' keys kept distinct)",
        "join/split round trip: '<SEP>'.join(parts).split('<SEP>') == parts for separator-free parts (the model keeps part lists between "
        "accesses; exercised by the collision stream, splitSep itself is compared with str.split on every run)",
    ]
    ctx.assumptions += [
        "values are modelled as exact integers/rationals; float rounding of pandas sums is covered by the stated tolerance only",
        "the equality energy() == Total<SEP>energy and latency() == Total<SEP>latency on real results is a data invariant established by "
        "run_model/join (checked on every real row here, not proved); the theorems prove that energy()/latency() equal the sums / Σ max of "
        "the per-Einsum columns",
        "names equal to the reserved words Total / reservation are outside the property's domain (the frontend rejects an Einsum named "
        "Total; the pipeline cannot carry a component/Einsum named reservation): there only implementation == model is checked",
        "a ValueError raised by _get_cols/access on a keyword-colliding name (e.g. a tensor named 'energy') is a loud refusal, compared with the "
        "model's error, not counted as a violation",
    ]
    drv = ctx.driver()
    rng = ctx.rng
    corr_all = []

    import time as _time
    timing = ctx.cov.setdefault("timing_s", {})

    def handle(case, m=None, label=None):
        _t0 = _time.time()
        try:
            return _handle(case, m, label)
        finally:
            timing["check:" + case.stream] = round(timing.get("check:" + case.stream, 0.0) + _time.time() - _t0, 2)

    def _handle(case, m=None, label=None):
        findings, info = evaluate(ctx, drv, case, m)
        rep = info.get("last_reply")
        nt = False
        branches = []
        if rep:
            et = rep["energy"].get("table") if "err" not in rep["energy"] else None
            nt = bool(et) and len(et) >= 2
            for r in ("energy", "actions", "latency", "usage"):
                branches.append(f"{r}:" + ("raise-" + rep[r]["err"] if "err" in rep[r] else ("wf" if rep["wf"][r] else "non-wf-returns")))
        ctx.case({"cols": case.cols[:12], "einsums": case.einsums[:3], "row0": [None if v is None else float(v) for v in case.rows[0][:12]] if case.rows else []},
                 nontrivial=nt, branches=branches)
        ctx.dist("stream=" + case.stream)
        ctx.dist("rows=" + (str(len(case.rows)) if len(case.rows) < 4 else "4+"))
        if info.get("n_rows_skipped_nonfinite"):
            ctx.dist("rows-skipped(non-finite value)", info["n_rows_skipped_nonfinite"])
        if info["impl_err"]:
            ctx.dist("impl-raises(" + "+".join(sorted(set(info["impl_err"].values()))) + ")")
        if info.get("reserved_name"):
            ctx.dist("reserved-name-present")
        key, corr = report(ctx, drv, case, findings, info)
        if key:
            ctx.dist("property-failure:" + key)
        for c in corr:
            corr_all.append((case, c))
        return key

    # ---------------- replay mode
    if ctx.replay:
        rp = ctx.replay
        if not os.path.isabs(rp) and not os.path.exists(rp):
            rp = os.path.join(os.path.dirname(os.path.dirname(os.path.dirname(os.path.abspath(__file__)))), rp)
        body = json.loads(open(rp).read())
        p = body.get("replay", {}).get("input") or body.get("input")
        if p is None:
            raise HarnessError("replay file has no input")
        handle(Case.from_payload(p))
        _finish_corr(ctx, corr_all)
        return

    # ---------------- split correspondence (str.split vs splitSep)
    names = []
    for _ in range(300 if not ctx.thorough else 3000):
        k = rng.randint(0, 4)
        frag = ["<SEP>", "<SEP", "SEP>", "<", ">", "S", "EP>", "a", "b", "", "<S", "<SEP><SEP>", "<<SEP>>"]
        names.append("".join(rng.choice(frag) for _ in range(k * 2 + 1)))
    got = drv.ask("C28", {"op": "split", "names": names})
    for n, g in zip(names, got):
        if g != n.split(SEP):
            raise HarnessError(f"splitSep differs from str.split on {n!r}: {g} vs {n.split(SEP)}")
    ctx.dist("split-checks", len(names))

    # ---------------- corpus
    cdir = os.path.join(os.path.dirname(os.path.dirname(os.path.dirname(os.path.abspath(__file__)))), "corpus", "C28")
    if os.path.isdir(cdir):
        for fn in sorted(os.listdir(cdir)):
            if fn.endswith(".json"):
                p = json.loads(open(os.path.join(cdir, fn)).read())
                c = Case.from_payload(p.get("input", p))
                c.stream = "corpus"
                handle(c)

    # ---------------- directed cases (one per model branch that random generation rarely reaches)
    directed = [
        # D1: tensor named like a component (the known finding), minimal
        Case(["Total<SEP>energy", "E<SEP>energy<SEP>X<SEP>X<SEP>read", "E<SEP>energy<SEP>X<SEP>T<SEP>read",
              "E<SEP>action<SEP>X<SEP>X<SEP>read", "E<SEP>action<SEP>X<SEP>T<SEP>read"], [[7, 5, 2, 50, 20]], [["E", ["X", "T"]]], "directed"),
        # duplicate column names: `assert … "Columns must be unique"`
        Case(["E<SEP>energy<SEP>C<SEP>T<SEP>r", "E<SEP>energy<SEP>C<SEP>T<SEP>r", "E<SEP>latency<SEP>C", "reservation<SEP>C<SEP>0<SEP>left"],
             [[1, 2, 3, 4]], [["E", ["T"]]], "directed", check_total_cols=False),
        # duplicate name after removing the key: "A<SEP>latency" and "A<SEP>latency<SEP>" both become ""
        Case(["A<SEP>latency", "A<SEP>latency<SEP>", "A<SEP>energy<SEP>C<SEP>T<SEP>r"], [[1, 2, 3]], [["A", ["T"]]], "directed", check_total_cols=False),
        # keyword as a tensor name: loud ValueError (varying indexes)
        Case(["Total<SEP>energy", "E<SEP>action<SEP>C<SEP>energy<SEP>read", "E<SEP>energy<SEP>C<SEP>energy<SEP>read"], [[1, 1, 1]],
             [["E", ["energy"]]], "directed", check_total_cols=False),
        # prefixes: E1 / E10, T / T1, component C / C1
        Case(["Total<SEP>energy", "Total<SEP>latency", "E1<SEP>energy<SEP>C<SEP>T<SEP>r", "E10<SEP>energy<SEP>C<SEP>T<SEP>r", "E1<SEP>energy<SEP>C1<SEP>T1<SEP>r",
              "E1<SEP>energy<SEP>C<SEP>leak", "E10<SEP>energy<SEP>C<SEP>leak", "E1<SEP>latency<SEP>C", "E1<SEP>latency<SEP>C1", "E10<SEP>latency<SEP>C",
              "E1<SEP>action<SEP>C<SEP>T<SEP>r", "E10<SEP>action<SEP>C<SEP>T1<SEP>r", "reservation<SEP>C<SEP>0<SEP>left", "reservation<SEP>C1<SEP>0<SEP>left",
              "reservation<SEP>C<SEP>1<SEP>right"],
             [[1 + 2 + 4 + 8 + 16, 9 + 3, 1, 2, 4, 8, 16, 5, 9, 3, 7, 7, 2, 6, 4], [31, 7 + 1, 16, 8, 4, 2, 1, 7, 2, 1, 0, 1, 9, 1, 3]],
             [["E1", ["T", "T1"]], ["E10", ["T", "T1"]]], "directed"),
        # no report columns at all
        Case(["Total<SEP>mapping", "E<SEP>mapping"], [[0, 0]], [["E", ["T"]]], "directed", check_total_cols=False),
        # reserved (out of domain, correspondence only): Einsum named Total / reservation
        Case(["Total<SEP>latency", "Total<SEP>latency<SEP>MAC", "B<SEP>latency<SEP>MAC"], [[9, 4, 5]], [["Total", ["T"]], ["B", ["T"]]], "directed", check_total_cols=False),
        Case(["reservation<SEP>GLB<SEP>0<SEP>right", "reservation<SEP>energy<SEP>MAC<SEP>leak"], [[3, 8]], [["reservation", ["T"]]], "directed", check_total_cols=False),
    ]
    for j, c in enumerate(directed):
        k = handle(c)
        if j == 0:
            # the Lean witness `energy_tensor_named_like_component_counterexample`, replayed on the real code
            ctx.cov["known_finding_witness_reproduced_on_real_code"] = k == KNOWN_D1
            if k != KNOWN_D1:
                print("NOTE: property=C28 the known finding '%s' no longer reproduces on the current tree "
                      "(witness theorem describes older code; the wf-hypothesis theorems still apply)" % KNOWN_D1)

    # ---------------- stream (b) synthetic and (c) collision
    n_syn = 400 if ctx.thorough else 55
    n_col = 900 if ctx.thorough else 120
    n_big = 12 if ctx.thorough else 2
    for k in range(n_syn):
        handle(fix_totals(drv, gen_case(rng, "synthetic")))
    for k in range(n_big):
        handle(fix_totals(drv, gen_case(rng, "synthetic", big=True)))
    for k in range(n_col):
        handle(fix_totals(drv, gen_case(rng, "collision")))

    # ---------------- stream (a) real results
    from accelforge.util.parallel import set_n_parallel_jobs

    set_n_parallel_jobs(1)
    fams = real_specs(ctx)
    if not ctx.thorough:
        # quick tier: one mapper family, rotating with the seed (seeds 0..3 cover integer / float32 / several-rows / leak>0),
        # and always the cheap evaluate_mapping ones
        maps = [f for f in fams if f[1] == "map"]
        fams = [maps[ctx.seed % len(maps)]] + [f for f in fams if f[1] != "map"]
    real_rows = 0
    for name, kind, files, jp, tweak in fams:
        try:
            _t0 = _time.time()
            r = run_real(ctx, name, kind, files, jp, tweak)
            timing["produce-real-results"] = round(timing.get("produce-real-results", 0.0) + _time.time() - _t0, 2)
        except Exception as e:  # the pipeline itself failing is not this property's business
            ctx.dist("real-spec-failed:" + type(e).__name__)
            ctx.cov.setdefault("real_spec_failures", []).append({"spec": name, "error": repr(e)[:300]})
            continue
        case = case_of_mappings(r)
        if len(case.rows) > 6:
            keep = sorted(rng.sample(range(len(case.rows)), 6))
            case.rows = [case.rows[i] for i in keep]
            r = r._update(data=r.data.iloc[keep])
        real_rows += len(case.rows)
        ctx.dist("real:" + name)
        handle(case, m=r)
        if len(case.rows) > 1:  # single-mapping view of the first row (scalar convention)
            c1 = Case(case.cols, [case.rows[0]], case.einsums, "real", True)
            handle(c1, m=r[0])
    ctx.cov["real_rows_checked"] = real_rows
    if real_rows == 0:
        raise HarnessError("no real result set could be produced (mapper / evaluate_mapping failed on every tiny spec)")
    _finish_corr(ctx, corr_all)


def _finish_corr(ctx, corr_all):
    """Differences between implementation and model OUTSIDE the well-formed domain (where the theorems do not speak and the
    implementation agreed with the spec, refused loudly, or the names are reserved): recorded, never an alarm."""
    ctx.cov["impl_vs_model_differences_outside_wf_domain"] = len(corr_all)
    if corr_all:
        case, c = corr_all[0]
        ctx.cov["impl_vs_model_difference_sample"] = {"input": case.payload(), "finding": list(c)}
