"""C01 — the mapper returns a mapping that is optimal over the whole mapspace.

Proof:  AFV/Props/C01.lean
        (search layer)   ffm_best_eq_exact_best, no_valid_better, staged_best_eq_exact_best: the prune–join–prune pipeline returns
                         the optimum of ALL compatible within-capacity combinations of the per-Einsum tables;
        (mapspace layer) all_sound / all_complete: the reference enumerator `Mapspace.all` produces exactly the mappings the
                         declarative description `inSpace` admits; refBest_le / refBest_attained: `refBest` is the minimum of the
                         model-evaluated objective over every valid member of that space.
Spec:   AFV/Spec/Mapspace.lean  (`inSpace`, `all`, `cost` = AFV.Nest.analytic on exact rationals, `refBest`, `refFront`, fused pairs)
Tie:    end to end.  For every spec of the seeded small-spec family (1–2 Einsums, 2–3 memory levels, rank bounds with several
        divisors, finite/infinite buffers, energy ratios 1:1…1:200, bandwidth- or compute-bound, default mapper knobs) the real
        `map_workload_to_arch` is run for ENERGY, LATENCY and ENERGY_DELAY_PRODUCT and its best objective is compared with the
        native Lean scan of the WHOLE reference mapspace (`refBest`).  What the spec demands (bounds, projections, keep/may_keep,
        sizes, energies, throughputs) is read from the repo's own front end (`mapspacelib.describe`).

Verdicts
  * refBest < mapper's best: the driver's argmin mapping is rebuilt as YAML and given to the real `evaluate_mapping`; accepted and
    strictly better beyond float tolerance → VIOLATION (replay = spec + that mapping).  If the real model does not agree that it is
    better, the Lean cost model and the code differ (C05's subject): correspondence (iii) is reported broken.
  * mapper's best < refBest: the mapper's mapping is exported and judged by `inSpace`/`cost` in Lean.  In the space, within capacity
    and with the same cost → the enumerator would be incomplete (contradicts `all_complete`): harness error, never a violation.
    Outside the described space or over capacity → the mapper returned an invalid mapping that beats every valid one: VIOLATION.
"""
from __future__ import annotations

from fractions import Fraction

from harness.core import Ctx, HarnessError
from harness import mapperlib as ML
from harness import mapspacelib as MS

ANCHORS = [
    "accelforge.mapper.FFM._make_pmappings.make_pmapping_templates.make_pmapping_templates:iterate_mappings_no_constraints",
    "accelforge.mapper.FFM._make_pmappings.make_pmapping_templates.make_pmapping_templates:place_missing_temporal_loops",
    "accelforge.mapper.FFM._make_pmappings.make_pmapping_templates.make_loops:insert_temporal_loops",
    "accelforge.mapper.FFM._make_pmappings.make_pmapping_templates.make_loops:canonical_loop_orders",
    "accelforge.mapper.FFM._make_pmappings.make_pmapping_templates.make_storage_order:recursive_order_tensor_choices",
    "accelforge.mapper.FFM._make_pmappings.make_pmapping_templates.make_storage_order:valid_tensor_holder_order",
    "accelforge.mapper.FFM._make_pmappings.make_pmapping_templates.make_storages:make_tensor_choices_one_level",
    "accelforge.mapper.FFM._make_pmappings.make_pmappings_from_templates.make_tile_shapes:get_tile_shape_choices",
    "accelforge.mapper.FFM._join_pmappings.join_pmappings:join_pmappings",
    "accelforge.mapper.FFM._join_pmappings.pmapping_dataframe:PmappingDataframe.make_pareto",
    "accelforge.mapper.FFM._join_pmappings.pmapping_dataframe:PmappingDataframe.limit_capacity",
    "accelforge.mapper.FFM.main:map_workload_to_arch",
]

METRIC_SETS = [("energy", ["ENERGY"]), ("latency", ["LATENCY"]), ("edp", ["ENERGY_DELAY_PRODUCT"])]
MNAME = {"energy": "ENERGY", "latency": "LATENCY", "edp": "ENERGY_DELAY_PRODUCT"}

MIX_QUICK = [(1, 2, "matmuls"), (1, 2, "einsum3"), (2, 2, "matmuls"), (1, 3, "matmuls"), (1, 2, "einsum3"), (2, 2, "matmuls"), (1, 2, "matmuls")]
MIX_THOROUGH = MIX_QUICK + [(1, 3, "einsum3"), (2, 3, "matmuls"), (1, 2, "matmuls"), (2, 2, "matmuls")]


def objective_of_eval(ev, metric):
    if ev.get("error") or ev.get("energy") is None:
        return None
    return {"energy": ev["energy"], "latency": ev["latency"], "edp": ev["energy"] * ev["latency"]}[metric]


def judge_mapper_mapping(drv, desc, export):
    """Lean verdicts on a mapping the mapper returned: per Einsum inSpace + clauses, and (single Einsum) its cost."""
    paths = ML.flat_einsum_paths(export)
    out = []
    two = len(desc["einsums"]) == 2
    for ei, e in enumerate(desc["einsums"]):
        m = MS.export_to_mapping(desc, ei, paths[e["name"]])
        if two:
            x = MS.intermediate(desc)[ei]
            r = drv.ask("C01", {"op": "half", "spec": e["spec"], "x": x, "D": desc["D"], "mapping": m})
        else:
            r = drv.ask("C01", {"op": "eval", "spec": e["spec"], "mapping": m})
        if "err" in r:
            raise HarnessError(f"driver eval: {r}")
        r["mapping"] = m
        out.append(r)
    return out


def run(ctx: Ctx):
    ctx.lean_gate()
    ctx.anchors(ANCHORS)
    ctx.cov["rule"] = ("seeded small specs: matmul chains with 1–2 Einsums and 3-rank Einsums (matmul / reduction-only rank / batch patterns) on "
                       "2–3 level memory hierarchies; rank bounds from {2,3,4,6,8} shrunk until the reference mapspace has at most the tier's "
                       "limit of members; finite/infinite buffers, energy ratios 1:1…1:200, throughputs making memory or compute the bottleneck; "
                       "default mapper knobs.  non-trivial = the three optima are attained by ≥ 2 different mappings or a finite buffer binds")
    ctx.cov["tolerance"] = MS.REL
    ctx.cov["trusted_base"] += [
        "harness/mapspacelib.py describe(): reads bounds / projections / keep / may_keep / sizes / energies / throughputs from the repo's own evaluated Spec",
        "AFV.Nest.analytic as the cost model (its match to evaluate_mapping is C05's correspondence; every disagreement found here is re-checked with the real evaluate_mapping)",
    ]
    ctx.assumptions += [
        "that the mapper's template rules (lowering through relevant loops, raising through irrelevant loops, one loop per rank variable and block, no redundant back-to-back holders) lose no optimum is NOT proved for all specs; it is checked end to end on every generated spec against the exhaustive reference",
        "spatial loops, Tolls, imperfect factorisation and expressions in projections are outside the reference mapspace",
        "two Einsums: energy/latency of a fused tree = sum of the per-Einsum model values, peak usage = shared-prefix holders + max over branches (checked against the real code whenever a reference mapping is re-evaluated; C04's subject)",
        "throughput `inf` is encoded as 0 (Lean Rat: x / 0 = 0); size `inf` gives usage 0",
    ]
    n = 40 if ctx.thorough else 6
    limit = 600_000 if ctx.thorough else 70_000
    ML.init(1)
    drv = ctx.driver()
    fam = MS.family(ctx, drv, n, limit, MIX_THOROUGH if ctx.thorough else MIX_QUICK)
    ctx.cov["mapspace_sizes"] = [sz for _, _, sz in fam]
    ctx.cov["timing"] = {"family_s": round(ctx.elapsed(), 1)}
    # real mapper (worker processes) -----------------------------------------------------------------------------------
    results = ML.pool_map(MS.mapper_work, [(p, METRIC_SETS) for p, _, _ in fam], workers=4)
    ctx.cov["timing"]["mapper_s"] = round(ctx.elapsed(), 1)
    # Lean scans ---------------------------------------------------------------------------------------------------------
    sc = MS.Scanner(4)
    try:
        reqs, owner = [], []
        for i, (p, desc, size) in enumerate(fam):
            parts = 1 if len(desc["einsums"]) == 2 else max(1, min(4, size // 20_000))
            for r in MS.scan_requests(desc, parts):
                reqs.append(r)
                owner.append(i)
        replies = sc.run(reqs)
    finally:
        sc.close()
    scans = []
    for i, (p, desc, size) in enumerate(fam):
        scans.append(MS.merge_scans(desc, [r for r, o in zip(replies, owner) if o == i]))
    ctx.cov["mappings_enumerated"] = sum(s["n"] for s in scans)
    ctx.cov["timing"]["scans_s"] = round(ctx.elapsed(), 1)
    for (p, desc, size), s in zip(fam, scans):
        if s["n"] != size:
            raise HarnessError(f"size estimator {size} ≠ driver's |all| {s['n']} for {p}")
    # compare ------------------------------------------------------------------------------------------------------------
    to_eval = []   # (index, metric, export, lean mappings, ref value)
    for i, ((p, desc, size), res, scan) in enumerate(zip(fam, results, scans)):
        ne = len(desc["einsums"])
        ctx.dist(f"{p['workload']['kind']}-{ne}E-L{p['levels']}-{'finite' if p['glb_size'] != 'inf' else 'inf'}")
        for metric, _ in METRIC_SETS:
            r = res[metric]
            ref = scan["best"].get(metric)
            base = {"params": p, "metric": MNAME[metric], "mapspace_size": scan["n"], "valid": scan["valid"]}
            if r["error"] or not r["rows"]:
                ctx.case({**base, "mapper": r["error"] or "no rows"}, nontrivial=False, branches=["mapper-no-mapping"])
                if ref is not None:
                    # a valid mapping exists but the mapper found none
                    export, ms = MS.witness_export(drv, desc, ref[1])
                    to_eval.append((i, metric, export, ms, ref[0], None, "mapper-finds-nothing"))
                continue
            b_map = ML.best(r["rows"], MNAME[metric])
            if ref is None:
                # reference space has no valid member but the mapper returned something
                row = min(r["rows"], key=lambda x: ML.objective(x, MNAME[metric]))
                verdicts = judge_mapper_mapping(drv, desc, row["mapping"])
                ctx.fail("mapper-returns-mapping-when-none-valid", "the reference mapspace has no valid mapping but the mapper returned one",
                         {**base, "mapping": row["mapping"], "lean": verdicts})
                continue
            b_ref = float(ref[0])
            distinct = len({str(scan["best"][k][1]) for k in scan["best"]})
            ctx.case({**base, "ref": str(ref[0]), "mapper": b_map}, nontrivial=distinct >= 2 or scan["valid"] < scan["n"],
                     branches=[f"{ne}E", "capacity-binds" if scan["valid"] < scan["n"] else "all-fit"])
            if ML.close(b_map, b_ref, MS.REL):
                continue
            if b_ref < b_map:
                export, ms = MS.witness_export(drv, desc, ref[1])
                to_eval.append((i, metric, export, ms, ref[0], b_map, "suboptimal"))
            else:
                row = min(r["rows"], key=lambda x: ML.objective(x, MNAME[metric]))
                verdicts = judge_mapper_mapping(drv, desc, row["mapping"])
                rep = {**base, "mapper_best": b_map, "ref_best": str(ref[0]), "mapping": row["mapping"], "lean": verdicts}
                bad = sorted({k for v in verdicts for k, ok in v["clauses"].items() if not ok})
                if bad:
                    ctx.fail("mapper-better-than-optimum:outside-space:" + "+".join(bad),
                             "the mapper's best mapping beats every valid mapping of the mapspace and lies outside the described space", rep)
                elif ne == 1 and verdicts[0]["cost"] is not None and verdicts[0]["fits"] is False:
                    ctx.fail("mapper-better-than-optimum:over-capacity",
                             "the mapper's best mapping beats every valid mapping of the mapspace and exceeds a memory's size", rep)
                elif ne == 1 and verdicts[0]["cost"] is not None:
                    c = verdicts[0]["cost"]
                    lean_obj = {"energy": MS.qf(c["energy"]), "latency": MS.qf(c["latency"]), "edp": MS.qf(c["energy"]) * MS.qf(c["latency"])}[metric]
                    if ML.close(float(lean_obj), b_map, MS.REL):
                        raise HarnessError(f"reference enumerator incomplete: mapper's mapping is in the space, fits, costs {lean_obj} < refBest {ref[0]}: {rep}")
                    ctx.broken("correspondence (iii): the Lean cost model and the mapper's reported objective differ on a mapping the mapper returned "
                               "(cost-model difference, C05's subject)", {**rep, "lean_objective": str(lean_obj)})
                else:
                    ctx.broken("correspondence (iii): the mapper's best fused mapping is better than the reference optimum of the fused mapspace "
                               "(pairing / additivity assumption or cost model differs)", rep)
    # re-evaluate the reference argmins the mapper did not reach with the REAL model -----------------------------------------
    if to_eval:
        evs = ML.pool_map(MS.eval_work, [(fam[i][0], export) for i, _, export, *_ in to_eval], workers=4)
        for (i, metric, export, ms, refv, b_map, kind), ev in zip(to_eval, evs):
            p, desc, _ = fam[i]
            real = objective_of_eval(ev, metric)
            rep = {"params": p, "metric": MNAME[metric], "mapper_best": b_map, "ref_best": str(refv), "better_mapping": export,
                   "evaluate_mapping": ev, "lean_mappings": ms}
            usage_ok = all(u is None or u <= 1 + 1e-9 for u in (ev.get("usage") or {}).values())
            if real is not None and usage_ok and ML.close(real, float(refv), 1e-4) and (b_map is None or real < b_map * (1 - MS.REL)):
                feats = "+".join(MS.mapping_features(desc, ms))
                strict = scans[i]["strict"].get(metric)
                # the delimited finding: the better mapping fills a memory exactly and the mapper is as good as the optimum over
                # the mappings that fill no memory exactly (Lean: exactly_full_counterexample / refBest_eq_strict_partial)
                explained = MS.exactly_full(ev) and (
                    (b_map is None and strict is None) or
                    (b_map is not None and strict is not None and b_map <= float(strict[0]) * (1 + MS.REL)))
                rep["ref_best_strict"] = None if strict is None else str(strict[0])
                if explained:
                    ctx.fail(MS.KNOWN_FULL, "a valid mapping that fills a memory exactly (accepted by evaluate_mapping with usage 1.0) is strictly "
                             "better than the mapper's best; the mapper returns the optimum over the strictly fitting mappings", rep)
                elif kind == "mapper-finds-nothing":
                    ctx.fail(f"mapper-finds-nothing:{feats}", "the mapper returns no mapping although a valid one exists (accepted by evaluate_mapping)", rep)
                else:
                    ctx.fail(f"suboptimal:{MNAME[metric]}:{feats}",
                             "a valid mapping of the mapspace, accepted by evaluate_mapping, is strictly better than the mapper's best", rep)
            else:
                ctx.broken("correspondence (iii): the reference optimum is better than the mapper's best, but the real evaluate_mapping does not "
                           "confirm the reference mapping's cost (cost-model difference, C05/C04's subject)", rep)
