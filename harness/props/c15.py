"""C15 — compressing pmapping tables for joining loses no per-row detail.

Proof:   AFV/Props/C15.lean  (compress_keeps_joining, compress_index_global, compress_index_injective,
         compress_shape, decompress1_compress, decompress_compress_conv, decompress_compress_partial,
         decompress_compress_counterexample, roundF64_small, decompress_compress_id, decompress_lookup,
         decompress_empty_selection_raises, per_einsum_cols_kept_aside)
Model:   AFV/Model/Compress.lean (hand model of _compress / _compress_pmapping_list / compress_einsum2pmappings /
         decompress_pmappings: dict-with-overwrite of start indices, reverse walk, pd.concat with the int64->float64
         conversion of NaN-filled columns, left merge; col_used_in_joining)
Finding: the full statement is FALSE for the code as it is: an int64 cell beyond +-2^53 in a kept-aside column that another
         selected row lacks comes back rounded (key int64-beyond-2^53-rounded-by-nan-fill, known_findings.jsonl; Lean witness
         decompress_compress_counterexample replayed from corpus/C15/k1-int64-nan-fill-witness.json).
Tie:     correspondence.  The real compress_einsum2pmappings + decompress_pmappings run on generated
         {einsum: [PmappingGroup(PmappingDataframe(pandas table))]} with arbitrary row counts (0, 1, many; leading /
         trailing / consecutive empty tables), column sets and dtypes that differ between tables, arbitrary source
         index labels, and a synthetic join result that selects rows per Einsum (repeats, any order).  The index cells
         of the synthetic join result are READ from the real compressed tables, so a different but injective numbering
         is not an alarm.  Observables compared with the Lean model/spec:
           (1) compressed tables: same shape, joining cells of every row unchanged, index injective per Einsum;
           (2) decompressed result: row for row, the dict {column: value} of non-null cells.
         Thorough tier additionally: real pmapping tables of tiny specs through compress → real join → decompress.
"""
from __future__ import annotations

import copy
import json
import math
import zlib
from fractions import Fraction

from pathlib import Path

from harness.core import CORPUS_DIR, VERIF, Ctx, HarnessError

ANCHORS = [
    "accelforge.mapper.FFM._join_pmappings.compress_pmappings:_compress",
    "accelforge.mapper.FFM._join_pmappings.compress_pmappings:_compress_pmapping_list",
    "accelforge.mapper.FFM._join_pmappings.compress_pmappings:compress_einsum2pmappings",
    "accelforge.mapper.FFM._join_pmappings.compress_pmappings:decompress_pmappings",
    "accelforge.mapper.FFM._pareto_df.df_convention:col_used_in_joining",
]

SEP = "<SEP>"
DTYPES = ["i8", "u1", "f8", "f4", "str"]

# ----------------------------------------------------------------------------------------------
# values: JSON-able tokens  "i:<int>"  "f:<float.hex | inf | -inf | nan>"  "s:<text>"
# ----------------------------------------------------------------------------------------------


def tok_to_py(t: str):
    k, _, v = t.partition(":")
    if k == "i":
        return int(v)
    if k == "f":
        if v in ("inf", "-inf", "nan"):
            return float(v)
        return float.fromhex(v)
    if k == "s":
        return v
    raise HarnessError("bad token " + t)


def canon(v):
    """Canonical form of a cell value as the property observes it: exact number / text; None = null."""
    import numpy as np
    import pandas as pd

    if v is None:
        return None
    if isinstance(v, str):
        return "s:" + v
    if isinstance(v, (bool, np.bool_)):
        return "b:%d" % int(v)
    if isinstance(v, (int, np.integer)):
        return "n:%d/1" % int(v)
    if isinstance(v, (float, np.floating)):
        v = float(v)
        if math.isnan(v):
            return None
        if math.isinf(v):
            return "n:inf" if v > 0 else "n:-inf"
        fr = Fraction(v)
        return "n:%d/%d" % (fr.numerator, fr.denominator)
    try:
        if pd.isna(v):
            return None
    except Exception:
        pass
    return "o:" + repr(v)


def frame_rows(df, skip=()):
    """DataFrame -> list of {col: canon} with null cells left out, in row order."""
    cols = [c for c in df.columns if c not in skip]
    lists = {c: df[c].tolist() for c in cols}
    out = []
    for i in range(len(df)):
        r = {}
        for c in cols:
            x = canon(lists[c][i])
            if x is not None:
                r[c] = x
        out.append(r)
    return out


def build_df(cols, rows, index=None):
    """cols: [[name, dtype]], rows: [[token,...]] -> pandas DataFrame."""
    import numpy as np
    import pandas as pd

    npdt = {"i8": np.int64, "u1": np.uint8, "f8": np.float64, "f4": np.float32, "str": object}
    data = {}
    for ci, (name, dt) in enumerate(cols):
        vals = [tok_to_py(r[ci]) for r in rows]
        data[name] = np.array(vals, dtype=npdt[dt]) if dt != "str" else np.array(vals + [None], dtype=object)[:-1]
    if index is None:
        index = list(range(len(rows)))
    df = pd.DataFrame(data, index=pd.Index(list(index), dtype=np.int64))
    if not cols:
        df = pd.DataFrame(index=pd.Index(list(index), dtype=np.int64))
    return df


# ----------------------------------------------------------------------------------------------
# running one case on the real code and on the Lean model
# ----------------------------------------------------------------------------------------------


class _Compat:
    """Stand-in for Compatibility when a table has fused_loop columns (PmappingGroup only needs
    .tensors and .symbols())."""

    def __init__(self, syms):
        self.tensors = ()
        self._s = list(syms)

    def symbols(self):
        return list(self._s)


class Impl:
    def __init__(self):
        import importlib

        from accelforge.util.parallel import set_n_parallel_jobs

        set_n_parallel_jobs(1)
        self.cp = importlib.import_module("accelforge.mapper.FFM._join_pmappings.compress_pmappings")
        self.PG = importlib.import_module("accelforge.mapper.FFM._join_pmappings.pmapping_group").PmappingGroup
        self.PD = importlib.import_module("accelforge.mapper.FFM._join_pmappings.pmapping_dataframe").PmappingDataframe
        self.Compat = importlib.import_module("accelforge.mapper.FFM._join_pmappings.compatibility").Compatibility
        self.conv = importlib.import_module("accelforge.mapper.FFM._pareto_df.df_convention")
        from accelforge.util._frozenset import fzs

        self.fzs = fzs

    def pdf(self, df):
        return self.PD(
            df,
            n_total_pmappings=max(len(df), 1),
            n_valid_pmappings=max(len(df), 1),
            ignored_resources=set(),
            drop_valid_reservations=False,
            skip_pareto=True,
        )

    def group(self, df):
        fused = [c for c in df.columns if c.startswith("fused_loop" + SEP)]
        compat = _Compat(fused) if fused else self.Compat(tensors=self.fzs())
        return self.PG(compat, self.pdf(df))

    def joining(self, col: str):
        """True / False / 'raise' from the real classifier."""
        try:
            return bool(self.conv.col_used_in_joining(col))
        except Exception:
            return "raise"


def run_impl(impl: Impl, case: dict):
    """Returns dict(orig=…, comp=…, out=… | exc=…): everything observable from the real code."""
    e2p = {}
    orig = {}
    for e in case["einsums"]:
        groups = [impl.group(build_df(t["cols"], t["rows"], t.get("index"))) for t in e["tables"]]
        e2p[e["name"]] = groups
        orig[e["name"]] = [frame_rows(g.mappings.data) for g in groups]
    res = {"orig": orig}
    try:
        comp, dd = impl.cp.compress_einsum2pmappings(e2p, False)
    except Exception as ex:  # noqa: BLE001 - outcome to compare
        res["exc"] = ("compress", type(ex).__name__, str(ex)[:300])
        return res
    comp_obs = {}
    for name, groups in comp.items():
        icol = f"{name}{SEP}compressed_index"
        tabs = []
        for g in groups:
            d = g.mappings.data
            if icol not in d.columns:
                tabs.append({"keep": frame_rows(d), "idx": None})
            else:
                tabs.append({"keep": frame_rows(d, skip=(icol,)), "idx": [int(x) for x in d[icol].tolist()]})
        comp_obs[name] = tabs
    res["comp"] = comp_obs
    res["comp_order"] = list(comp.keys())
    # the synthetic join result: own cells + one index cell per Einsum, read from the real compressed tables
    jdf = build_df(case["joined"]["cols"], case["joined"]["rows"])
    sel_ok = True
    for ei, e in enumerate(case["einsums"]):
        name = e["name"]
        vals = []
        for r in case["sel"]:
            t, p = r[ei]
            tab = comp_obs.get(name, [])
            if t < len(tab) and tab[t]["idx"] is not None and p < len(tab[t]["idx"]):
                vals.append(tab[t]["idx"][p])
            else:
                sel_ok = False
                vals.append(0)
        import numpy as np

        jdf[f"{name}{SEP}compressed_index"] = np.array(vals, dtype=np.int64)
    res["sel_ok"] = sel_ok
    if not sel_ok:
        return res
    try:
        out = impl.cp.decompress_pmappings(impl.pdf(jdf), dd)
        res["out"] = frame_rows(out.data)
        res["out_cols"] = list(out.data.columns)
    except Exception as ex:  # noqa: BLE001
        res["exc"] = ("decompress", type(ex).__name__, str(ex)[:300])
    return res


def lean_request(impl: Impl, case: dict, orig: dict):
    """Build the driver request from the tables as the real code holds them (canonical cells)."""
    all_cols = []
    for e in case["einsums"]:
        for t in e["tables"]:
            for c, _ in t["cols"]:
                if c not in all_cols:
                    all_cols.append(c)
    joining = [c for c in all_cols if impl.joining(c) is True]
    e2p = []
    starts = {}
    for e in case["einsums"]:
        tabs = []
        s, st = 0, []
        for ti, t in enumerate(e["tables"]):
            rows = orig[e["name"]][ti]
            order = [c for c, _ in t["cols"]]
            tabs.append([[[c, r[c]] for c in order if c in r] for r in rows])
            st.append(s)
            s += len(rows)
        starts[e["name"]] = st
        e2p.append([e["name"], tabs])
    jrows_c = frame_rows(build_df(case["joined"]["cols"], case["joined"]["rows"]))
    jorder = [c for c, _ in case["joined"]["cols"]]
    rows = []
    for ri, r in enumerate(case["sel"]):
        idx = []
        for ei, e in enumerate(case["einsums"]):
            t, p = r[ei]
            idx.append([e["name"], starts[e["name"]][t] + p])
        rows.append({"cells": [[c, jrows_c[ri][c]] for c in jorder if c in jrows_c[ri]], "idx": idx})
    return {"op": "roundtrip", "joining": joining, "e2p": e2p, "rows": rows}, joining


KNOWN_KEY = "int64-beyond-2^53-rounded-by-nan-fill"


def _has_big_int(req):
    for _, tabs in req["e2p"]:
        for t in tabs:
            for r in t:
                for _, v in r:
                    if v.startswith("n:") and v.endswith("/1") and abs(int(v[2:-2])) > 2**53:
                        return True
    return False


def judge(impl: Impl, drv, case: dict):
    """Run real code and model on `case`; returns (key, what, detail) for a property failure or None."""
    names = [e["name"] for e in case["einsums"]]
    r = run_impl(impl, case)
    req, joining = lean_request(impl, case, r["orig"])
    m = drv.ask("C15", req)
    if "err" in m:
        raise HarnessError(f"driver rejected request: {m}")
    any_empty = any(len(t["rows"]) == 0 for e in case["einsums"] for t in e["tables"])
    tag = "-with-empty-table" if any_empty else ""
    nsel = len(case["sel"])
    detail = {"case": case, "joining_cols": joining}
    # by column name, first occurrence wins (decompress_lookup); generated names are never shadowed on the unchanged tree
    spec_rows = [dict((c, v) for c, v in reversed(row)) for row in m["spec"]]
    if nsel > 0 and names:
        # decompress_compress_conv / _partial: the model returns rows, and they are the spec rows unless an integer
        # cell beyond +-2^53 sits in a NaN-filled column
        if "ok" not in m["model"]:
            raise HarnessError(f"Lean model raised on a valid selection: {m['model']}")
        if m["model"]["ok"] != m["spec"] and not _has_big_int(req):
            raise HarnessError(f"Lean model disagrees with its proved spec: {m['model']} vs {m['spec']}")
    if "exc" in r and r["exc"][0] == "compress":
        return ("impl-exception-compress-" + r["exc"][1] + tag, f"compress_einsum2pmappings raised {r['exc'][1]}: {r['exc'][2]}", detail)
    # ---- (1) compression observables
    comp = r["comp"]
    if r["comp_order"] != names:
        return ("compress-einsum-order", "compressed dict does not list the Einsums in input order", {**detail, "got": r["comp_order"]})
    for ei, e in enumerate(case["einsums"]):
        name = e["name"]
        mt = m["compressed"][ei][1]
        it = comp[name]
        if [len(t["keep"]) for t in it] != [len(t) for t in mt]:
            return ("compress-shape" + tag, "compression changed the number of tables / rows",
                    {**detail, "einsum": name, "got": [len(t["keep"]) for t in it], "want": [len(t) for t in mt]})
        seen = {}
        for ti, t in enumerate(it):
            if t["idx"] is None:
                return ("compress-no-index-column", "compressed table lacks the <einsum><SEP>compressed_index column", {**detail, "einsum": name, "table": ti})
            want_keep = [dict((c, v) for c, v in cr["keep"]) for cr in mt[ti]]
            if t["keep"] != want_keep:
                return ("compress-joining-cells-changed" + tag, "joining columns of a compressed table differ from the original",
                        {**detail, "einsum": name, "table": ti, "got": t["keep"], "want": want_keep})
            for p, k in enumerate(t["idx"]):
                if k in seen:
                    return ("compress-index-not-injective" + tag, "two rows of one Einsum share a compressed index",
                            {**detail, "einsum": name, "index": k, "rows": [seen[k], [ti, p]]})
                seen[k] = [ti, p]
    # ---- (2) decompression observable
    if nsel == 0:
        # property is vacuous; the code raises ValueError in pd.concat([]) (theorem decompress_empty_selection_raises);
        # returning an empty frame instead would be equally fine.
        if "exc" in r:
            if r["exc"][1] == "ValueError" and (not names or m["model"].get("error") == "ValueError"):
                return None
            return ("impl-exception-empty-selection-" + r["exc"][1], f"decompress_pmappings raised {r['exc'][1]} on an empty join result: {r['exc'][2]}", detail)
        if r.get("out"):
            return ("rows-from-empty-selection", "decompress_pmappings produced rows from an empty join result", {**detail, "got": r["out"]})
        return None
    if not r.get("sel_ok", True):
        raise HarnessError("selection outside compressed tables although shapes agree")
    if "exc" in r:
        return ("impl-exception-decompress-" + r["exc"][1] + tag, f"decompress_pmappings raised {r['exc'][1]} on a valid join result: {r['exc'][2]}", detail)
    out = r["out"]
    if len(out) != len(spec_rows):
        return ("decompress-row-count" + tag, f"decompressed result has {len(out)} rows for {len(spec_rows)} join rows", {**detail, "got": out, "want": spec_rows})
    model_rows = [dict((c, v) for c, v in reversed(row)) for row in m["model"]["ok"]]
    if out != spec_rows and out == model_rows:
        ri = next(i for i in range(len(out)) if out[i] != spec_rows[i])
        wrong = sorted(c for c in spec_rows[ri] if out[ri].get(c) != spec_rows[ri][c])
        return (KNOWN_KEY, "an int64 cell beyond +-2^53 of a kept-aside column that another selected row lacks comes back rounded to float64 "
                "(pd.concat NaN-fills the column); exactly the deviation the model predicts (decompress_compress_counterexample)",
                {**detail, "row": ri, "wrong": wrong, "got": {c: out[ri].get(c) for c in wrong}, "want": {c: spec_rows[ri][c] for c in wrong}})
    for ri, (g, w) in enumerate(zip(out, spec_rows)):
        if g != w:
            missing = sorted(c for c in w if c not in g)
            extra = sorted(c for c in g if c not in w)
            wrong = sorted(c for c in w if c in g and g[c] != w[c])
            kind = "missing-cell" if missing else ("wrong-value" if wrong else "extra-cell")
            own = {c for c, _ in case["joined"]["cols"]}
            where = "join-cell" if any(c in own for c in missing + wrong + extra) else "kept-aside-cell"
            return (f"decompress-{kind}-{where}{tag}", "a decompressed result row does not carry exactly the cells of the rows it was built from",
                    {**detail, "row": ri, "missing": missing, "extra": extra, "wrong": wrong, "got": g, "want": w})
    return None


# ----------------------------------------------------------------------------------------------
# shrinking
# ----------------------------------------------------------------------------------------------


def _variants(case):
    """Smaller candidate cases (each a deep copy)."""
    ne = len(case["einsums"])
    # fewer result rows
    for i in range(len(case["sel"])):
        c = copy.deepcopy(case)
        del c["sel"][i]
        del c["joined"]["rows"][i]
        yield c
    # fewer Einsums
    for ei in range(ne):
        if ne > 1:
            c = copy.deepcopy(case)
            del c["einsums"][ei]
            for r in c["sel"]:
                del r[ei]
            yield c
    # fewer tables
    for ei in range(ne):
        for ti in range(len(case["einsums"][ei]["tables"])):
            if any(r[ei][0] == ti for r in case["sel"]):
                continue
            c = copy.deepcopy(case)
            del c["einsums"][ei]["tables"][ti]
            for r in c["sel"]:
                if r[ei][0] > ti:
                    r[ei][0] -= 1
            yield c
    # fewer rows inside tables
    for ei in range(ne):
        for ti, t in enumerate(case["einsums"][ei]["tables"]):
            for p in range(len(t["rows"])):
                if any(r[ei] == [ti, p] for r in case["sel"]):
                    continue
                c = copy.deepcopy(case)
                tt = c["einsums"][ei]["tables"][ti]
                del tt["rows"][p]
                if tt.get("index") is not None:
                    del tt["index"][p]
                for r in c["sel"]:
                    if r[ei][0] == ti and r[ei][1] > p:
                        r[ei][1] -= 1
                yield c
    # fewer columns
    for ei in range(ne):
        for ti, t in enumerate(case["einsums"][ei]["tables"]):
            for ci in range(len(t["cols"])):
                c = copy.deepcopy(case)
                tt = c["einsums"][ei]["tables"][ti]
                del tt["cols"][ci]
                for row in tt["rows"]:
                    del row[ci]
                yield c
    for ci in range(len(case["joined"]["cols"])):
        c = copy.deepcopy(case)
        del c["joined"]["cols"][ci]
        for row in c["joined"]["rows"]:
            del row[ci]
        yield c
    # default source index
    for ei in range(ne):
        for ti, t in enumerate(case["einsums"][ei]["tables"]):
            if t.get("index") is not None:
                c = copy.deepcopy(case)
                c["einsums"][ei]["tables"][ti]["index"] = None
                yield c


def shrink(impl, drv, case, verdict, budget=250):
    def family(k):
        return k.replace("-with-empty-table", "")

    cur, cur_v = case, verdict
    n = 0
    progress = True
    while progress and n < budget:
        progress = False
        for cand in _variants(cur):
            n += 1
            if n > budget:
                break
            try:
                v = judge(impl, drv, cand)
            except Exception:  # noqa: BLE001 - a candidate the harness cannot run is not a smaller witness
                continue
            if v is not None and family(v[0]) == family(cur_v[0]):
                cur, cur_v = cand, v
                progress = True
                break
    return cur, cur_v


# ----------------------------------------------------------------------------------------------
# generation
# ----------------------------------------------------------------------------------------------

EINSUM_NAMES = ["Matmul0", "Matmul1", "QK", "AV", "E", "Z_proj", "softmax", "fc1", "Tot", "tensorial"]
JOIN_COLS = [
    "Total" + SEP + "energy", "Total" + SEP + "latency", "Total" + SEP + "edp",
    "reservation" + SEP + "GlobalBuffer" + SEP + "0" + SEP + "left",
    "reservation" + SEP + "GlobalBuffer" + SEP + "1" + SEP + "right",
    "reservation" + SEP + "MainMemory" + SEP + "-1" + SEP + "left",
    "tensor" + SEP + "T1", "tensor" + SEP + "T2", "binding" + SEP + "x",
    "fused_loop" + SEP + "{e}" + SEP + "n_iterations" + SEP + "2", "fused_loop" + SEP + "{e}" + SEP + "stride" + SEP + "1",
]
ASIDE_COLS = [
    "{e}" + SEP + "mapping", "{e}" + SEP + "energy" + SEP + "MainMemory" + SEP + "read",
    "{e}" + SEP + "energy" + SEP + "GlobalBuffer" + SEP + "T1" + SEP + "write",
    "{e}" + SEP + "action" + SEP + "MainMemory" + SEP + "T1" + SEP + "read", "{e}" + SEP + "action" + SEP + "MAC" + SEP + "compute",
    "{e}" + SEP + "latency" + SEP + "MAC", "{e}" + SEP + "latency" + SEP + "MainMemory",
    "{e}" + SEP + "stride0", "{e}" + SEP + "stride1", "{e}" + SEP + "n_iterations" + SEP + "0", "{e}" + SEP + "n_iterations" + SEP + "1",
    "{e}" + SEP + "Total" + SEP + "energy", "{e}" + SEP + "tensor" + SEP + "T1", "{e}" + SEP + "usage" + SEP + "memory" + SEP + "GLB" + SEP + "T1",
    "{e}" + SEP + "c0", "{e}" + SEP + "c1", "{e}" + SEP + "c2",
]


def gen_value(rng, dt, dup_pool, big=False):
    if dup_pool and rng.random() < 0.35:
        return rng.choice(dup_pool)
    if dt == "i8" and big and rng.random() < 0.6:
        v = rng.choice([2**53 + 1, -(2**53) - 1, 2**53 + 2, 2**53 + 3, 2**54 + 2, 2**54 + 6, 2**63 - 1, -(2**63), 2**62 + 12345,
                        rng.randint(2**53, 2**63 - 1), -rng.randint(2**53, 2**63 - 1)])
        t = "i:%d" % v
        dup_pool.append(t)
        return t
    if dt == "i8":
        r = rng.random()
        if r < 0.7:
            v = rng.randint(-50, 1000)
        elif r < 0.9:
            v = rng.randint(-(2**31), 2**31)
        else:
            v = rng.choice([2**53, -(2**53), 2**53 - 1, 2**40 + 1, 0])
        t = "i:%d" % v
    elif dt == "u1":
        t = "i:%d" % rng.randint(0, 255)
    elif dt == "f8":
        r = rng.random()
        if r < 0.5:
            v = rng.uniform(-10, 1e6)
        elif r < 0.8:
            v = rng.choice([0.1, 0.2, 0.30000000000000004, 1 / 3, 1e-300, 1e300, 5e-324, -0.0, 16777217.0, 4560.0, 1e15 + 0.5])
        elif r < 0.9:
            v = float(rng.randint(0, 10**6))
        elif r < 0.96:
            v = rng.choice([float("inf"), float("-inf")])
        else:
            v = float("nan")
        t = "f:" + (str(v) if (math.isinf(v) or math.isnan(v)) else float(v).hex())
    elif dt == "f4":
        import numpy as np

        v = float(np.float32(rng.choice([rng.uniform(-10, 1e5), 0.1, 1e30, 3.0, 0.0, 16777216.0])))
        t = "f:" + v.hex()
    else:
        t = "s:" + rng.choice(["a", "b", "9ba2ce30-2745", "", "x y", "0", "nan", "Ünï", "m%d" % rng.randint(0, 30)])
    dup_pool.append(t)
    if len(dup_pool) > 6:
        dup_pool.pop(0)
    return t


def gen_counts(rng, big):
    """Row counts of an Einsum's tables with the patterns that stress start-index bookkeeping."""
    pat = rng.choice(["mixed", "mixed", "mixed", "lead-empty", "lead-empty", "trail-empty", "trail-empty", "consecutive-empties",
                      "consecutive-empties", "single", "ones", "alternating", "alternating", "many", "many"] + (["all-empty"] if rng.random() < 0.3 else []))
    pool = [0, 0, 1, 1, 2, 3, 5] + ([8, 13] if big else [])
    if pat == "single":
        return [rng.choice([1, 1, 2, 5, 8] + ([0] if rng.random() < 0.2 else []))], pat
    n = rng.randint(2, 7 if big else 5)
    if pat == "all-empty":
        return [0] * n, pat
    if pat == "ones":
        return [1] * n, pat
    if pat == "alternating":
        o = rng.randint(0, 1)
        return [((i + o) % 2) * rng.choice([1, 2, 3]) for i in range(n)], pat
    if pat == "many":
        return [rng.choice(pool) for _ in range(rng.randint(6, 14))], pat
    cs = [rng.choice(pool) for _ in range(n)]
    if pat == "lead-empty":
        cs = [0] * rng.randint(1, 3) + cs
    elif pat == "trail-empty":
        cs = cs + [0] * rng.randint(1, 3)
    elif pat == "consecutive-empties":
        k = rng.randint(0, len(cs))
        cs = cs[:k] + [0] * rng.randint(2, 4) + cs[k:]
    return cs, pat


def gen_case(rng, big=False, big_rate=0.04):
    ne = rng.choice([1, 1, 2, 2, 3, 4])
    names = rng.sample(EINSUM_NAMES, ne)
    einsums = []
    feats = []
    for name in names:
        counts, pat = gen_counts(rng, big)
        feats.append("counts=" + pat)
        jpool = [c.replace("{e}", name) for c in JOIN_COLS]
        apool = [c.replace("{e}", name) for c in ASIDE_COLS]
        base_j = rng.sample(jpool, rng.randint(0, 4))
        base_a = rng.sample(apool, rng.randint(0, 6))
        dts = {c: rng.choice(DTYPES if not c.endswith("mapping") else ["str", "str", "i8"]) for c in jpool + apool}
        # columns that may hold int64 values beyond 2^53 (they keep one dtype across tables: pandas also converts a
        # column whose dtype differs between the concatenated frames, which the model does not describe)
        bigcols = {c for c in apool if dts[c] == "i8" and rng.random() < big_rate}
        same_cols = rng.random() < 0.35
        tables = []
        for cnt in counts:
            if same_cols:
                cols = base_j + base_a
            else:
                cols = [c for c in base_j if rng.random() < 0.8] + [c for c in base_a if rng.random() < 0.7]
                cols += [c for c in rng.sample(apool, rng.randint(0, 2)) if c not in cols]
                cols += [c for c in rng.sample(jpool, rng.randint(0, 1)) if c not in cols]
            if rng.random() < 0.04:
                cols = []
            cols = list(cols)
            rng.shuffle(cols)
            tcols = []
            for c in cols:
                dt = dts[c]
                if dt != "str" and c not in bigcols and rng.random() < 0.15:  # the same column with another numeric dtype in this table
                    dt = rng.choice(["i8", "u1", "f8", "f4"])
                tcols.append([c, dt])
            pools = [[] for _ in tcols]
            rows = [[gen_value(rng, dt, pools[ci] if rng.random() < 0.5 else [], big=(c in bigcols)) for ci, (c, dt) in enumerate(tcols)] for _ in range(cnt)]
            if rng.random() < 0.3 and cnt >= 2:  # exact duplicate rows
                rows[rng.randrange(cnt)] = list(rows[rng.randrange(cnt)])
            imode = rng.choice(["default", "default", "shuffled", "offset", "dups", "reversed"])
            if imode == "default":
                index = None
            elif imode == "shuffled":
                index = list(range(cnt))
                rng.shuffle(index)
            elif imode == "offset":
                o = rng.randint(1, 40)
                index = [o + i for i in range(cnt)]
            elif imode == "dups":
                index = [rng.randint(0, 2) for _ in range(cnt)]
            else:
                index = list(range(cnt))[::-1]
            tables.append({"cols": tcols, "rows": rows, "index": index})
        einsums.append({"name": name, "tables": tables})
    # selection
    totals = [sum(len(t["rows"]) for t in e["tables"]) for e in einsums]
    if min(totals) == 0:
        nsel = 0
    else:
        nsel = rng.choice(([0] if rng.random() < 0.25 else []) + [1, 1, 2, 3, 5, 8, 13, 21, 34] if not big else [1, 2, 5, 13, 30, 60])
    smode = rng.choice(["random", "random", "random", "boundaries", "boundaries", "one-table", "all-rows", "all-rows", "same-row"])
    feats.append("sel=" + (smode if nsel else "empty"))
    sel = []
    for ri in range(nsel):
        row = []
        for e in einsums:
            slots = [(ti, p) for ti, t in enumerate(e["tables"]) for p in range(len(t["rows"]))]
            if smode == "boundaries":
                b = [s for s in slots if s[1] == 0 or s[1] == len(e["tables"][s[0]]["rows"]) - 1]
                s = rng.choice(b)
            elif smode == "one-table":
                t0 = slots[(len(slots) * 7) // 11][0]
                s = rng.choice([s for s in slots if s[0] == t0])
            elif smode == "all-rows":
                s = slots[ri % len(slots)]
            elif smode == "same-row":
                s = slots[len(slots) // 2]
            else:
                s = rng.choice(slots)
            row.append([s[0], s[1]])
        sel.append(row)
    order = rng.choice(["asis", "asc", "desc"])
    if order != "asis":
        sel.sort(reverse=(order == "desc"))
    jcols = [[c, rng.choice(["f8", "i8", "f4"])] for c in rng.sample(["Total" + SEP + "energy", "Total" + SEP + "latency", "Total" + SEP + "edp",
                                                                     "reservation" + SEP + "GlobalBuffer" + SEP + "0" + SEP + "left"], rng.randint(0, 3))]
    jrows = [[gen_value(rng, dt, []) for _, dt in jcols] for _ in range(nsel)]
    case = {"einsums": einsums, "joined": {"cols": jcols, "rows": jrows}, "sel": sel}
    return case, feats


def case_branches(case):
    b = set()
    for ei, e in enumerate(case["einsums"]):
        cnt = [len(t["rows"]) for t in e["tables"]]
        if 0 in cnt:
            b.add("empty-table")
            if cnt[0] == 0:
                b.add("leading-empty")
            if cnt[-1] == 0:
                b.add("trailing-empty(dict keeps an empty last frame)")
            if any(cnt[i] == 0 and cnt[i + 1] == 0 for i in range(len(cnt) - 1)):
                b.add("consecutive-empties(3+ equal start indices)")
            if any(cnt[i] == 0 and cnt[i + 1] > 0 for i in range(len(cnt) - 1)):
                b.add("dict-overwrite(empty then non-empty)")
        used = {tuple(r[ei]) for r in case["sel"]}
        if len({u[0] for u in used}) > 1:
            b.add("walk-crosses-tables")
        if len(used) < len(case["sel"]):
            b.add("repeated-index")
        if len({tuple(sorted(c for c, _ in t["cols"])) for t in e["tables"]}) > 1:
            b.add("column-sets-differ")
        if any(t.get("index") is not None for t in e["tables"]):
            b.add("non-default-source-index")
    if len(case["einsums"]) > 1:
        b.add("multi-einsum")
    if not case["sel"]:
        b.add("empty-selection(raises)")
    return sorted(b)


def canon_case(case):
    return {
        "einsums": [[e["name"], [[len(t["rows"]), len(t["cols"])] for t in e["tables"]]] for e in case["einsums"]],
        "sel": case["sel"][:8],
        "h": zlib.crc32(json.dumps(case, sort_keys=True).encode()),
    }


# ----------------------------------------------------------------------------------------------
# classifier names
# ----------------------------------------------------------------------------------------------

HEADS = ["Total", "reservation", "fused_loop", "binding", "tensor", "n_iterations", "n_iterations2", "Matmul0", "E", "action",
         "energy", "usage", "total", "Tensor", "fused_loopx", "xTotal", "reservations", "mapping", "", "tensor ", "QK"]
PARTS = ["energy", "latency", "GlobalBuffer", "0", "1", "-1", "12", "left", "right", "T1", "mapping", "n_iterations", "Total", "x", ""]


def gen_colname(rng):
    h = rng.choice(HEADS)
    n = rng.choice([0, 1, 1, 2, 3, 3, 4])
    rest = [rng.choice(PARTS) for _ in range(n)]
    if h == "reservation" and n == 3 and rng.random() < 0.8:
        rest[1] = str(rng.randint(-1, 9))
    return [h] + rest


def _reservation_nloops_ok(parts):
    # int(x[1]) in col2reservation: the generator only produces plain decimal literals or clear non-numbers
    if parts[0] == "reservation" and len(parts) == 4:
        s = parts[2]
        return s.lstrip("-").isdigit() and s.count("-") <= 1 and (not s.startswith("-") or len(s) > 1)
    return True


# ----------------------------------------------------------------------------------------------


_REPORTED: set = set()


_N_KNOWN = [0]


def handle_failure(ctx, impl, drv, case, v, stream):
    if v[0] == KNOWN_KEY:
        _N_KNOWN[0] += 1
        if _N_KNOWN[0] > 2:  # the key is exact by construction (impl == model != spec); no need to minimise every hit
            ctx.fail(v[0], v[1], {"stream": stream, **v[2]})
            return
    small, sv = shrink(impl, drv, case, v, budget=80 if v[0] == KNOWN_KEY else (400 if ctx.thorough else 200))
    key, what, detail = sv
    sig = (key, json.dumps(small, sort_keys=True))
    if sig in _REPORTED:
        return
    _REPORTED.add(sig)
    ctx.fail(key, what, {"stream": stream, **detail, "original_case": case if small is not case else None})


def run(ctx: Ctx):
    ctx.lean_gate()
    ctx.anchors(ANCHORS)
    ctx.cov["rule"] = (
        "stream A: 1..4 Einsums, each a list of 1..14 pandas pmapping tables wrapped in real PmappingDataframe/PmappingGroup objects, "
        "row counts from {0,1,2,3,5,8,13} in patterns (leading / trailing / consecutive empty tables, all empty, all single-row), column sets "
        "drawn per table from joining (Total/reservation/tensor/binding/fused_loop) and per-Einsum (mapping/energy/action/latency/stride/…) "
        "columns with dtypes int64/uint8/float64/float32/str that may differ between tables, arbitrary source index labels, duplicate rows; "
        "synthetic join result of 0..60 rows selecting one row per Einsum (random / table boundaries / one table / every row / one row "
        "repeated; ascending, descending or unsorted). non-trivial = at least one Einsum with >= 2 tables and a non-empty selection. "
        "stream D (hypothesis-directed at NoLoss): the same with int64 cells beyond 2^53 in kept-aside columns. "
        "stream B: column names for col_used_in_joining (informational). stream C (thorough): real pmapping tables of tiny matmul specs, synthetic and real join."
    )
    ctx.cov["trusted_base"] += [
        "pandas (DataFrame indexing, concat, merge) behaves as modelled: rows as {column: value}, NaN = absent cell",
        "harness/props/c15.py builds the tables, reads the index cells back from the real compressed tables and canonicalises cells",
        "stand-in Compatibility object (tensors=(), symbols()=fused_loop columns) for tables with fused_loop columns",
    ]
    ctx.assumptions += [
        "cell values are compared as exact numbers / text; dtype changes that keep the value (uint8 -> float64) are not observed",
        "pandas also converts a column whose dtype differs between the selected tables (int64 in one, float64 in another); the model only describes the conversion of NaN-filled columns, so generated int64 values beyond 2^53 live in columns that are int64 in every table",
        "PmappingDataframe.__init__'s _numeric_cast (object columns holding only numbers -> float32/int) is not modelled; generated object columns hold text",
        "kept-aside column names are not shadowed (real tables: all start with '<einsum><SEP>'); shadowed names would get pandas _x/_y suffixes (hypothesis of decompress_lookup)",
        "an empty join result makes decompress_pmappings raise ValueError (theorem decompress_empty_selection_raises); join_pmappings raises earlier, so this is recorded, not flagged",
        "the join itself (what happens to joining columns between compress and decompress) is C13/C14, not modelled here",
    ]
    impl = Impl()
    drv = ctx.driver()
    rng = ctx.rng

    # ---------------- replay / corpus first
    corpus = []
    if ctx.replay:
        rpath = Path(ctx.replay)
        if not rpath.is_absolute():
            rpath = VERIF / rpath
        body = json.loads(rpath.read_text())
        rp = body.get("replay", body)
        if "case" in rp:
            corpus.append(("replay", rp["case"]))
    cdir = CORPUS_DIR / "C15"
    if cdir.exists():
        for f in sorted(cdir.glob("*.json")):
            body = json.loads(f.read_text())
            corpus.append((f.name, body.get("replay", body)["case"]))
    for name, case in corpus:
        ctx.dist("corpus")
        v = judge(impl, drv, case)
        ctx.case(canon_case(case), nontrivial=True, branches=case_branches(case))
        if v is not None:
            handle_failure(ctx, impl, drv, case, v, "corpus:" + name)
    if ctx.replay:
        return

    # ---------------- stream A: generated tables and selections
    # ---------------- stream D: hypothesis-directed at NoLoss (int64 cells beyond 2^53 in columns other tables lack)
    n_cases = 4000 if ctx.thorough else 600
    n_dir = 500 if ctx.thorough else 60
    for k in range(n_cases + n_dir):
        directed = k >= n_cases
        case, feats = gen_case(rng, big=(ctx.thorough and k % 5 == 0), big_rate=(1.0 if directed else 0.04))
        for f in feats:
            ctx.dist(f)
        ctx.dist("n_einsums=%d" % len(case["einsums"]))
        ctx.dist("stream=" + ("D-directed-int64-beyond-2^53" if directed else "A"))
        v = judge(impl, drv, case)
        nontrivial = bool(case["sel"]) and any(len(e["tables"]) >= 2 for e in case["einsums"])
        br = case_branches(case)
        if v is not None and v[0] == KNOWN_KEY:
            br = br + ["nan-fill-conversion-changes-a-cell"]
        ctx.case(canon_case(case), nontrivial=nontrivial, branches=br)
        if v is not None:
            handle_failure(ctx, impl, drv, case, v, "D" if directed else "A")
            if ctx.n_violations() >= 3:
                break

    # ---------------- stream B: the column classifier
    n_names = 4000 if ctx.thorough else 800
    mism = []
    protected_bad = []
    reqs, names = [], []
    for _ in range(n_names):
        parts = gen_colname(rng)
        if not _reservation_nloops_ok(parts):
            continue
        names.append(parts)
        reqs.append({"op": "classify", "parts": parts})
    answers = drv.ask_many("C15", reqs)
    reserved = {"Total", "reservation", "fused_loop", "binding", "tensor"}
    for parts, a in zip(names, answers):
        col = SEP.join(parts)
        real = impl.joining(col)
        ctx.dist("classify=%s" % a)
        ctx.case({"col": col}, nontrivial=len(parts) > 1, branches=["classify:" + str(a)])
        if real != a:
            mism.append([col, real, a])
            if parts[0] not in reserved and not parts[0].startswith("n_iterations") and real is not False:
                protected_bad.append(col)
    ctx.cov["classifier_mismatches"] = mism[:20]
    ctx.cov["classifier_mismatch_count"] = len(mism)
    # Not an alarm: decompress_compress holds for every classifier, and columns the classifier keeps in the compressed
    # tables are the join's business (C13/C14).  Mismatches are recorded in the evidence only.
    ctx.cov["classifier_protected_mismatches"] = protected_bad[:20]

    # ---------------- stream C: real pmapping tables (thorough)
    if ctx.thorough:
        real_tables(ctx, impl, drv)


def real_tables(ctx, impl, drv):
    import accelforge as af
    import numpy as np
    from accelforge import Spec
    from accelforge.frontend.mapper.metrics import Metrics
    from accelforge.mapper.FFM._join_pmappings import join_pmappings as J
    from accelforge.mapper.FFM.main import make_pmappings

    rng = ctx.rng
    settings = [
        ({"N_EINSUMS": 2, "M": 4, "KN": 6}, Metrics.LATENCY | Metrics.ENERGY),
        ({"N_EINSUMS": 3, "M": 4, "KN": 6, "MainMemoryEnergy": 10, "GlobalBufferLatency": 1}, Metrics.LATENCY | Metrics.ENERGY),
        ({"N_EINSUMS": 1, "M": 8, "KN": 4}, Metrics.ENERGY),
    ]
    for jinja, metrics in settings:
        spec = Spec.from_yaml(af.examples.arches.simple, af.examples.workloads.basic.matmuls, jinja_parse_data=jinja)
        spec.mapper.metrics = metrics
        pm = make_pmappings(spec, print_progress=False)
        e2p = pm.einsum2pmappings
        names = list(e2p.keys())
        orig = {e: [frame_rows(g.mappings.data) for g in gs] for e, gs in e2p.items()}
        cols = {e: [list(g.mappings.data.columns) for g in gs] for e, gs in e2p.items()}
        for e in names:
            for cs in cols[e]:
                for c in cs:
                    if impl.joining(c) is False and not c.startswith(e + SEP):
                        raise HarnessError(f"real kept-aside column {c!r} of {e} is not prefixed with the Einsum name (assumption of the check)")
        comp, dd = impl.cp.compress_einsum2pmappings(e2p, False)
        all_cols = []
        for e in names:
            for cs in cols[e]:
                for c in cs:
                    if c not in all_cols:
                        all_cols.append(c)
        joining = [c for c in all_cols if impl.joining(c) is True]
        starts, idx2k, lean_e2p = {}, {}, []
        for e in names:
            icol = f"{e}{SEP}compressed_index"
            s, st, m = 0, [], {}
            tabs = []
            for ti, g in enumerate(comp[e]):
                d = g.mappings.data
                keep = frame_rows(d, skip=(icol,))
                want = [{c: v for c, v in r.items() if c in joining} for r in orig[e][ti]]
                if keep != want:
                    ctx.fail("compress-joining-cells-changed-real-tables", "joining columns of a compressed real table differ from the original",
                             {"jinja": jinja, "einsum": e, "table": ti, "got": keep[:5], "want": want[:5]})
                    return
                for p, kreal in enumerate(int(x) for x in d[icol].tolist()):
                    if kreal in m:
                        ctx.fail("compress-index-not-injective-real-tables", "two rows of one Einsum share a compressed index", {"jinja": jinja, "einsum": e, "index": kreal})
                        return
                    m[kreal] = s + p
                st.append(s)
                s += len(d)
                tabs.append([[[c, r[c]] for c in cols[e][ti] if c in r] for r in orig[e][ti]])
            starts[e], idx2k[e] = st, m
            lean_e2p.append([e, tabs])

        def compare(jdf, label):
            jrows_c = frame_rows(jdf, skip=tuple(f"{e}{SEP}compressed_index" for e in names))
            rows = []
            for ri in range(len(jdf)):
                idx = [[e, idx2k[e][int(jdf[f"{e}{SEP}compressed_index"].iloc[ri])]] for e in names]
                rows.append({"cells": [[c, v] for c, v in jrows_c[ri].items()], "idx": idx})
            m = drv.ask("C15", {"op": "roundtrip", "joining": joining, "e2p": lean_e2p, "rows": rows})
            if "ok" not in m["model"] or m["model"]["ok"] != m["spec"]:
                raise HarnessError("Lean model disagrees with its proved spec on real tables")
            want = [dict((c, v) for c, v in r) for r in m["spec"]]
            try:
                out = impl.cp.decompress_pmappings(impl.pdf(jdf.copy()), dd)
            except Exception as ex:  # noqa: BLE001
                ctx.fail("impl-exception-decompress-real-tables-" + type(ex).__name__, f"decompress_pmappings raised on real tables: {ex}",
                         {"jinja": jinja, "label": label, "idx": [r["idx"] for r in rows][:20]})
                return False
            got = frame_rows(out.data)
            ctx.case({"real": jinja, "label": label, "rows": len(rows), "idx": [r["idx"] for r in rows][:6]}, nontrivial=True,
                     branches=["real-tables:" + label])
            ctx.dist("real-tables:" + label)
            if got != want:
                bad = next(i for i in range(max(len(got), len(want))) if i >= len(got) or i >= len(want) or got[i] != want[i])
                ctx.fail("decompress-mismatch-real-tables", "decompressed real join result does not carry the cells of its source pmapping rows",
                         {"jinja": jinja, "label": label, "row": bad, "got": got[bad] if bad < len(got) else None, "want": want[bad] if bad < len(want) else None,
                          "idx": rows[bad]["idx"] if bad < len(rows) else None})
                return False
            return True

        # (i) synthetic selections over the real compressed tables
        import pandas as pd

        for rep in range(12):
            nsel = rng.choice([1, 2, 5, 20, 60])
            data = {"Total" + SEP + "energy": np.array([rng.uniform(0, 1e6) for _ in range(nsel)])}
            for e in names:
                keys = sorted(idx2k[e])
                pick = [rng.choice(keys) for _ in range(nsel)] if rep % 3 else [keys[(i * 7) % len(keys)] for i in range(nsel)]
                data[f"{e}{SEP}compressed_index"] = np.array(pick, dtype=np.int64)
            if not compare(pd.DataFrame(data), "synthetic-join"):
                return
        # (ii) the real join
        joined = J.multi_strategy_join(pm.spec, comp, False, metrics, False, None)
        if not compare(joined.data.copy(), "real-join"):
            return
