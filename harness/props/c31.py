"""C31 — Toll components pass data through without storing it.

Proof:  AFV/Props/C31.lean  toll_no_occupancy_no_writes, toll_reads_eq_crossings, toll_zero_other_direction (model);
                            exec_down_crossings, exec_up_crossings, exec_toll_head, exec_toll_never_written (execution);
                            toll_rows (whole model on every WF mapping); toll_not_outermost / toll_outermost_rejected.
Model:  AFV/Model/Nest.lean (analyze_toll inside `analytic`), AFV/Model/NestValid.lean (`tollOutermost`)
Tie:    (A) single-Einsum mappings with a Toll between two memories, per-tensor directions up / down / up_and_down,
            through evaluate_mapping: the Toll's write count must be 0, it must have no usage column, its read count must
            equal the number of values crossing it in the configured direction(s) / values per action as counted by the
            reference execution (Lean `exec`), and 0 for tensors that only travel against its direction;
        (B) two-Einsum fused mappings in which the shared (fusable) tensor's first holder is a Memory or a Toll:
            evaluate_mapping must raise run_model's "Toll … outermost level holding fusable tensor" ValueError exactly
            when the model's `tollOutermost` says so.
Not covered here: "every mapper result on architectures with Tolls" (mapper-level; belongs to the mapper checks).
"""
from __future__ import annotations

import copy
import json

from harness import nestlib as N
from harness.core import Ctx, CORPUS_DIR

ANCHORS = [
    "accelforge.model._looptree.reuse.symbolic._symbolic:analyze_toll",
    "accelforge.model._looptree.reuse.symbolic._symbolic:analyze_storage",
    "accelforge.model._looptree.latency.memory:component_latency",
    "accelforge.model.run_model:run_model",
    "accelforge.mapper.FFM._make_pmappings.make_pmapping_templates.make_storage_order:insert_tolls",
]

SEP = N.SEP


def toll_levels(case):
    return [i for i, lv in enumerate(case["arch"]["levels"]) if lv["toll"]]


def check_toll_case(ctx, drv, case):
    """Returns (key, what, detail) on failure, else None."""
    rep = drv.ask("C31", N.driver_req(case))
    if "err" in rep:
        raise RuntimeError(f"driver rejected a generated case: {rep}")
    if not rep["wf"]:
        return "skip"
    run = N.run_impl(case)
    if run.error is not None:
        if run.error[0] == "InvalidMappingError" and rep["oversubscribed"]:
            return None
        return ("impl-exception-" + run.error[0], f"evaluate_mapping raised {run.error[0]} on a well-formed Toll mapping: {run.error[1][:200]}", {"error": run.error})
    ex = rep["exec"]
    tol = 0.0 if N.case_is_exact(case) else 1e-9
    df = run.df
    dirs = {}
    for l in toll_levels(case):
        dirs[l] = dict((t, d) for t, d in case["arch"]["levels"][l]["dir"])
    ex_rows = {(l, t): (N.q2frac(r), N.q2frac(w)) for l, t, r, w in ex["actions"]}
    for (l, t), (r, w) in ex_rows.items():
        if l not in dirs:
            continue
        role = "output" if case["workload"]["tensors"][t]["out"] else "input"
        d = dirs[l].get(t, "up_and_down")
        colw = f"action{SEP}{N.lname(l)}{SEP}{N.tname(t)}{SEP}write"
        colr = f"action{SEP}{N.lname(l)}{SEP}{N.tname(t)}{SEP}read"
        if colw in df and N.py2frac(df[colw]) != 0:
            return ("toll-write-nonzero", f"a Toll reports {df[colw]} write actions", {"column": colw, "value": str(df[colw])})
        if colr not in df:
            return ("toll-read-missing", f"no read count for Toll buffet {colr}", {"column": colr})
        got = N.py2frac(df[colr])
        if not N.close(got, r, tol):
            return (f"toll-read-count-{d}-{role}",
                    f"Toll read actions {got} differ from the crossings counted by the execution {r} (direction {d}, {role} tensor)",
                    {"column": colr, "impl": str(got), "exec": str(r), "direction": d})
    for col in list(df) + list(run.per_memory_usage or {}):
        parts = col.split(SEP)
        if parts[0] in ("usage", "reservation") and len(parts) > 2 and parts[1 if parts[0] == "reservation" else 2] in [N.lname(l) for l in dirs]:
            v = df.get(col, (run.per_memory_usage or {}).get(col))
            return ("toll-occupancy", f"a Toll contributes memory usage: {col} = {v}", {"column": col, "value": str(v)})
    # energy of toll writes must be absent / zero
    for l in dirs:
        for col in df:
            if col.startswith(f"energy{SEP}{N.lname(l)}{SEP}") and col.endswith(f"{SEP}write") and N.py2frac(df[col]) != 0:
                return ("toll-write-energy", f"a Toll is charged write energy: {col} = {df[col]}", {"column": col})
    return None


def gen_toll_case(rng, mode):
    exact = True
    c = N.gen_case(rng, exact=exact, toll_prob=0.0, n_levels=rng.choice([3, 3, 4]), style=rng.choice(["deep", "free", "hier"]))
    ntens = len(c["workload"]["tensors"])
    arch = c["arch"]
    k = rng.randrange(1, len(arch["levels"]) - 1) if len(arch["levels"]) > 2 else 1
    lv = N.gen_level(rng, ntens, True, exact)
    if mode in ("up", "down", "up_and_down"):
        lv["dir"] = [[t, mode] for t in range(ntens)]
    arch["levels"][k] = lv
    c["mapping"] = N.gen_mapping(rng, c["workload"], arch, style=rng.choice(["deep", "deep", "free"]))
    return c


# ------------------------------------------------------------------------------------------------ stream B: two Einsums

ARCH2 = """
arch:
  nodes:
  - !Memory
    name: L0
    size: 1048576
    leak_power: 0
    area: 0
    tensors: {keep: All, may_keep: All}
    actions:
    - {name: read, energy: 1, throughput: 1}
    - {name: write, energy: 1, throughput: 1}
  - !Toll
    name: L1
    direction: %(direction)s
    leak_power: 0
    area: 0
    tensors: {keep: All, may_keep: All}
    actions:
    - {name: read, energy: 3, throughput: 1}
  - !Memory
    name: L2
    size: 1048576
    leak_power: 0
    area: 0
    tensors: {keep: All, may_keep: All}
    actions:
    - {name: read, energy: 1, throughput: 1}
    - {name: write, energy: 1, throughput: 1}
  - !Compute
    name: MAC
    leak_power: 0
    area: 0
    actions:
    - {name: compute, energy: 1, throughput: 1}
workload:
  iteration_space_shape:
    m: 0 <= m < %(M)d
    n0: 0 <= n0 < %(K)d
    n1: 0 <= n1 < %(K)d
    n2: 0 <= n2 < %(K)d
  bits_per_value: {All: 8}
  einsums:
  - name: E0
    tensor_accesses:
    - {name: T0, projection: [m, n0]}
    - {name: W0, projection: [n0, n1]}
    - {name: T1, projection: [m, n1], output: True}
  - name: E1
    tensor_accesses:
    - {name: T1, projection: [m, n1]}
    - {name: W1, projection: [n1, n2]}
    - {name: T2, projection: [m, n2], output: True}
"""

TENS2 = {"T0": 0, "W0": 1, "T1": 2, "W1": 3, "T2": 4}
EINSUM_TENSORS = {"E0": ["T0", "W0", "T1"], "E1": ["T1", "W1", "T2"]}
LEVEL_KIND = {"L0": "Storage", "L1": "Toll", "L2": "Storage"}


def gen_two_einsum(rng):
    """Shared prefix + one branch per Einsum; the intermediate T1 gets its first holder in L0 / L1 (Toll) / L2, in the
    shared prefix or inside the branches."""
    first = rng.choice(["L0", "L1", "L1", "L2"])
    where = rng.choice(["shared", "branches"])
    prefix = [("L0", ["T0", "T2", "W0", "W1"])]
    chain_t1 = [first] + [l for l in ["L0", "L1", "L2"] if l != first and rng.random() < 0.6 and
                          not (l == "L0")]  # never put the backing Memory below another holder of T1
    if where == "shared":
        for l in chain_t1[:1]:
            prefix.append((l, ["T1"]))
        rest_t1 = chain_t1[1:]
    else:
        rest_t1 = chain_t1
    # other tensors pass the toll / L2 sometimes
    branches = {}
    for e, (a, w, o) in (("E0", ("T0", "W0", "T1")), ("E1", ("T1", "W1", "T2"))):
        nodes = []
        for l in rest_t1:
            nodes.append((l, ["T1"]))
        for t in (a, w, o):
            if t == "T1":
                continue
            for l in ("L1", "L2"):
                if rng.random() < 0.5:
                    nodes.append((l, [t]))
        rng.shuffle(nodes)
        # keep per-tensor order L0 < L1 < L2 not required; but a tensor may be held only once per level
        seen = set()
        uniq = []
        for l, ts in nodes:
            if (l, ts[0]) in seen:
                continue
            seen.add((l, ts[0]))
            uniq.append((l, ts))
        branches[e] = uniq
    return {"prefix": prefix, "branches": branches, "direction": rng.choice(["up", "down", "up_and_down"]),
            "M": rng.choice([1, 2]), "K": rng.choice([1, 2])}


def two_einsum_yaml(c):
    out = [ARCH2 % {"direction": c["direction"], "M": c["M"], "K": c["K"]}, "mapping:\n  nodes:\n"]
    for l, ts in c["prefix"]:
        out.append(f"  - !{LEVEL_KIND[l]} {{tensors: [{', '.join(ts)}], component: {l}}}\n")
    out.append("  - !Sequential\n    nodes:\n")
    for e, rvs in (("E0", ["m", "n0", "n1"]), ("E1", ["m", "n1", "n2"])):
        out.append("    - !Nested\n      nodes:\n")
        for l, ts in c["branches"][e]:
            out.append(f"      - !{LEVEL_KIND[l]} {{tensors: [{', '.join(ts)}], component: {l}}}\n")
        for rv in rvs:
            out.append(f"      - !Temporal {{rank_variable: {rv}, tile_shape: 1}}\n")
        out.append(f"      - !Compute {{einsum: {e}, component: MAC}}\n")
    return "".join(out)


def two_einsum_model_nodes(c, e):
    """The per-Einsum node list run_model sees (tensors of other Einsums removed), in driver format."""
    keep = EINSUM_TENSORS[e]
    nodes = []
    for l, ts in c["prefix"] + c["branches"][e]:
        ts2 = [TENS2[t] for t in ts if t in keep]
        if ts2:
            nodes.append(["T" if LEVEL_KIND[l] == "Toll" else "S", int(l[1:]), ts2, True])
    nodes += [["L", 0, 1], ["L", 1, 1], ["L", 2, 1], ["C"]]
    return nodes


def run_two_einsum(c, path="case2.yaml"):
    import logging
    import warnings

    mods = N.impl_modules()
    with open(path, "w") as f:
        f.write(two_einsum_yaml(c))
    logging.disable(logging.CRITICAL)
    try:
        with warnings.catch_warnings():
            warnings.simplefilter("ignore")
            spec = mods["spec"].Spec.from_yaml(path)
            mods["main"].evaluate_mapping(spec)
        return None
    except Exception as e:
        return (type(e).__name__, str(e)[:300])
    finally:
        logging.disable(logging.NOTSET)


# ------------------------------------------------------------------------------------------------ run

def run(ctx: Ctx):
    ctx.lean_gate()
    ctx.anchors(ANCHORS)
    ctx.cov["rule"] = (
        "stream A: single-Einsum mappings (12 Einsum shapes) on 3-4 level hierarchies whose middle level is a Toll, "
        "direction up / down / up_and_down for all tensors or mixed per tensor, Toll nodes at any depth, above or below "
        "loops, bits/values per action on the Toll; stream B: two fused matmuls on Memory-Toll-Memory with the first holder "
        "of the intermediate tensor in each of the three levels, in the shared prefix or inside the branches. "
        "non-trivial = the Toll holds at least one tensor and some loop has more than one iteration"
    )
    ctx.cov["trusted_base"] += ["harness/nestlib.py + harness/props/c31.py: YAML rendering of the cases, per-Einsum view of the two-Einsum mapping"]
    ctx.assumptions += [
        "fragment of C05 (single Einsum, temporal loops, perfect factorisation) for the counting part",
        "mapper results on Toll architectures (insert_tolls) are not examined here",
    ]
    drv = ctx.driver()
    rng = ctx.rng
    reported = {}

    def fail(key, what, detail, case, yaml):
        reported[key] = reported.get(key, 0) + 1
        ctx.cov["failing_cases_by_key"] = dict(reported)
        if reported[key] > 1 or len(reported) > 6:
            return
        ctx.fail(key, what, {"case": case, "yaml": yaml, "detail": detail})

    def handle_a(case, stream):
        res = check_toll_case(ctx, drv, case)
        if res == "skip":
            ctx.dist("not-wf-skipped")
            return
        feats = N.case_features(case)
        ctx.case({"bounds": case["workload"]["bounds"], "mapping": case["mapping"],
                  "dirs": [lv["dir"] for lv in case["arch"]["levels"] if lv["toll"]]},
                 nontrivial="toll" in feats and any(n[0] == "L" and n[2] != case["workload"]["bounds"][n[1]] for n in case["mapping"]),
                 branches=[f for f in feats if f.startswith("toll")] + ["stream-A"])
        ctx.dist(stream)
        if res is not None:
            key, what, detail = res
            fail(key, what, detail, case, N.case_to_yaml(case))

    cdir = CORPUS_DIR / "C31"
    if cdir.exists():
        for f in sorted(cdir.glob("*.json")):
            body = json.loads(f.read_text())
            if "case" in body:
                handle_a(body["case"], "corpus")
    if ctx.replay:
        body = json.loads(open(ctx.replay).read())
        if "mapping" in body["replay"]["case"]:
            handle_a(body["replay"]["case"], "replay")
            return

    n_a = 2500 if ctx.thorough else 260
    for i in range(n_a):
        mode = ["up", "down", "up_and_down", "mixed", "mixed"][i % 5]
        handle_a(gen_toll_case(rng, mode), "toll-" + mode)

    n_b = 400 if ctx.thorough else 50
    for _ in range(n_b):
        c = gen_two_einsum(rng)
        want_err = False
        for e in ("E0", "E1"):
            rep = drv.ask("C31", {"op": "outermost", "fusable": [TENS2["T1"]], "mapping": two_einsum_model_nodes(c, e)})
            if "err" in rep:
                raise RuntimeError(f"driver rejected: {rep}")
            want_err = want_err or rep["error"]
        got = run_two_einsum(c)
        got_err = got is not None and got[0] == "ValueError" and "outermost" in got[1]
        ctx.case({"two_einsum": c}, branches=["stream-B", "outermost-error" if want_err else "outermost-ok"])
        ctx.dist("two-einsum-" + ("error" if want_err else "ok"))
        if got is not None and not got_err:
            ctx.dist("two-einsum-other-exception:" + got[0])
        if want_err and not got_err:
            fail("toll-outermost-accepted", "a Toll is the outermost holder of a fusable tensor but evaluate_mapping did not raise the Toll-outermost ValueError"
                 + (f" (raised {got[0]} instead)" if got else ""), {"got": got}, c, two_einsum_yaml(c))
        if got_err and not want_err:
            fail("toll-outermost-spurious", "evaluate_mapping raised the Toll-outermost ValueError although a Memory holds the tensor above every Toll",
                 {"got": got}, c, two_einsum_yaml(c))
