"""C03 — every returned mapping is valid for the architecture and constraints.

Proof:  AFV/Props/C03.lean — theorems giving the meaning of each check of the decidable predicate AFV.Valid.valid
        (chain_product: a passing tile chain iterates the rank variable fully with perfectly factorising tiles;
        computes_once; keep_sound; fanout_sound; fused_sound; valid_checks).
Model:  AFV/Model/Valid.lean (hand-written validity predicate over the exported mapping tree and what the spec demands).
Tie:    every mapping the real mapper returns for the seeded spec family (incl. spatial fanouts with loop_bounds, keep /
        may_keep expressions, finite memories, max_fused_loops ∈ {0,1,2,inf}) is exported and judged by the Lean predicate;
        independently the public evaluate_mapping must accept it (no InvalidMappingError) and report usage ≤ 1 for every memory.
"""
from __future__ import annotations

import copy

from harness.core import Ctx
from harness import mapperlib as ML

ANCHORS = [
    "accelforge.mapper.FFM._join_pmappings.pmapping_dataframe:PmappingDataframe.limit_capacity",
    "accelforge.mapper.FFM._make_pmappings.make_pmappings_from_templates.make_tile_shapes:check_loops",
    "accelforge.frontend.mapping.mapping:Mapping._from_pmappings",
    "accelforge.model.run_model:run_model",
]


def spec_facts(params, knobs):
    """What the spec demands, evaluated by the repo's own front end (per Einsum)."""
    import accelforge.frontend.arch as A
    from accelforge.frontend._workload_isl._isl import get_rank_variable_bounds

    spec = ML.build_spec(params)
    einsums, keep, fanouts, lbs = [], [], [], []
    tensor_count = {}
    for e in spec.workload.einsum_names:
        s = copy.deepcopy(spec)._spec_eval_expressions(einsum_name=e)
        ein = s.workload.einsums[e]
        bounds = get_rank_variable_bounds(s.workload, e)
        einsums.append({"name": str(e), "ranks": [[str(k), int(v)] for k, v in bounds.items()], "tensors": sorted(map(str, ein.tensor_names))})
        for t in ein.tensor_names:
            tensor_count[str(t)] = tensor_count.get(str(t), 0) + 1
        for node in s.arch.get_nodes_of_type(A.Memory):
            k = node.tensors.keep
            if isinstance(k, str):
                keep.append({"einsum": str(e), "comp": str(node.name), "expr": k})
            else:
                keep.append({"einsum": str(e), "comp": str(node.name), "tensors": sorted(map(str, k))})
        if not fanouts:
            for node in s.arch.get_nodes_of_type(A.Spatialable):
                for sp in node.spatial:
                    fanouts.append({"comp": str(node.name), "dim": str(sp.name), "fanout": int(sp.fanout)})
        for node in s.arch.get_nodes_of_type(A.Spatialable):
            for sp in node.spatial:
                for c in sp.loop_bounds:
                    lbs.append({"einsum": str(e), "comp": str(node.name), "dim": str(sp.name), "rvs": sorted(map(str, c.expression)),
                                "op": str(c.operator), "value": int(c.value)})
    shared = sorted(t for t, n in tensor_count.items() if n > 1)
    return {"einsums": einsums, "keep": keep, "fanouts": fanouts, "loop_bounds": lbs, "shared": shared}


def to_nodes(path):
    out = []
    for n in path:
        if "storage" in n:
            out.append({"k": "storage", "comp": n["storage"], "tensors": n["tensors"]})
        elif "toll" in n:
            out.append({"k": "toll", "comp": n["toll"], "tensors": n["tensors"]})
        elif "loop" in n:
            out.append({"k": "loop", "rv": n["loop"], "tile": n["tile"]})
        elif "spatial" in n:
            out.append({"k": "spatial", "rv": n["spatial"], "tile": n["tile"], "comp": n["component"], "dim": n["name"]})
        elif "compute" in n:
            out.append({"k": "compute", "comp": n["compute"], "einsum": n["einsum"]})
        else:
            raise ValueError(n)
    return out


def work(job):
    params, mets, knobs = job
    r = ML.run_mapper(params, mets, knobs=knobs, eval_in_detail=False)
    out = {"error": r["error"], "rows": []}
    if r["error"] or not r["rows"]:
        return out
    out["facts"] = spec_facts(params, knobs)
    for row in r["rows"][:12]:
        rec = {"mapping": row.get("mapping"), "mapping_error": row.get("mapping_error")}
        if row.get("mapping") is not None:
            ev = ML.evaluate(params, row["mapping"])
            rec["ev"] = {k: v for k, v in ev.items() if not k.startswith("_")}
        out["rows"].append(rec)
    return out


def run(ctx: Ctx):
    ctx.lean_gate()
    ctx.anchors(ANCHORS)
    ctx.cov["rule"] = ("seeded small specs with spatial fanout + loop_bounds, keep/may_keep expressions, finite memories, max_fused_loops ∈ "
                       "{0,1,2,inf}; every returned mapping (≤ 12 per run) is judged by the Lean predicate and by evaluate_mapping. non-trivial = "
                       "mapping of a spec with a fanout, a finite memory or 2 Einsums")
    ctx.assumptions += [
        "memory capacity is judged through the model's usage columns (evaluate_mapping) — the occupancy model itself is C06's subject",
        "fused loops are counted as the loops above the outermost holder of a tensor shared between Einsums (a lower bound of the code's own count)",
        "keep expressions other than evaluated sets and '~<Memory>' are not interpreted (recorded in evidence when met)",
    ]
    n = 40 if ctx.thorough else 10
    jobs = []
    for i in range(n):
        p = ML.gen_params(ctx.rng, allow_fanout=True, finite_glb=True if i % 2 else None,
                          n_einsums=2 if i % 3 == 0 else None, kind="matmuls" if i % 3 == 0 else None)
        knobs = {}
        if p["fanout"]:
            rvs = ["m", "n0", "n1"] if p["workload"]["kind"] == "matmuls" else ["a", "b", "c"]
            if ctx.rng.random() < 0.7:
                rv = ctx.rng.choice(rvs[:1] if p["workload"]["kind"] == "matmuls" else rvs)
                p["lb_expr"] = ctx.rng.choice([f"~{rv}", rv, "All"])
                p["lb_op"], p["lb_val"] = ctx.rng.choice([("==", 1), ("<=", 2), ("==", 2), ("product<=", 2), (">=", 1), ("<", 3)])
        if i % 4 == 1:
            # directed stream: strict / inclusive product constraints over several rank variables where a product equal to the
            # limit is attainable and attractive (latency objective, fanout at the MAC array)
            p["fanout"], p["fanout_at"] = 4, "mac"
            p["lb_expr"] = "m | n0 | n1" if p["workload"]["kind"] == "matmuls" and p["workload"].get("N_EINSUMS", 1) == 1 else (
                "m | n1" if p["workload"]["kind"] == "matmuls" else "a | b | c")
            directed_ops = [("product<", 4), ("product<", 2), ("product>", 1), ("product<=", 2), ("product>=", 2), ("product==", 4)]
            p["lb_op"], p["lb_val"] = directed_ops[((i // 4) + ctx.seed) % len(directed_ops)]
            p["mac_tp"], p["glb_tp"], p["mm_tp"], p["lb_tp"] = 1, "inf", "inf", "inf"  # compute-bound: more fanout = lower latency
            if p["workload"]["kind"] == "matmuls":
                p["workload"]["M"], p["workload"]["KN"] = ctx.rng.choice([(4, 4), (2, 4), (4, 2), (8, 2)])
            else:
                p["workload"].update(A=ctx.rng.choice([2, 4]), B=ctx.rng.choice([2, 4]), C=2)
        p["glb_keep"] = ctx.rng.choice(["~MainMemory", "Nothing", "Inputs", "Outputs", "All"]) if p["workload"].get("N_EINSUMS", 1) == 1 else "~MainMemory"
        if p["workload"].get("N_EINSUMS", 1) > 1:
            knobs["max_fused_loops"] = ctx.rng.choice([0, 1, 2, "inf"])
        mets = ctx.rng.choice([["ENERGY"], ["LATENCY"], ["ENERGY", "LATENCY"], ["ENERGY", "LATENCY", "RESOURCE_USAGE"]])
        if i % 4 == 1:
            mets = ["LATENCY"]
        jobs.append((p, mets, knobs))
    results = ML.pool_map(work, jobs, workers=8)
    drv = ctx.driver()
    unsupported = 0
    for (p, mets, knobs), res in zip(jobs, results):
        if res["error"] or not res["rows"]:
            ctx.case({"params": p, "error": res["error"]}, nontrivial=False, branches=["no-mapping"])
            continue
        facts = res["facts"]
        for rec in res["rows"]:
            base = {"params": p, "metrics": mets, "knobs": knobs, "mapping": rec["mapping"]}
            if rec["mapping"] is None:
                ctx.fail("mapping-not-reconstructible", "a returned row's mapping could not be reconstructed", {**base, "err": rec["mapping_error"]})
                continue
            try:
                paths = ML.flat_einsum_paths(rec["mapping"])
            except Exception as e:
                ctx.fail("malformed-tree", "returned mapping is not a well-formed LoopTree (nest/sequential structure)", {**base, "err": repr(e)})
                continue
            jpaths = [{"einsum": e, "nodes": to_nodes(nodes)} for e, nodes in paths.items()]
            keep = []
            for k in facts["keep"]:
                if "tensors" in k:
                    keep.append(k)
                elif k["expr"].startswith("~") and k["expr"][1:].isidentifier():
                    other = k["expr"][1:]
                    nodes = paths.get(k["einsum"], [])
                    tensors = next(e["tensors"] for e in facts["einsums"] if e["name"] == k["einsum"])
                    held = {t for n in nodes if n.get("storage") == other for t in n["tensors"]}
                    keep.append({"einsum": k["einsum"], "comp": k["comp"], "tensors": sorted(set(tensors) - held)})
                else:
                    unsupported += 1
            # loop bounds are per Einsum (their rank-variable sets were evaluated per Einsum)
            fails = []
            for jp in jpaths:
                req = {"op": "failures", "einsums": [e for e in facts["einsums"] if e["name"] == jp["einsum"]], "paths": [jp],
                       "keep": [k for k in keep if k["einsum"] == jp["einsum"]], "fanouts": facts["fanouts"],
                       "loop_bounds": [{k: v for k, v in lb.items() if k != "einsum"} for lb in facts["loop_bounds"] if lb["einsum"] == jp["einsum"]]}
                f = drv.ask("C03", req)
                if isinstance(f, dict):
                    raise RuntimeError(f"driver: {f} on {req}")
                fails += f
            whole = drv.ask("C03", {"op": "failures", "einsums": facts["einsums"], "paths": jpaths, "keep": [], "fanouts": [], "loop_bounds": []})
            if isinstance(whole, dict):
                raise RuntimeError(f"driver: {whole}")
            fails += [x for x in whole if x == "computes-once"]
            mf = knobs.get("max_fused_loops", "inf")
            fr = {"op": "fused", "paths": jpaths, "shared": facts["shared"], "max_per_rv": 1}
            if mf != "inf":
                fr["max_fused"] = mf
            fu = drv.ask("C03", fr)
            if isinstance(fu, dict):
                raise RuntimeError(f"driver: {fu}")
            if not all(fu):
                fails.append("fused-loop-limit")
            nontriv = bool(p["fanout"]) or p["glb_size"] != "inf" or len(jpaths) > 1
            ctx.case({"params": p, "knobs": knobs, "mapping": rec["mapping"]}, nontrivial=nontriv,
                     branches=["fanout" if p["fanout"] else "no-fanout", "fused" if len(jpaths) > 1 else "single"])
            for f in sorted(set(fails)):
                ctx.fail(f"invalid:{f}", f"a returned mapping fails the validity check '{f}'", {**base, "facts": facts})
            ev = rec.get("ev") or {}
            if ev.get("error"):
                ctx.fail("rejected-by-model", "evaluate_mapping rejects a mapping the mapper returned", {**base, "error": ev["error"]})
            elif any(u is not None and u > 1 + 1e-9 for u in (ev.get("usage") or {}).values()):
                ctx.fail("over-capacity", "a returned mapping exceeds a memory's size", {**base, "usage": ev.get("usage")})
    ctx.cov["unsupported_keep_expressions"] = unsupported
