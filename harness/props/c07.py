"""C07 — symbolic cost formulas agree with concrete evaluation at every tile assignment.

Proof:  AFV/Props/C07.lean  analytic_hom (the cost model `analytic` commutes with every homomorphism of its number type),
                            eval_hom (evaluation of symbolic expressions is one), symbolic_eq_concrete (for every template and
                            EVERY assignment σ: eval σ (analyticPoly template) = analytic (template[σ])), exported_formula_sound.
        With C05 (analytic = loop-nest execution) this is the property for the model.
Tie:    translator.  For every sampled template the CURRENT run_model is run on the template with symbolic tile shapes
        (inside evaluate_mapping, on a copy of the very job the concrete evaluation uses); every exported formula (action counts,
        energies, latencies, totals, usage, reservations) is converted exactly to an LExpr and compared with the model's
        formula for the same template by the verified normaliser (`LExpr.equiv`): natively for all, and by the Lean KERNEL for
        the obligations written to lean/Gen/C07.lean.  The pieces the theorem cannot see are checked by correspondence:
        `compile_dict` / `_lambdify_type_check` (the compiled float32 functions, lambdify cache interleaved between templates
        with identical symbol lists) are evaluated on every perfectly factorising assignment and compared with the exact
        value of the formula; evaluate_mapping on the concrete mapping is compared at sampled assignments.
Not covered: `_to_sp` (nested function of make_tile_shapes; only reachable through the mapper), mapper-generated templates
        beyond the free generator (the mapper checks use them).
"""
from __future__ import annotations

import copy
import itertools
import json
from fractions import Fraction

from harness import nestlib as N
from harness import translate as T
from harness.core import Ctx

ANCHORS = [
    "accelforge.model._looptree.reuse.symbolic._symbolic:insert_sympy_symbols",
    "accelforge.model._looptree.reuse.symbolic._symbolic:analyze_reuse_and_add_reservations_to_mapping",
    "accelforge.model.run_model:run_model",
    "accelforge.mapper.FFM._make_pmappings.make_pmappings_from_templates.make_tile_shapes:compile_dict",
    "accelforge.util.parallel:_lambdify_type_check",
]
SEP = N.SEP
TOL32 = 3e-5


# ------------------------------------------------------------------------------------------------ templates

def make_template(rng, case):
    """Choose symbolic loops (never the innermost loop of a rank variable — it must stay 1)."""
    mp = case["mapping"]
    loops = [i for i, n in enumerate(mp) if n[0] == "L"]
    last = {}
    for i in loops:
        last[mp[i][1]] = i
    cand = [i for i in loops if last[mp[i][1]] != i]
    sym_nodes = [i for i in cand if rng.random() < 0.8]
    tpl, sym_loop_idx = [], []
    for i, n in enumerate(mp):
        if n[0] == "L":
            li = loops.index(i)
            if i in sym_nodes:
                tpl.append(["LS", n[1], len(sym_loop_idx)])
                sym_loop_idx.append(li)
            else:
                tpl.append(["LC", n[1], n[2]])
        else:
            tpl.append(list(n))
    return tpl, sym_loop_idx, sym_nodes


def assignments(case, sym_nodes, cap, rng):
    """All perfectly factorising assignments of the symbolic loops (other loops keep their tile shape)."""
    mp = case["mapping"]
    bounds = case["workload"]["bounds"]
    per_rv = {}
    for i, n in enumerate(mp):
        if n[0] == "L":
            per_rv.setdefault(n[1], []).append(i)
    choices_per_rv = []
    for rv, idxs in per_rv.items():
        def rec(k, cur):
            if k == len(idxs):
                yield []
                return
            i = idxs[k]
            if i in sym_nodes:
                opts = N.DIVS[cur]
            else:
                opts = [mp[i][2]] if cur % mp[i][2] == 0 else []
            for t in opts:
                for rest in rec(k + 1, t):
                    yield [(i, t)] + rest
        choices_per_rv.append([c for c in rec(0, bounds[rv])])
    allc = []
    for combo in itertools.product(*choices_per_rv):
        d = dict(x for part in combo for x in part)
        allc.append([d[i] for i in sym_nodes])
    allc = [list(x) for x in dict.fromkeys(tuple(a) for a in allc)]
    exhaustive = len(allc) <= cap
    if not exhaustive:
        allc = rng.sample(allc, cap)
    return allc, exhaustive


def instantiate(case, sym_nodes, values):
    c = copy.deepcopy(case)
    for i, v in zip(sym_nodes, values):
        c["mapping"][i][2] = v
    return c


# ------------------------------------------------------------------------------------------------ symbolic run of the live code

def run_symbolic(case, sym_nodes):
    """evaluate_mapping on the concrete case; inside, run_model is ALSO run on a copy of the job whose chosen loops carry the
    mapper's "symbol" tile shape (perfect factorisation assumed, as for the mapper's templates).  Returns (symbols, df, pmu)."""
    import logging
    import warnings

    mods = N.impl_modules()
    rm = mods["run_model"]
    orig = rm.run_model
    cap = []
    Temporal = __import__("accelforge.frontend.mapping", fromlist=["Temporal"]).Temporal
    loop_positions = [i for i, n in enumerate(case["mapping"]) if n[0] == "L"]
    sym_loop_numbers = {loop_positions.index(i) for i in sym_nodes}

    def wrapper(job, *a, **k):
        job2 = copy.copy(job)
        job2.mapping = copy.deepcopy(job.mapping)
        li = 0
        for n in job2.mapping.nodes:
            if isinstance(n, Temporal):
                n._may_cause_imperfect = False
                if li in sym_loop_numbers:
                    n.tile_shape = "symbol"
                li += 1
        try:
            cap.append(orig(job2, *a, **k))
        except Exception as e:  # observable
            cap.append(e)
        return orig(job, *a, **k)

    with open("sym_case.yaml", "w") as f:
        f.write(N.case_to_yaml(case))
    rm.run_model = wrapper
    logging.disable(logging.CRITICAL)
    err = None
    try:
        with warnings.catch_warnings():
            warnings.simplefilter("ignore")
            spec = mods["spec"].Spec.from_yaml("sym_case.yaml")
            mods["main"].evaluate_mapping(spec)
    except Exception as e:
        err = (type(e).__name__, str(e)[:300])
    finally:
        rm.run_model = orig
        logging.disable(logging.NOTSET)
    if not cap:
        return None, err
    if isinstance(cap[-1], Exception):
        return None, (type(cap[-1]).__name__, str(cap[-1])[:300])
    symbols, df, pmu, _, _, _ = cap[-1]
    return (list(symbols), dict(df), dict(pmu)), None


def col_to_key(col):
    p = col.split(SEP)
    L = lambda s: int(s[1:])
    try:
        if p[0] == "action" and len(p) == 4:
            if p[1] == N.COMPUTE:
                return ["computes"]
            return ["actionR" if p[3] == "read" else "actionW", L(p[1]), L(p[2])]
        if p[0] == "energy":
            if p[-1] == "leak":
                return ["computeLeak"] if p[1] == N.COMPUTE else ["leak", L(p[1])]
            if p[1] == N.COMPUTE:
                return ["computeEnergy"]
            return ["energyR" if p[3] == "read" else "energyW", L(p[1]), L(p[2])]
        if p[0] == "latency":
            return ["computeLatency"] if p[1] == N.COMPUTE else ["latency", L(p[1])]
        if p[0] == "Total":
            return {"latency": ["totalLatency"], "dynamic_energy": ["dynamicEnergy"], "leak_energy": ["leakEnergy"]}.get(p[1])
        if p[0] == "usage" and p[1] == "memory":
            return ["memUsage", L(p[2])] if len(p) == 3 else ["usage", L(p[2]), L(p[3])]
        if p[0] == "reservation":
            return ["reservation", L(p[1]), int(p[2])]
    except (ValueError, IndexError):
        return None
    return None


# ------------------------------------------------------------------------------------------------ Lean source of a template (generated obligations)

def lean_rat(q):
    f = N.q2frac(q)
    return f"({f.numerator} : Rat)" if f.denominator == 1 else f"(({f.numerator} : Rat) / {f.denominator})"


def lean_pairs(ps):
    return "[" + ", ".join(f"({t}, {lean_rat(v)})" for t, v in ps) + "]"


def lean_opt(q):
    return "none" if q is None else f"some {lean_rat(q)}"


def lean_act(a):
    return f"{{ energy := {lean_rat(a['e'])}, throughput := {lean_rat(a['thr'])}, bpa := {lean_opt(a.get('bpa'))}, vpa := {lean_pairs(a.get('vpa') or [])} }}"


def lean_case(case, tpl, name):
    arch, wl = case["arch"], case["workload"]
    dmap = {"up": "Dir.up", "down": "Dir.down", "up_and_down": "Dir.upDown"}
    levels = []
    for lv in arch["levels"]:
        levels.append(
            f"{{ isToll := {'true' if lv['toll'] else 'false'}, size := {lean_rat(lv['size'])}, leak := {lean_rat(lv['leak'])}, "
            f"actionsScale := {lean_rat(lv['ascale'])}, skipInitial := {'true' if lv['skip'] else 'false'}, bpvOv := {lean_pairs(lv['bpv'])}, "
            f"bpa := {lean_opt(lv.get('bpa'))}, vpa := {lean_pairs(lv['vpa'])}, read := {lean_act(lv['read'])}, write := {lean_act(lv['write'])}, "
            f"dir := [{', '.join(f'({t}, {dmap[d]})' for t, d in lv['dir'])}] }}")
    c = arch["compute"]
    comp = (f"{{ energy := {lean_rat(c['e'])}, throughput := {lean_rat(c['thr'])}, leak := {lean_rat(c['leak'])}, "
            f"actionsScale := {lean_rat(c['ascale'])}, skipInitial := {'true' if c['skip'] else 'false'} }}")
    tens = ", ".join(f"{{ rvs := {ts['rvs']}, isOutput := {'true' if ts['out'] else 'false'}, bpv := {lean_rat(ts['bpv'])} }}" for ts in wl["tensors"])
    nodes = []
    for n in tpl:
        b = lambda x: "true" if x else "false"
        if n[0] == "S":
            nodes.append(f".storage {n[1]} {n[2]} {b(n[3])}")
        elif n[0] == "T":
            nodes.append(f".toll {n[1]} {n[2]} {b(n[3])}")
        elif n[0] == "LC":
            nodes.append(f".loopC {n[1]} {n[2]}")
        elif n[0] == "LS":
            nodes.append(f".loopS {n[1]} {n[2]}")
        else:
            nodes.append(".compute")
    return (f"def {name}_arch : Arch Rat := {{ levels := [{', '.join(levels)}], compute := {comp} }}\n"
            f"def {name}_w : Workload Rat := {{ bounds := [{', '.join(lean_rat(b) for b in wl['bounds'])}], tensors := [{tens}], nInstances := {lean_rat(wl['ninst'])} }}\n"
            f"def {name}_tpl : List TNode := [{', '.join(nodes)}]\n")


def lean_key(k):
    return "FKey." + k[0] + "".join(f" {x}" for x in k[1:])


# ------------------------------------------------------------------------------------------------ run

def run(ctx: Ctx):
    ctx.lean_gate()
    ctx.anchors(ANCHORS)
    ctx.cov["rule"] = (
        "templates = mappings of the C05 generator (12 Einsum shapes, 2-4 levels incl. Tolls, holders anywhere, all per-level "
        "options) in which a random subset of the non-innermost loops carries a symbolic tile shape (0-5 symbols); assignments = "
        "all perfectly factorising values of the symbols (exhaustive when at most `cap`, else sampled). "
        "non-trivial = at least one symbol and a non-backing holder"
    )
    ctx.cov["tolerance"] = {"exported formula vs model formula": "exact (normal forms / exact rationals)",
                            "compiled float32 functions vs exact value": TOL32,
                            "evaluate_mapping at sampled assignments": "0 if all scale factors are powers of two else 1e-9"}
    ctx.cov["trusted_base"] += ["harness/translate.py (sympy → LExpr, exact floats; round-trip tested on random points every run)",
                                "LExpr.normalize soundness (AFV/Lemmas/LExprSound.lean, proved)"]
    ctx.assumptions += ["symbolic runs assume perfect factorisation (`_may_cause_imperfect = False`), as for the mapper's templates",
                        "`_to_sp` (symengine→sympy inside make_tile_shapes) is not reachable without the mapper and is not covered"]
    import importlib
    import numpy as np
    import sympy

    mts = importlib.import_module("accelforge.mapper.FFM._make_pmappings.make_pmappings_from_templates.make_tile_shapes")
    drv = ctx.driver()
    ask_lexpr = T.lexpr_ask(drv)
    rng = ctx.rng
    reported = {}
    untranslatable = []
    obligations, ob_defs = [], []
    n_formulas = n_points = n_compiled = n_selftest = 0
    all_exhaustive = True
    prev_compiled = None
    grid_only = [0, 0]

    def fail(key, what, payload):
        reported[key] = reported.get(key, 0) + 1
        ctx.cov["failing_cases_by_key"] = dict(reported)
        if reported[key] > 1 or len(reported) > 6:
            return
        ctx.fail(key, what, payload)

    n_tpl = 400 if ctx.thorough else 36
    cap = 64 if ctx.thorough else 16
    n_kernel_tpl = 12 if ctx.thorough else 2
    broken = []
    for ti in range(n_tpl):
        case = N.gen_case(rng, exact=True, toll_prob=0.2, style=rng.choice(["deep", "free", "hier", "deep"]))
        rep = drv.ask("C07", N.driver_req(case))
        if not rep.get("wf") or rep["oversubscribed"]:
            continue
        tpl, sym_loop_idx, sym_nodes = make_template(rng, case)
        symnames = [f"stride{j}" for j in sym_loop_idx]
        got, err = run_symbolic(case, sym_nodes)
        feats = N.case_features(case)
        ctx.case({"template": tpl, "bounds": case["workload"]["bounds"]}, nontrivial=bool(sym_nodes) and "non-backing-holder" in feats,
                 branches=[f"symbols={min(len(sym_nodes), 4)}"] + [f for f in feats if f in ("toll", "output-refetch", "holder-below-loop")])
        ctx.dist(f"symbols={len(sym_nodes)}")
        if got is None:
            fail("symbolic-run-exception-" + err[0], f"run_model raised {err[0]} on a template with symbolic tile shapes: {err[1][:200]}",
                 {"case": case, "template": tpl, "error": err, "yaml": N.case_to_yaml(case)})
            continue
        symbols, df, pmu = got
        if [str(s) for s in symbols] != symnames:
            if "symbol-naming" not in reported:
                reported["symbol-naming"] = 1
                ctx.broken("the symbols created by insert_sympy_symbols are no longer stride<loop index>: the translator cannot align "
                           "the exported formulas with the template", {"got": [str(s) for s in symbols], "expected": symnames})
            continue
        formulas = {}
        for col, v in list(df.items()) + list(pmu.items()):
            key = col_to_key(col)
            if key is None:
                continue
            try:
                tree = T.to_tree(v, symnames)
            except T.Untranslatable as e:
                untranslatable.append({"column": col, "formula": str(v)[:200], "why": str(e)})
                continue
            formulas[col] = (key, tree, v)
        if ti % 6 == 0 and formulas:
            col = rng.choice(sorted(formulas))
            n_selftest += T.self_test(ask_lexpr, formulas[col][2], symnames, rng, n_points=2, tree=formulas[col][1])
        cols = sorted(formulas)
        res = drv.ask("C07", {"op": "formulas", "arch": case["arch"], "workload": case["workload"], "template": tpl,
                              "formulas": [[formulas[c][0], T.to_json(formulas[c][1])] for c in cols]})
        if isinstance(res, dict):
            raise RuntimeError(f"driver: {res}")
        n_formulas += len(cols)
        bad_cols = [c for c, ok in zip(cols, res) if ok is not True]
        # kernel obligations for the first templates
        if len(ob_defs) < n_kernel_tpl and sym_nodes:
            name = f"t{len(ob_defs)}"
            ob_defs.append(lean_case(case, tpl, name))
            pick = [c for c in cols if formulas[c][0][0] in ("latency", "dynamicEnergy", "actionR", "actionW", "memUsage") and c not in bad_cols][:6]
            for c in pick:
                oname = f"{name}_f{len(obligations)}"
                obligations.append(
                    f"/-- {c.replace(SEP, ' / ')}: the live code returned  {str(formulas[c][2])[:300].replace('-/', '- /')} -/\n"
                    f"def {oname} : LExpr :=\n  {T.to_lean(formulas[c][1])}\n"
                    f"example : formulaOK {name}_arch {name}_w {name}_tpl ({lean_key(formulas[c][0])}) {oname} = some true := by decide +kernel\n")
        # every perfectly factorising assignment
        pts, exh = assignments(case, sym_nodes, cap, rng)
        all_exhaustive = all_exhaustive and exh
        keys = [formulas[c][0] for c in cols]
        first_bad_point = None
        exact_vals = {}
        for pt in pts:
            vals = drv.ask("C07", {"op": "evalpoly", "arch": case["arch"], "workload": case["workload"], "template": tpl,
                                   "point": [T.rat_json(Fraction(x)) for x in pt], "keys": keys})
            conc = drv.ask("C07", N.driver_req(instantiate(case, sym_nodes, pt)))
            n_points += 1
            fr = [Fraction(x) for x in pt]
            for c, mv in zip(cols, vals):
                ev = T.eval_tree(formulas[c][1], fr)
                exact_vals[(tuple(pt), c)] = ev
                if mv is None or T.rat_of_json(mv) != ev:
                    if first_bad_point is None:
                        first_bad_point = (pt, c, str(ev), None if mv is None else str(T.rat_of_json(mv)))
            # theorem symbolic_eq_concrete, observed: model's symbolic value = model's concrete value
            if conc.get("analytic") is not None:
                exp = N.expected_columns(conc["analytic"], case)
                exp[f"Total{SEP}latency"] = N.q2frac(conc["analytic"]["totalLatency"])
                for c, mv in zip(cols, vals):
                    if c in exp and mv is not None and T.rat_of_json(mv) != exp[c]:
                        raise RuntimeError(f"Lean analyticPoly evaluated at {pt} differs from Lean analytic on the instantiated mapping in {c} (contradicts symbolic_eq_concrete)")
        if first_bad_point is not None:
            pt, c, ev, mv = first_bad_point
            inst = instantiate(case, sym_nodes, pt)
            run = N.run_impl(inst)
            impl_v = None if run.df is None else str(run.df.get(c, (run.per_memory_usage or {}).get(c)))
            fail("formula-differs-" + formulas[c][0][0],
                 f"the symbolic formula for {c} evaluates to {ev} at tile shapes {pt} but the cost model (= loop-nest execution) gives {mv}; "
                 f"evaluate_mapping on the concrete mapping gives {impl_v}",
                 {"case": inst, "template": tpl, "point": pt, "column": c, "formula": str(formulas[c][2])[:500], "formula_value": ev,
                  "model_value": mv, "evaluate_mapping_value": impl_v, "yaml": N.case_to_yaml(inst)})
            continue
        def has_max(tree):
            return tree[0] in ("max", "min") or any(has_max(x) for x in (tree[1] if tree[0] in ("+", "*") else [tree[1]] if tree[0] in ("^", "ceil") else []))
        for c in bad_cols:
            if has_max(formulas[c][1]) or formulas[c][0][0] in ("totalLatency", "leakEnergy", "leak", "computeLeak"):
                # the overall latency is a Max over the (individually verified) component latencies; sympy's Max flattens,
                # folds constants and drops zero arguments, so the normal forms differ: these columns are verified on the
                # grid of ALL perfectly factorising assignments (done above, exactly), not for all σ
                grid_only[0] += 1
            else:
                # normal forms differ although the values agree at every perfectly factorising assignment examined (e.g. a
                # formula written with ceiling(bound/stride)): the property quantifies over those assignments only
                grid_only[1] += 1
        # compiled functions (compile_dict + lambdify cache), float32, all assignments at once
        if sym_nodes and pts:
            sub = [c for c in cols if formulas[c][0][0] in ("totalLatency", "dynamicEnergy", "leakEnergy", "actionR", "actionW", "memUsage")][:8]
            sp_syms = [sympy.Symbol(s, positive=True, integer=True) for s in symnames]
            sp_map = {s: sp_syms[i] for i, s in enumerate(symnames)}
            dct = {}
            for c in sub:
                e = sympy.sympify(formulas[c][2])
                e = e.xreplace({s: sp_map[str(s)] for s in e.free_symbols})
                dct[c] = e
            comp = mts.compile_dict(sp_syms, dct)
            if prev_compiled is not None and rng.random() < 0.5:
                # interleave: call a function compiled for the previous template (same symbol names) again
                pc, pargs, pwant = prev_compiled
                gotv = np.atleast_1d(np.asarray(pc(*pargs), dtype=np.float64))
                if not np.allclose(np.broadcast_to(gotv, pwant.shape), pwant, rtol=TOL32, atol=0):
                    fail("lambdify-cache-interference", "a compiled function changed its values after another template was compiled",
                         {"case": case})
            args = [np.array([p[i] for p in pts], dtype=np.float32) for i in range(len(sym_nodes))]
            for c in sub:
                out = np.asarray(comp[c](*args), dtype=np.float64)
                out = np.broadcast_to(out, (len(pts),))
                want = np.array([float(exact_vals[(tuple(p), c)]) for p in pts])
                n_compiled += len(pts)
                if not np.allclose(out, want, rtol=TOL32, atol=1e-30):
                    j = int(np.argmax(np.abs(out - want) / np.maximum(np.abs(want), 1e-30)))
                    fail("compiled-formula-differs", f"compile_dict's function for {c} gives {out[j]} at {pts[j]}, exact value {want[j]}",
                         {"case": instantiate(case, sym_nodes, pts[j]), "template": tpl, "column": c, "point": pts[j]})
                    break
            if sub:
                c0 = sub[0]
                prev_compiled = (comp[c0], args, np.array([float(exact_vals[(tuple(p), c0)]) for p in pts]))
        # evaluate_mapping at sampled assignments
        for pt in rng.sample(pts, min(len(pts), 2 if ctx.thorough else 1)):
            inst = instantiate(case, sym_nodes, pt)
            run = N.run_impl(inst)
            if run.error is not None:
                continue
            tol = 0.0
            for c in cols:
                src = run.df if c in run.df else run.per_memory_usage
                if c in src and not N.close(N.py2frac(src[c]), exact_vals[(tuple(pt), c)], tol):
                    fail("concrete-differs-" + formulas[c][0][0],
                         f"evaluate_mapping gives {src[c]} for {c} at tile shapes {pt}; the symbolic formula evaluates to {exact_vals[(tuple(pt), c)]}",
                         {"case": inst, "template": tpl, "point": pt, "column": c, "yaml": N.case_to_yaml(inst)})
                    break

    ctx.cov["untranslatable_formulas"] = untranslatable[:20]
    ctx.cov["formulas_compared"] = n_formulas
    ctx.cov["max_formulas_verified_on_grid_only"] = grid_only[0]
    ctx.cov["other_formulas_verified_on_grid_only"] = grid_only[1]
    ctx.cov["assignments_evaluated"] = n_points
    ctx.cov["compiled_function_values_compared"] = n_compiled
    ctx.cov["translator_roundtrip_points"] = n_selftest
    ctx.cov["exhaustive"] = bool(all_exhaustive)
    # kernel-checked obligations
    if obligations:
        hdr = "Obligations: exported formula ≡ the model's formula for the same template (formulaOK = LExpr.equiv against analyticPoly)."
        src = T.lean_file("C07", ["AFV.Model.NestKeys"], ["AFV", "AFV.Nest"], ob_defs + obligations, hdr)
        ok, out = ctx.check_generated("C07", src, len(obligations))
        if not ok and ctx.n_violations() == 0:
            broken.append({"kernel": out[-1500:]})
    if broken and ctx.n_violations() == 0:
        ctx.broken(f"{len(broken)} exported formula(s) are no longer identical (as normal forms) to the model's formulas, although they agree "
                   "at every perfectly factorising assignment examined", {"items": broken[:5]})
