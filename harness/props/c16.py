"""C16 — tolerance settings stay within their documented optimality bound.

Proof:  AFV/Props/C16.lean (tol_bound: approximate pruning that keeps, for every dropped row, a kept row within a factor (1+t)
        on objectives and not larger on reservations loses at most a factor (1+t) of the optimum per pruning stage; ffm_tol composes it
        over the pipeline shape; every returned point is achievable, so the result is never below the exact optimum; capacity is
        re-checked exactly at the end, so validity is not affected).
Tie:    the real mapper with objective_tolerance / resource_usage_tolerance in {0.01, 0.1, 0.5}, separately and together, against
        the exact (zero-tolerance) run of the same spec: exact ≤ best_t ≤ (1+t)·exact for ENERGY, LATENCY and EDP; every returned
        mapping is re-evaluated with evaluate_mapping (must be accepted, usage ≤ 1).
"""
from __future__ import annotations

from harness.core import Ctx
from harness import mapperlib as ML

ANCHORS = [
    "accelforge.mapper.FFM._pareto_df.pareto:makepareto",
    "accelforge.mapper.FFM._join_pmappings.join_pmappings:join_strategy_2",
    "accelforge.mapper.FFM._join_pmappings.pmapping_dataframe:PmappingDataframe.make_pareto",
    "accelforge.mapper.FFM._make_pmappings.make_pmappings_from_templates.make_tile_shapes:get_tile_shape_choices",
]
REL = 2e-5
TOLS = [0.01, 0.1, 0.5]
METRICS = ["ENERGY", "LATENCY", "ENERGY_DELAY_PRODUCT"]


def work(job):
    params, metric, t_obj, t_res = job
    exact = ML.run_mapper(params, [metric], eval_in_detail=False)
    approx = ML.run_mapper(params, [metric], knobs={"objective_tolerance": t_obj, "resource_usage_tolerance": t_res}, eval_in_detail=False)
    out = {"exact": {"error": exact["error"], "best": ML.best(exact["rows"], metric), "n": len(exact["rows"])},
           "approx": {"error": approx["error"], "best": ML.best(approx["rows"], metric), "n": len(approx["rows"])}, "rows": []}
    for row in approx["rows"]:
        ev = ML.evaluate(params, row["mapping"]) if row.get("mapping") else {"error": "no mapping: " + str(row.get("mapping_error"))}
        out["rows"].append({"reported": {k: row[k] for k in ("energy", "latency", "edp")}, "mapping": row.get("mapping"),
                            "ev": {k: v for k, v in ev.items() if not k.startswith("_")}})
    return out


def run(ctx: Ctx):
    ctx.lean_gate()
    ctx.anchors(ANCHORS)
    ctx.cov["rule"] = ("seeded small specs (finite buffers favoured, 1–2 Einsums) × metric ∈ {ENERGY, LATENCY, EDP} × (objective_tolerance, "
                       "resource_usage_tolerance) ∈ {0, .01, .1, .5}² \\ {(0,0)}; non-trivial = the approximate run differs from the exact run "
                       "or the spec has a finite buffer")
    ctx.cov["tolerance"] = REL
    n = 60 if ctx.thorough else 12
    jobs = []
    for i in range(n):
        p = ML.gen_params(ctx.rng, finite_glb=True if i % 3 else None, n_einsums=2 if i % 2 else None, kind="matmuls" if i % 2 else None)
        m = METRICS[i % 3]
        mode = i % 3
        t_obj = ctx.rng.choice(TOLS) if mode in (0, 2) else 0
        t_res = ctx.rng.choice(TOLS) if mode in (1, 2) else 0
        jobs.append((p, m, t_obj, t_res))
    # directed stream (hypothesis: tolerance pruning of the REAL objectives uses objective_tolerance, whatever the resource
    # tolerance): both tolerances set with resource_usage_tolerance >> objective_tolerance, a tight buffer and a costly
    # outer memory so that usage trades against energy, divisor-rich bounds so that in-flight pruning has choices to drop
    for (M, KN, glb_bytes) in ([(12, 20, 25), (30, 30, 51)] if ctx.thorough else [(12, 20, 25)]):
        d = ML.gen_params(ctx.rng, n_einsums=1, kind="matmuls", levels=2, finite_glb=True)
        d["workload"].update(M=M, KN=KN)
        d.update(bits=8, glb_size=glb_bytes * 8, mm_energy=1000, glb_energy=1, mac_energy=1, glb_leak=0,
                 mm_tp="inf", glb_tp="inf", mac_tp=1, glb_keep="~MainMemory")
        for (t_obj, t_res) in [(0.01, 0.5), (0.1, 0.5)]:
            jobs.append((d, "ENERGY", t_obj, t_res))
    results = ML.pool_map(work, jobs, workers=8)
    drv = ctx.driver()
    for (p, m, t_obj, t_res), res in zip(jobs, results):
        ctx.dist(f"obj={'>0' if t_obj else '0'},res={'>0' if t_res else '0'}")
        ex, ap = res["exact"], res["approx"]
        rep = {"params": p, "metric": m, "objective_tolerance": t_obj, "resource_usage_tolerance": t_res, "exact": ex, "approx": ap}
        if ex["best"] is None:
            ctx.case(rep, nontrivial=False, branches=["no-mapping"])
            if ap["best"] is not None:
                pass  # tolerance may not create mappings, but returned ones are validated below
        else:
            differs = ap["best"] is None or not ML.close(ap["best"], ex["best"], 1e-9)
            ctx.case({"params": p, "metric": m, "t": [t_obj, t_res], "exact": ex["best"], "approx": ap["best"]},
                     nontrivial=differs or p["glb_size"] != "inf", branches=["differs" if differs else "same"])
            if ap["best"] is None:
                # classify by mechanism: the join-time re-prune with objective_tolerance>0 buckets reservation columns with the
                # same tolerance when RESOURCE_USAGE is not requested, loses the only feasible combination and the join raises
                if t_obj > 0 and p["glb_size"] != "inf" and str(ap["error"]).startswith("ValueError: No mappings found"):
                    key = "objtol-join-reprune-buckets-reservations:no-mappings-found"
                else:
                    key = f"tolerance-loses-all-mappings:obj={'>0' if t_obj else '0'},res={'>0' if t_res else '0'}"
                ctx.fail(key, "with a tolerance the mapper returns no mapping although the exact run finds one", rep)
            else:
                tn = int(round(t_obj * 1000))
                v = drv.ask("C16", {"op": "within", "exact": ML.to_int_vec([ex["best"]])[0], "approx": ML.to_int_vec([ap["best"]])[0],
                                    "t_num": tn, "t_den": 1000, "slack_num": 1, "slack_den": 50000})
                if not isinstance(v, dict) or "err" in v:
                    raise RuntimeError(f"driver: {v}")
                if not v["notBelow"]:
                    ctx.fail(f"below-exact-optimum:{m}", "a run with tolerance reports a better objective than the exact optimum", rep)
                if not v["withinBound"]:
                    ctx.fail(f"beyond-tolerance-bound:{m}", f"best objective with objective_tolerance={t_obj} exceeds (1+t)× the exact optimum", rep)
        for row in res["rows"]:
            ev = row["ev"]
            if ev.get("error"):
                ctx.fail("invalid-mapping-returned", "a mapping returned under tolerance is rejected by evaluate_mapping",
                         {**rep, "mapping": row["mapping"], "error": ev["error"]})
            elif any(u is not None and u > 1 + 1e-9 for u in (ev.get("usage") or {}).values()):
                ctx.fail("over-capacity-mapping-returned", "a mapping returned under tolerance exceeds a memory's size",
                         {**rep, "mapping": row["mapping"], "usage": ev.get("usage")})
