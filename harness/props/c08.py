"""C08 — tile-shape exploration prunes without losing any Pareto-optimal choice.

Proof:  AFV/Props/C08.lean (abstract): `tileprune_preserves_front` (pruning partial choices down to a cover w.r.t. the
        tracked quantities leaves the Pareto front of the complete assignments unchanged), `pareto_keep_covers`,
        `tileprune_front_quantities` (min/max/diff goals, objectives monotone in tracked quantities and independent of
        dropped ones, better choices admit all continuations), `min_per_prime_factor_iff_dvd`, `dvd_more_outer_choices`,
        `validity_prune_sound`, `goal_or_sound`.
Tie:    per template of small single-Einsum specs: the REAL `make_tile_shapes(job)` vs `tileFront T`:
          * every tile assignment of the template is enumerated independently (candidate relation of neighbouring tile
            shapes = get_possible_factor_sizes, proved exact in C10), every formula evaluated exactly (Fractions),
            invalid ones dropped (captured Objective max/min values, loop-count groups);
          * the exact Pareto front (Lean driver, all pairs, scaled integers) of ALL valid assignments is compared, as a set of
            objective vectors, with the front of the rows the real code returned (their vectors recomputed exactly);
            every returned row must itself be a valid candidate assignment; the float32 columns of the returned
            frame must agree with the exact values to 1e-4;
          * the goals `make_evalable_objectives_from_formula` derives for single symbols are logged and each claimed monotonicity is
            checked on EVERY point of the box (shares harness/cmp9.py with C09); `Goal.__or__` / `__invert__` exhaustively
            against the Lean model.
"""
from __future__ import annotations

import copy
import json
import os
from fractions import Fraction

from harness.core import Ctx
from harness import mapperlib as ML

MTS = "accelforge.mapper.FFM._make_pmappings.make_pmappings_from_templates.make_tile_shapes"
ANCHORS = [f"{MTS}:make_evalable_objectives_from_formula", f"{MTS}:_make_evalable_objectives_from_formula", f"{MTS}:coalesce_symbols",
           f"{MTS}:get_padded_choices", f"{MTS}:get_tile_shape_choices", f"{MTS}:grab_symbol", f"{MTS}:check_loops",
           f"{MTS}:_make_tile_shapes", f"{MTS}:make_tile_shapes", f"{MTS}:Goal", f"{MTS}:try_replace_single_term",
           f"{MTS}:affects_comparison",
           "accelforge.mapper.FFM._make_pmappings.make_pmappings_from_templates.symbol_relations:SymbolRelations",
           "accelforge.mapper.FFM._pareto_df.pareto:makepareto_numpy"]

_DRV = None


def _driver():
    global _DRV
    if _DRV is None:
        from harness.core import Driver

        _DRV = Driver()
    return _DRV


def exact_front(vectors: list) -> list:
    """Pareto front (all columns minimised) of exact rational vectors through the Lean driver. Returns sorted unique vectors."""
    drv = _driver()
    uniq = sorted(set(tuple(v) for v in vectors))
    if not uniq:
        return []
    ncol = len(uniq[0])
    scale = []
    for k in range(ncol):
        l = 1
        for v in uniq:
            d = v[k].denominator
            l = l * d // __import__("math").gcd(l, d)
        scale.append(l)
    rows = [[int(v[k] * scale[k]) for k in range(ncol)] for v in uniq]
    senses = ["min"] * ncol
    if len(rows) > 1500:
        # sort-based skyline as a pre-filter; the driver then certifies it (front of the candidates + every other row covered)
        order = sorted(range(len(rows)), key=lambda i: (sum(rows[i]), rows[i]))
        cands = []
        for i in order:
            r = rows[i]
            if not any(all(a <= b for a, b in zip(rows[j], r)) for j in cands):
                cands.append(i)
        crow = [rows[i] for i in cands]
        unc = drv.ask("C08", {"op": "cover", "senses": senses, "cands": crow, "rows": rows})
        if unc != []:
            raise RuntimeError(f"skyline pre-filter rejected by the driver: {unc[:5]}")
        idx = drv.ask("C08", {"op": "front", "senses": senses, "rows": crow})
        return sorted(uniq[cands[i]] for i in idx)
    idx = drv.ask("C08", {"op": "front", "senses": senses, "rows": rows})
    if not isinstance(idx, list):
        raise RuntimeError(f"driver: {idx}")
    return sorted(uniq[i] for i in idx)


def _axis(lo, hi, n):
    """up to n values of [lo, hi], always with both ends"""
    if hi - lo + 1 <= n:
        return list(range(lo, hi + 1))
    step = (hi - lo) / (n - 1)
    return sorted({lo + round(i * step) for i in range(n)})


def check_goals(cap, limit_points: int) -> list:
    """The hypothesis of `tileprune_front_quantities`, per objective formula and per stage of the enumeration:
    `make_evalable_objectives_from_formula(f, enumerated)` returned tracked quantities k_i with goals; whenever a partial choice c1 is
    at least as good as c2 on every k_i (≤ for min, ≥ for max, = for diff, divides for *_per_prime_factor), f(c1, u) ≤ f(c2, u)
    must hold for EVERY value u of the symbols not yet enumerated.  Checked on the whole box when it is small, else on a grid
    (every axis reduced to ≤ 4 values incl. both ends)."""
    import itertools

    import sympy
    from harness import exprlib9 as X
    from harness import tiles8 as T

    symbols = list(cap.kw["symbols"])
    syms = sorted(symbols, key=str)
    idx = X.sym_index(syms)
    res, seen = [], set()
    for f, enumerated, goals, bounds, outer_goal in cap.goals:
        if outer_goal != "min" or not goals:
            continue
        bmap = {s: (int(lo), int(hi)) for s, lo, hi in bounds}
        try:
            g = T.to_sympy(f, syms)
            fsyms = sorted(g.free_symbols, key=str)
            if any(s not in bmap for s in fsyms):
                continue
            en = [s for s in fsyms if s in set(enumerated)]
            un = [s for s in fsyms if s not in set(enumerated)]
            if not en or not un:
                continue          # fully enumerated (the formula itself is the quantity) or not started
            key = (str(g), tuple(map(str, en)))
            if key in seen:
                continue
            seen.add(key)
            fn = X.compile_eval(g, idx)
            ks = [(X.compile_eval(T.to_sympy(k, syms), idx), goal, str(k)) for k, goal in goals.items()]
        except (X.Unsupported, KeyError):
            continue
        total = 1
        for s_ in fsyms:
            total *= bmap[s_][1] - bmap[s_][0] + 1
        exhaustive = total <= limit_points
        ax = {s_: (list(range(bmap[s_][0], bmap[s_][1] + 1)) if exhaustive else _axis(*bmap[s_], 4)) for s_ in fsyms}
        base = [1] * len(syms)

        def point(vals_en, vals_un):
            p_ = list(base)
            for s_, v in zip(en, vals_en):
                p_[idx[s_]] = v
            for s_, v in zip(un, vals_un):
                p_[idx[s_]] = v
            return p_

        en_pts = list(itertools.product(*[ax[s_] for s_ in en]))
        un_pts = list(itertools.product(*[ax[s_] for s_ in un]))
        if len(en_pts) > 400:
            en_pts = en_pts[:: max(1, len(en_pts) // 400)]
        # proxies depend on the enumerated symbols only (that is the claim); evaluate them with the others at 1
        prox = [[k(point(c, [1] * len(un))) for k, _g, _n in ks] for c in en_pts]
        vals = [[fn(point(c, u)) for u in un_pts] for c in en_pts]

        def better(a, b, goal):
            if goal == "min":
                return a <= b
            if goal == "max":
                return a >= b
            if goal == "min_per_prime_factor":
                return a != 0 and b % a == 0
            if goal == "max_per_prime_factor":
                return b != 0 and a % b == 0
            return a == b

        bad = None
        for i, j in itertools.permutations(range(len(en_pts)), 2):
            if all(better(prox[i][t], prox[j][t], ks[t][1]) for t in range(len(ks))):
                for ui, (x, y) in enumerate(zip(vals[i], vals[j])):
                    if x > y:
                        bad = {"better": dict(zip(map(str, en), en_pts[i])), "worse": dict(zip(map(str, en), en_pts[j])),
                               "rest": dict(zip(map(str, un), un_pts[ui])), "f_better": str(x), "f_worse": str(y)}
                        break
            if bad:
                break
        res.append({"formula": str(g), "enumerated": [str(s_) for s_ in en], "tracked": {n: gl for _k, gl, n in ks},
                    "ok": bad is None, "exhaustive": exhaustive, "compound": any(not isinstance(k, sympy.Symbol) for k in goals),
                    **({"witness": bad} if bad else {})})
    return res


def one_template(job, opts: dict) -> dict:
    from harness import tiles8 as T
    from accelforge.mapper.FFM._pareto_df.df_convention import col_used_in_pareto

    out = {"status": None}
    df, cap, job2 = T.run_real(job)
    if cap.kw is None:
        out["status"] = "no-explorer-call"
        if isinstance(df, Exception):
            out["status"] = "real-exception-before-exploration"
            out["error"] = f"{type(df).__name__}: {df}"[:300]
        return out
    symbols = list(cap.kw["symbols"])
    out["symbols"] = [str(s) for s in symbols]
    out["template"] = job2.mapping.compact_str()
    out["n_pareto_calls"] = cap.n_pareto_calls
    out["max_choices_at_pareto"] = cap.max_choices
    if not symbols:
        out["status"] = "no-symbols"
        return out
    rows = T.all_assignments(cap, job2, opts["max_assignments"])
    if rows is None:
        out["status"] = "skipped-big-or-unsupported"
        return out
    out["n_assignments"] = len(rows)
    if isinstance(df, Exception):
        # an exception is an observable outcome: acceptable only when no assignment is valid ... which the code reports by an empty frame
        out["status"] = "real-exception"
        out["exc_type"] = type(df).__name__
        out["error"] = f"{type(df).__name__}: {df}"[:300]
        tab = T.exact_table(cap, job2, rows, [])
        out["n_valid"] = sum(1 for ok, _b, _v in tab if ok)
        wit = next((r for r, (ok, _b, _v) in zip(rows, tab) if ok), None)
        out["valid_witness"] = dict(zip([str(s) for s in symbols], wit)) if wit else None
        return out
    pcols = T.pipeline_pareto_columns(list(df.columns), job2)
    out["pareto_cols"] = pcols
    try:
        tab = T.exact_table(cap, job2, rows, pcols)
    except KeyError as e:
        out["status"] = f"skipped-unknown-column"
        out["error"] = str(e)[:100]
        return out
    if any(b for _ok, b, _v in tab):
        out["status"] = "skipped-borderline-validity"
        return out
    valid = [v for ok, _b, v in tab if ok]
    out["n_valid"] = len(valid)
    want = exact_front(valid)
    names = [str(s) for s in symbols]
    real_rows = [[int(df[s].iloc[i]) for s in names] for i in range(len(df))]
    out["n_real_rows"] = len(real_rows)
    rowset = set(tuple(r) for r in rows)
    not_cand = [r for r in real_rows if tuple(r) not in rowset]
    rt = T.exact_table(cap, job2, real_rows, pcols)
    invalid = [r for r, (ok, _b, _v) in zip(real_rows, rt) if not ok]
    got = exact_front([v for ok, _b, v in rt if ok])
    lost = [v for v in want if v not in set(got)]
    extra = [v for v in got if v not in set(want)]
    # float32 columns of the returned frame vs exact values
    worst = 0.0
    for i, (ok, _b, v) in enumerate(rt):
        if not ok:
            continue
        for c, x in zip(pcols, v):
            y = max(float(df[cc].iloc[i]) for cc in c) if isinstance(c, list) else float(df[c].iloc[i])
            worst = max(worst, abs(y - float(x)) / max(1e-30, abs(float(x)), abs(y)))
    out["float_rel_err"] = worst
    out["goals"] = check_goals(cap, opts["max_goal_points"]) if opts.get("check_goals", True) else []
    out["nontrivial"] = bool(len(valid) > 1 and len(want) < len(set(map(tuple, valid))))
    vec = lambda v: [float(x) for x in v]
    out.update(status="ok" if not (lost or extra or invalid or not_cand) else "mismatch",
               front_size=len(want), lost=[vec(v) for v in lost[:6]], extra=[vec(v) for v in extra[:6]],
               lost_exact=[[str(x) for x in v] for v in lost[:3]], invalid_rows=invalid[:4], not_candidate_rows=not_cand[:4])
    if lost:
        # a witness assignment for the first lost vector
        for r, (ok, _b, v) in zip(rows, tab):
            if ok and tuple(v) == tuple(lost[0]):
                out["lost_witness"] = dict(zip(names, r))
                out["lost_witness_boundary"] = T.boundary_hits(cap, r)
                break
        # is EVERY assignment that reaches a lost vector exactly on a validity limit?
        lostset = set(map(tuple, lost))
        out["lost_all_on_boundary"] = all(bool(T.boundary_hits(cap, r)) for r, (ok, _b, v) in zip(rows, tab) if ok and tuple(v) in lostset)
    return out


def work(case: dict) -> dict:
    import random

    from accelforge.mapper.FFM._make_pmappings.make_pmappings import get_jobs, _fill_jobs_with_memories_to_track

    ML.init(1)
    params, mets = case["params"], case["metrics"]
    res = {"case": case, "templates": [], "error": None, "n_jobs": 0}
    try:
        spec = ML.build_spec(params)
        spec.mapper.metrics = ML.metrics_of(mets)
        spec.mapper.explore_imperfect_temporal_loops = bool(case["imperfect"])
        spec.mapper.explore_imperfect_spatial_loops = bool(case["imperfect"])
        for k, v in (case.get("knobs") or {}).items():
            setattr(spec.mapper, k, float("inf") if v == "inf" else v)
        spec = copy.deepcopy(spec)._spec_eval_expressions(eval_arch=False, eval_non_arch=True)
        en = spec.workload.einsum_names[0]
        e2j = get_jobs(spec, spec.mapper.metrics, [en], True, False)
        _fill_jobs_with_memories_to_track(e2j, spec, spec.mapper.metrics, False, False)
    except Exception as e:  # e.g. an over-constrained mapspace: nothing to compare
        res["error"] = f"{type(e).__name__}: {e}"[:300]
        return res
    jobs = [j for v in e2j.values() for jl in v.values() for j in jl]
    res["n_jobs"] = len(jobs)
    rng = random.Random(case["seed"])
    # prefer templates with many symbols (more pruning), keep some variety
    jobs.sort(key=lambda j: -sum(1 for n in j.mapping.nodes if hasattr(n, "tile_shape")))
    head = jobs[: max(1, case["n_templates"] // 2)]
    tail = jobs[len(head):]
    rng.shuffle(tail)
    for job in head + tail[: case["n_templates"] - len(head)]:
        res["templates"].append(one_template(job, case["opts"]))
    return res


def gen_case(rng, thorough: bool, i: int) -> dict:
    big = (i % 5 == 0) or (thorough and i % 3 == 0)
    p = ML.gen_params(rng, n_einsums=1, allow_fanout=(i % 3 == 1))
    wl = p["workload"]
    if big and thorough and i % 15 == 0:
        dims = (64, 48, 36)
    elif big:
        dims = rng.choice([(16, 12, 8), (12, 8, 6), (8, 12, 4)])
    else:
        dims = tuple(rng.choice([2, 3, 4, 6, 8]) for _ in range(3))
    if wl["kind"] == "matmuls":
        wl["M"], wl["KN"] = dims[0], dims[1]
    else:
        wl["A"], wl["B"], wl["C"] = dims
    knobs = {}
    if i % 3 == 1:
        p["fanout"] = p["fanout"] or rng.choice([2, 4])      # every third spec has a spatial fanout
    if p["fanout"]:
        rvs = ["m", "n0", "n1"] if wl["kind"] == "matmuls" else ["a", "b", "c"]
        if rng.random() < 0.6:
            rv = rng.choice(rvs)
            p["lb_expr"] = rng.choice([f"~{rv}", rv, "All"])
            p["lb_op"], p["lb_val"] = rng.choice([("==", 1), ("<=", 2), ("==", 2), ("product<=", 2), (">=", 1), ("<", 3)])
        if rng.random() < 0.4 or i % 6 == 1:
            knobs["max_loops_per_spatial_dimension"] = rng.choice([1, 1, 2])
            if i % 6 == 1:      # directed: the loop-count limit is met with equality by valid assignments
                knobs["max_loops_per_spatial_dimension"] = 1
                p["lb_op"] = ""
    if i % 6 == 4:
        # directed: a lower-bound (>=, >, ==) loop-bound constraint on a spatial loop that has two symbolic enclosing tiles of the
        # same rank variable (three memory levels, fanout at the MAC array) — the padding of not-yet-enumerated outer tiles matters
        p = ML.gen_params(rng, n_einsums=1, kind="matmuls", levels=3, allow_fanout=False, finite_glb=True)
        p["workload"].update(M=rng.choice([8, 12]), KN=rng.choice([4, 6]))
        p.update(fanout=4, fanout_at="mac", bits=8, glb_size=96 * 8, lb_size=8 * 8 * rng.choice([1, 2]), lb_expr="m", min_usage=0)
        p["lb_op"], p["lb_val"] = rng.choice([(">=", 2), (">=", 2), ("==", 2), (">", 1)])
        knobs = {}
    if rng.random() < 0.3:
        knobs["max_fused_loops"] = rng.choice([0, 1, 2])
    mets = rng.choice([["ENERGY"], ["LATENCY"], ["ENERGY", "LATENCY"], ["ENERGY_DELAY_PRODUCT"], ["ENERGY", "LATENCY", "RESOURCE_USAGE"]])
    if i % 6 == 1:
        mets = rng.choice([["ENERGY", "LATENCY"], ["LATENCY"], ["ENERGY", "LATENCY", "RESOURCE_USAGE"]])
    return {"params": p, "metrics": mets, "imperfect": rng.random() < 0.35, "knobs": knobs, "seed": rng.randrange(1 << 40),
            "n_templates": (4 if big else 6) if thorough else (2 if big else (12 if i % 6 == 4 else 8 if i % 6 == 1 else 3)),
            "opts": {"max_assignments": 120000 if thorough else 20000, "max_goal_points": 3000 if thorough else 800}}


def run(ctx: Ctx):
    ctx.lean_gate()
    ctx.cov["timing_s"] = {"lean_gate": round(ctx.elapsed(), 1)}
    ctx.anchors(ANCHORS)
    ctx.cov["rule"] = (
        "templates of seeded small single-Einsum specs (matmul and 3-rank Einsums, 2-3 memory levels, finite/infinite memories, optional "
        "spatial fanout with loop-bound constraints, max_fused_loops / max_loops_per_spatial_dimension, perfect and imperfect factorisation; "
        "ENERGY, LATENCY, ENERGY+LATENCY, EDP, +RESOURCE_USAGE; zero tolerance); rank sizes 2..8, every 5th spec 8..16 (≥1000 choices: the "
        "in-flight Pareto path), thorough adds 64x48x36. Per template ALL assignments are enumerated. non-trivial = more than one valid "
        "assignment and a front smaller than the set of distinct objective vectors")
    ctx.cov["trusted_base"] += [
        "get_possible_factor_sizes as the candidate relation between neighbouring tile shapes (proved exact in C10)",
        "the captured Objective list of _make_tile_shapes (formula, max/min value) as the definition of validity",
        "harness/exprlib9.py exact evaluator (tied to Lean eval and sympy in C09)",
    ]
    ctx.assumptions += [
        "templates with initial-tile-shape symbols (fused windows) or more assignments than the budget are skipped (counted)",
        "templates where some assignment's usage is within 1e-6 of its limit (float32 validity could go either way) are skipped (counted)",
        "objective vectors are compared exactly (both fronts recomputed in exact arithmetic from the tile shapes); the float32 columns "
        "of the returned frame are separately required to match to 1e-4",
        "that sympy-derived goals meet the hypotheses of tileprune_front_quantities is checked per sampled template, not proved",
    ]
    ctx.cov["tolerance"] = "exact for fronts; 1e-4 relative for the float32 columns of the returned frame"
    rng = ctx.rng
    if ctx.replay:
        rp = json.loads(open(ctx.replay).read())["replay"]
        cases = [rp["case"]]
    else:
        cases = []
        import glob
        from harness.core import CORPUS_DIR

        for fpath in sorted(glob.glob(str(CORPUS_DIR / "C08" / "*.json"))):
            rp = json.loads(open(fpath).read())
            cases.append(rp.get("replay", rp)["case"])
        n = 150 if ctx.thorough else 8
        for i in range(n):
            cases.append(gen_case(rng, ctx.thorough, i))
    workers = min(int(os.environ.get("AFV_WORKERS", "4")), 4)
    _t_pool = ctx.elapsed()
    results = ML.pool_map(work, cases, workers=workers)
    ctx.cov["timing_s"]["workers"] = round(ctx.elapsed() - _t_pool, 1)

    stats = ctx.cov.setdefault("template_status", {})
    wrong_goals = []
    n_goal = 0
    for case, res in zip(cases, results):
        tag = ("imperfect" if case["imperfect"] else "perfect") + ":" + "+".join(case["metrics"])
        ctx.dist(tag)
        if res["error"]:
            ctx.dist("spec-error")
            ctx.cov.setdefault("spec_errors", []).append(res["error"][:160])
            continue
        for t in res["templates"]:
            stats[t["status"]] = stats.get(t["status"], 0) + 1
            if t["status"] not in ("ok", "mismatch"):
                if t["status"] == "real-exception":
                    ctx.cov.setdefault("real_exceptions", []).append(t.get("error", "")[:200])
                    if t.get("n_valid", 0) > 0:
                        # the explorer raised although valid assignments exist: every Pareto-optimal choice of the template is lost
                        ctx.case({"params": case["params"], "metrics": case["metrics"], "template": t["template"]}, branches=["exception"])
                        ctx.fail(f"explorer-exception:{t['exc_type']}",
                                 f"make_tile_shapes raised {t['error'][:120]} on a template that has {t['n_valid']} valid tile assignments "
                                 f"(e.g. {t['valid_witness']})",
                                 {"case": case, "template": t["template"], "symbols": t["symbols"], "error": t["error"],
                                  "n_assignments": t["n_assignments"], "n_valid": t["n_valid"], "valid_witness": t["valid_witness"]})
                continue
            if t.get("max_choices_at_pareto", 0) >= 1000:
                ctx.dist("in-flight-pareto(≥1000 choices)")
            ctx.case({"params": case["params"], "metrics": case["metrics"], "imperfect": case["imperfect"], "template": t["template"]},
                     nontrivial=t["nontrivial"], branches=[f"pareto-calls:{min(t['n_pareto_calls'], 3)}"])
            for g in t.get("goals", []):
                n_goal += 1
                if not g["ok"]:
                    wrong_goals.append(g)
            base = {"case": {**case, "n_templates": case["n_templates"]}, "template": t["template"], "symbols": t["symbols"],
                    "pareto_cols": t["pareto_cols"], "n_assignments": t["n_assignments"], "n_valid": t["n_valid"],
                    "n_real_rows": t["n_real_rows"]}
            bad_goals = [g for g in t.get("goals", []) if not g["ok"]]
            if t["lost"]:
                cause = "other"
                if t.get("lost_all_on_boundary"):
                    cause = "validity-limit-met-exactly-rejected-in-float32"
                elif bad_goals and t["n_pareto_calls"] >= 2:
                    cause = "in-flight:tracked-quantities-do-not-order-the-objective"
                ctx.fail(f"front-lost:{cause}",
                         f"make_tile_shapes lost {len(t['lost'])} Pareto-optimal objective vector(s) of the template, e.g. {t['lost'][0]} "
                         f"reached by {t.get('lost_witness')}",
                         {**base, "lost": t["lost"], "lost_exact": t["lost_exact"], "lost_witness": t.get("lost_witness"),
                          "lost_witness_boundary": t.get("lost_witness_boundary"),
                          "extra": t["extra"], "wrong_goals": bad_goals[:4]})
            elif t["extra"]:
                ctx.fail("front-extra", "the front of the returned rows contains a vector that is not on the front of all valid assignments",
                         {**base, "extra": t["extra"]})
            if t["invalid_rows"]:
                ctx.fail("returned-row-invalid", f"make_tile_shapes returned an assignment that violates a constraint: {t['invalid_rows'][0]}",
                         {**base, "rows": t["invalid_rows"]})
            if t["not_candidate_rows"]:
                ctx.fail("returned-row-not-a-factorisation", f"make_tile_shapes returned tile shapes outside the candidate relation: {t['not_candidate_rows'][0]}",
                         {**base, "rows": t["not_candidate_rows"]})
            if t["float_rel_err"] > 1e-4:
                ctx.fail("frame-value-mismatch", f"a float32 column of the returned frame is off by {t['float_rel_err']:.2e} from the exact formula value", base)
    ctx.cov["goal_claims_checked"] = n_goal
    ctx.cov["goal_claims_wrong"] = len(wrong_goals)
    ctx.cov["goal_claims_wrong_samples"] = wrong_goals[:6]

    # Goal.__or__ / __invert__ exhaustively against the Lean model
    from harness import cmp9 as C

    M = C.module()
    drv = ctx.driver()
    names = [None, "min", "max", "min_per_prime_factor", "max_per_prime_factor", "diff"]
    for a in names:
        for b in names:
            got = (M.Goal(a) | M.Goal(b)).goal
            want = drv.ask("C08", {"op": "or", "a": a or "none", "b": b or "none"})
            ctx.case({"goal_or": [a, b]}, branches=["goal-or"])
            if (got or "none") != want:
                # judge by the property (goal_or_sound): the result must block at least as much pruning as both
                order = {"none": 0, "min": 1, "max": 1, "min_per_prime_factor": 2, "max_per_prime_factor": 2, "diff": 3}
                fam = lambda g: "lo" if g in ("min", "min_per_prime_factor") else ("hi" if g in ("max", "max_per_prime_factor") else "x")
                ok = all(order[got or "none"] >= order[x or "none"] and (fam(x) in ("x", fam(got)) or got == "diff") for x in (a, b))
                if not ok:
                    ctx.fail("goal-or-unsound", f"Goal({a}) | Goal({b}) = {got} allows pruning one of them forbids", {"a": a, "b": b, "got": got})
                else:
                    ctx.broken("Goal.__or__ differs from the Lean model without being unsound", {"a": a, "b": b, "got": got, "model": want})
    ctx.cov["exhaustive"] = "all tile assignments of every compared template; every point of the box for goal claims; the Goal.__or__ table"
