"""Exact encoding of numpy matrices for the Lean Pareto model/spec (shared by C11 and C12)."""
from __future__ import annotations

import math

import numpy as np


def _ratio(x: float):
    if math.isinf(x):
        return None
    n, d = float(x).as_integer_ratio()
    return n, d.bit_length() - 1


def encode_matrix(arr: np.ndarray, min_scale: int = 0):
    """(S, rows): every finite entry v becomes the integer v·2^S (exact); ±inf become tags."""
    a = np.asarray(arr)
    if a.dtype.kind not in "fiu":
        raise ValueError("numeric matrix expected")
    if a.dtype.kind == "f" and np.isnan(a).any():
        raise ValueError("NaN is outside the domain")
    rats = [[_ratio(float(v)) if a.dtype.kind == "f" else (int(v), 0) for v in row] for row in a]
    S = min_scale
    for row in rats:
        for r in row:
            if r is not None and r[1] > S:
                S = r[1]
    out = []
    for row, orig in zip(rats, a):
        o = []
        for r, v in zip(row, orig):
            if r is None:
                o.append("inf" if v > 0 else "-inf")
            else:
                o.append(r[0] << (S - r[1]))
        out.append(o)
    return S, out


def encode_at(arr: np.ndarray, S: int):
    """Encode at a given scale (all entries must be representable)."""
    S2, rows = encode_matrix(arr, S)
    if S2 != S:
        raise ValueError("scale too small")
    return rows


def fixed_findings(pid: str = "C11") -> set:
    """Classifier keys of findings that have been repaired in /repo: entries of known_findings.jsonl with status
    "fixed" for `pid`, plus the comma-separated keys in $AFV_PARETO_REPAIRS (for trying a patch on a scratch copy).
    The harness then asks the driver for the model of the repaired code (`repairs` field of the request)."""
    import json
    import os
    from pathlib import Path

    keys = {k.strip() for k in os.environ.get("AFV_PARETO_REPAIRS", "").split(",") if k.strip()}
    f = Path(__file__).resolve().parent.parent.parent / "known_findings.jsonl"
    if f.exists():
        for line in f.read_text().splitlines():
            line = line.strip()
            if not line or line.startswith("#"):
                continue
            e = json.loads(line)
            if e.get("property") == pid and e.get("status") == "fixed":
                keys.add(e["key"])
    return keys


def repairs_for(dtype, fixed: set) -> dict:
    """`repairs` field for a matrix of the given dtype."""
    return {"wide": ("float32-cast-collision" in fixed) and np.dtype(dtype) != np.float32,
            "sweep_first": "sweep2d-sentinel-hides-inf" in fixed}
