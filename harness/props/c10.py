"""C10 — tile-shape candidates and mapspace counts are complete and exact.

Proof:   AFV/Props/C10.lean
           factorize_exact, perfect_exact / perfect_eq_spec, imperfect_mem_iff / imperfect_complete /
           imperfect_eq_required / imperfectRequired_eq_brute, imperfect_le_outer, outer_mem, least_shape,
           count_eq_length_chains / mem_chains_iff / chains_nodup            (all unbounded)
Model:   AFV/Model/TileShapes.lean   (hand model of _factorize, get_possible_factor_sizes, _count_factorizations)
Spec:    AFV/Spec/TileShapes.lean    (perfectSpec, imperfectRequired[Brute], chains, validChain)
Tie:     correspondence, exhaustive over the property's stated domain: every outer ≤ 8192 (quick ≤ 2048),
         every dividing inner, both modes, default coarseness; every imperfection pattern of length ≤ 4
         (and some of length 5, 6) for the counter.  The implementation's candidate set is compared with the
         Lean model's output AND with the Lean spec evaluated by the driver; the spec is the judge.
Floats:  `math.ceil(a / b)`, `math.ceil(n ** 0.5)`, `round(n / inner)` are modelled as exact integer
         functions; that precondition is checked here on every run (stream `float-precondition`).
"""
from __future__ import annotations

import glob
import itertools
import json
import math
import os
from fractions import Fraction

from harness.core import CORPUS_DIR, REPO, VERIF, Ctx, HarnessError

MTS = "accelforge.mapper.FFM._make_pmappings.make_pmappings_from_templates.make_tile_shapes"
MF = "accelforge.util._mathfuncs"
ANCHORS = [
    MTS + ":_factorize",
    MTS + ":get_possible_factor_sizes",
    MF + ":_count_factorizations",
    MF + ":_divisors",
]


# ----------------------------------------------------------------------------- helpers
def cdiv(a: int, b: int) -> int:
    return -(-a // b)


def csqrt(n: int) -> int:
    r = math.isqrt(n)
    return r if r * r == n else r + 1


def divisors(n: int) -> list[int]:
    small = [d for d in range(1, math.isqrt(n) + 1) if n % d == 0]
    return sorted(set(small + [n // d for d in small]))


def canon(arr) -> list[int]:
    """Observable of get_possible_factor_sizes / _factorize: the SET of sizes (sorted ints)."""
    out = []
    for x in list(arr):
        xi = int(x)
        if xi != x:
            raise ValueError(f"non-integer candidate {x!r}")
        out.append(xi)
    return sorted(set(out))


def float_path_is_exact(outer: int, inner: int, coarse) -> bool:
    """For coarseness > 1: replay the imperfect loop with exact rationals next to the floats the
    Python code computes; True iff every `n * coarseness`, `n / inner`, `round(..)` it performs is exact."""
    c = Fraction(coarse)
    if c <= 1:
        return True
    n_f, n_q = inner, Fraction(inner)
    steps = 0
    while n_q <= outer:
        if Fraction(n_f) != n_q:
            return False
        q_f = n_f / inner
        if Fraction(q_f) != n_q / inner:
            return False
        n_f = n_f * coarse
        n_q = n_q * c
        steps += 1
        if steps > 100000:
            return False
    # loop exit must be decided identically
    return not (n_f <= outer)


class Failures:
    """first (minimal) failing input per classifier key + number of further hits"""

    def __init__(self):
        self.first: dict[str, tuple[str, dict]] = {}
        self.count: dict[str, int] = {}

    def add(self, key: str, what: str, replay: dict):
        # inputs outside the property's literally stated domain get their own classifier keys
        if replay.get("fn") == "get_possible_factor_sizes":
            if replay["cn"] != replay["cd"]:
                key += "@coarseness-not-1"
            elif replay["outer"] % replay["inner"]:
                key += "@non-dividing-inner"
        self.count[key] = self.count.get(key, 0) + 1
        if key not in self.first:
            self.first[key] = (what, replay)

    def flush(self, ctx: Ctx):
        for key, (what, replay) in self.first.items():
            replay = dict(replay)
            replay["failing_inputs_with_this_key"] = self.count[key]
            ctx.fail(key, what, replay)


# ----------------------------------------------------------------------------- the check
class C10:
    def __init__(self, ctx: Ctx):
        import importlib

        self.ctx = ctx
        self.drv = ctx.driver()
        self.fails = Failures()
        self.corr_mismatch: list[dict] = []  # impl ≠ model while the property still holds
        self.M = importlib.import_module(MTS)
        self.F = importlib.import_module(MF)
        for mod in (self.M, self.F):
            if not os.path.realpath(mod.__file__).startswith(os.path.realpath(str(REPO)) + os.sep):
                raise HarnessError(f"{mod.__name__} imported from {mod.__file__}, not from {REPO}")
        ctx.cov["impl_files"] = [self.M.__file__, self.F.__file__]
        self.gpfs = getattr(self.M, "get_possible_factor_sizes", None)
        self.count = getattr(self.F, "_count_factorizations", None)
        self.factorize = getattr(self.M, "_factorize", None)

    # ---- get_possible_factor_sizes ------------------------------------------------
    def call_gpfs(self, outer, imp, inner, coarse=None):
        try:
            if coarse is None:
                r = self.gpfs(outer, imp, inner)
            else:
                r = self.gpfs(outer, imp, inner, coarse)
            return ("ok", canon(r))
        except Exception as e:  # observable outcome
            return ("exc", f"{type(e).__name__}: {e}")

    def judge_cands(self, case: dict, impl, rep: dict, in_domain: bool, stream: str):
        """case = {outer, inner, imp, cn, cd}; rep = driver reply.  Spec is the judge."""
        ctx = self.ctx
        outer, inner, imp, cn, cd = case["outer"], case["inner"], case["imp"], case["cn"], case["cd"]
        if "err" in rep:
            raise HarnessError(f"driver error on {case}: {rep}")
        model, spec = rep["model"], rep["spec"]
        theorem_applies = cn <= cd and (imp or outer % inner == 0)
        if theorem_applies and model != spec:
            raise HarnessError(f"Lean model disagrees with its own proved spec on {case}: {model} vs {spec}")
        if "brute" in rep and rep["brute"] != spec:
            raise HarnessError(f"closed-form spec disagrees with proved-equal brute-force spec on {case}")
        replay = {"fn": "get_possible_factor_sizes", **case, "stream": stream}
        if impl[0] == "exc":
            self.fails.add("impl-exception", f"get_possible_factor_sizes raised on a valid input: {impl[1]}",
                           {**replay, "impl": impl[1], "spec": spec})
            return
        got = impl[1]
        replay.update({"impl": got, "model": model, "spec": spec if theorem_applies else None})
        bad = False
        if theorem_applies and not imp:
            # exactness: the multiples of inner dividing outer, nothing else
            missing = [m for m in spec if m not in got]
            extra = [m for m in got if m not in spec]
            if missing:
                bad = True
                key = "perfect-missing-outer" if outer in missing else "perfect-missing-divisor"
                self.fails.add(key, f"perfect mode: multiples of inner dividing outer are not candidates: {missing[:8]}",
                               {**replay, "missing": missing})
            if extra:
                bad = True
                nonmult = [m for m in extra if m % inner]
                key = "perfect-extra-nonmultiple" if nonmult else "perfect-extra-nondivisor"
                self.fails.add(key, f"perfect mode: candidates that are not multiples of inner dividing outer: {extra[:8]}",
                               {**replay, "extra": extra})
        if imp:
            # never exceed outer; outer itself; (coarseness ≤ 1) every required least shape
            over = [m for m in got if m > outer]
            if over:
                bad = True
                self.fails.add("imperfect-exceeds-outer", f"imperfect mode: candidates exceed the outer size: {over[:8]}",
                               {**replay, "over": over})
            if outer not in got:
                bad = True
                self.fails.add("imperfect-missing-outer", "imperfect mode: the outer size is not a candidate", replay)
            if theorem_applies:
                missing = [m for m in spec if m not in got and m != outer]
                if missing:
                    bad = True
                    m0 = missing[0]
                    t = cdiv(outer, m0)
                    has_t = [m for m in got if m > 0 and cdiv(outer, m) == t]
                    key = "imperfect-not-least-shape" if has_t else "imperfect-missing-tile-count"
                    self.fails.add(
                        key,
                        f"imperfect mode: tile count {t} is achievable (by a multiple of inner) but its smallest shape {m0} "
                        f"is not a candidate (candidates with that count: {has_t})",
                        {**replay, "missing": missing},
                    )
        if not bad and got != model:
            self.corr_mismatch.append({**replay, "in_domain": in_domain})

    def run_cands(self, cases: list[dict], stream: str, in_domain: bool, brute=False, trace=False):
        ctx = self.ctx
        reqs, impls = [], []
        for c in cases:
            cn, cd = c["cn"], c["cd"]
            if c.get("default_coarseness"):
                coarse = None
            elif cd == 1 and c.get("int_coarseness", True):
                coarse = cn
            else:
                coarse = cn / cd
            impls.append(self.call_gpfs(c["outer"], c["imp"], c["inner"], coarse))
            r = {"op": "cands", "imp": c["imp"], "inner": c["inner"], "outer": c["outer"], "cn": cn, "cd": cd}
            if brute and c["imp"]:
                r["brute"] = True
            if trace and c["imp"] and cn == cd:
                r["trace"] = True
            reqs.append(r)
        reps = self.drv.ask_many("C10", reqs)
        for c, impl, rep in zip(cases, impls, reps):
            case = {k: c[k] for k in ("outer", "inner", "imp", "cn", "cd")}
            self.judge_cands(case, impl, rep, in_domain, stream)
            branches = ["imperfect" if c["imp"] else "perfect"]
            if "branches" in rep:
                a, b, n = rep["branches"]
                branches += ["admit:factor-hit"] * bool(a) + ["admit:tiles-hit"] * bool(b) + ["admit:new"] * bool(n)
            if c["cn"] > c["cd"]:
                branches.append("coarseness>1")
            nontrivial = len(rep.get("model", [])) >= 3
            ctx.case(case, nontrivial=nontrivial, branches=branches)
            ctx.dist(stream)

    # ---- _factorize -------------------------------------------------------------
    def run_factorize(self, ns: list[int]):
        ctx = self.ctx
        if self.factorize is None:
            ctx.cov["factorize_direct"] = "absent (observed through get_possible_factor_sizes only)"
            return
        reps = self.drv.ask_many("C10", [{"op": "factorize", "n": n} for n in ns])
        for n, rep in zip(ns, reps):
            if n > 0 and rep["model"] != rep["spec"]:
                raise HarnessError(f"Lean factorize disagrees with proved spec at n={n}")
            try:
                got = canon(self.factorize(n))
            except Exception as e:
                if n > 0:
                    self.fails.add("impl-exception", f"_factorize({n}) raised {type(e).__name__}: {e}",
                                   {"fn": "_factorize", "n": n})
                continue
            ctx.case({"fn": "_factorize", "n": n}, nontrivial=len(rep["spec"]) >= 3,
                     branches=["factorize:square" if csqrt(n) ** 2 == n else "factorize:nonsquare"])
            ctx.dist("factorize")
            if n > 0 and got != rep["spec"]:
                missing = [d for d in rep["spec"] if d not in got]
                key = "factorize-missing-divisor" if missing else "factorize-extra-nondivisor"
                self.fails.add(key, f"_factorize({n}) is not the set of divisors (missing {missing[:8]})",
                               {"fn": "_factorize", "n": n, "impl": got, "spec": rep["spec"]})
            elif got != rep["model"]:
                self.corr_mismatch.append({"fn": "_factorize", "n": n, "impl": got, "model": rep["model"], "in_domain": n > 0})

    # ---- _count_factorizations -----------------------------------------------------
    @staticmethod
    def py_brute_count(n: int, pat: tuple) -> int:
        """independent brute force: all tuples in [1..n]^(len-1), validity tested loop by loop"""
        L = max(len(pat) - 1, 0)
        cnt = 0
        for tup in itertools.product(range(1, n + 1), repeat=L):
            rem, ok = n, True
            for imp, s in zip(pat, tup):
                if s > rem or (not imp and rem % s):
                    ok = False
                    break
                rem = cdiv(rem, s) if imp else rem // s
            cnt += ok
        return cnt

    def run_count(self, cases: list[tuple[int, tuple]], stream: str, brute_n: int):
        ctx = self.ctx
        reqs = []
        for n, pat in cases:
            r = {"op": "count", "n": n, "pat": list(pat)}
            if n <= brute_n and len(pat) <= 4:
                r["brute"] = True
            reqs.append(r)
        reps = self.drv.ask_many("C10", reqs)
        for (n, pat), req, rep in zip(cases, reqs, reps):
            if "err" in rep:
                raise HarnessError(f"driver error on count {n} {pat}: {rep}")
            spec = rep["chains"]
            if rep["model"] != spec or rep.get("valid", spec) != spec:
                raise HarnessError(f"Lean counter disagrees with its proved spec at {n} {pat}: {rep}")
            if req.get("brute") and n <= min(brute_n, 7):
                if self.py_brute_count(n, pat) != spec:
                    raise HarnessError(f"python brute-force chain count disagrees with Lean chains at {n} {pat}")
            replay = {"fn": "_count_factorizations", "n": n, "pattern": list(pat), "spec_chains": spec, "stream": stream}
            try:
                got = self.count(n, tuple(pat))
                got = int(got)
            except Exception as e:
                self.fails.add("impl-exception", f"_count_factorizations raised {type(e).__name__}: {e}", replay)
                continue
            kinds = set(pat[:-1])
            shape = "none" if not kinds else "mixed" if len(kinds) == 2 else "all-imperfect" if True in kinds else "all-perfect"
            ctx.case({"fn": "count", "n": n, "pat": list(pat)}, nontrivial=len(pat) >= 2 and n >= 2,
                     branches=[f"count:{shape}", f"count:len{min(len(pat), 5)}"])
            ctx.dist(stream)
            if got != spec:
                self.fails.add(f"count-mismatch-{shape}",
                               f"_count_factorizations({n}, {tuple(pat)}) = {got} but there are {spec} factorisation chains",
                               {**replay, "impl": got})

    # ---- float precondition ----------------------------------------------------------
    def float_precondition(self, N: int, extra: list[int]):
        import numpy as np

        ctx = self.ctx
        rng = ctx.rng
        checked = 0
        for b in range(1, N + 1):
            a = np.arange(b, N + 1, dtype=np.int64)
            if not np.array_equal(np.ceil(a / b).astype(np.int64), -(-a // b)):
                raise HarnessError(f"float precondition fails: ceil(a/{b}) not exact for some a ≤ {N}")
            checked += len(a)
        pairs = [(a, b) for a in range(1, 129) for b in range(1, 129)]
        big = sorted(set(extra))
        pairs += [(rng.randint(1, N), rng.randint(1, N)) for _ in range(4000)]
        pairs += [(a, rng.randint(1, a)) for a in big for _ in range(20)]
        for a, b in pairs:
            if math.ceil(a / b) != cdiv(a, b):
                raise HarnessError(f"float precondition fails: math.ceil({a}/{b})")
        sq = list(range(0, N + 1)) + big + [rng.randint(0, 1 << 40) for _ in range(2000)]
        sq += [r * r + d for r in (rng.randint(1, 1 << 20) for _ in range(300)) for d in (-1, 0, 1)]
        for n in sq:
            if math.ceil(n ** 0.5) != csqrt(n):
                raise HarnessError(f"float precondition fails: math.ceil({n}**0.5)")
        # the Lean definitions used by the model are the same integer functions
        sample = pairs[:3000] + pairs[-400:]
        rep = self.drv.ask("C10", {"op": "arith", "pairs": [list(p) for p in sample],
                                   "sqrts": [n for n in sq if n <= 1 << 22][: N + 600]})
        if rep["ceildiv"] != [cdiv(a, b) for a, b in sample]:
            raise HarnessError("Lean ceilDiv differs from integer ceiling division")
        if rep["round"] != [round(Fraction(a, b)) for a, b in sample]:
            raise HarnessError("Lean roundHalfEven differs from round-half-even of the exact quotient")
        if rep["ceilsqrt"] != [csqrt(n) for n in sq if n <= 1 << 22][: N + 600]:
            raise HarnessError("Lean ceilSqrt differs from the integer ceiling square root")
        for a, b in sample[:3000]:
            if round(a / b) != round(Fraction(a, b)) and Fraction(a / b) == Fraction(a, b):
                raise HarnessError(f"float precondition fails: round({a}/{b})")
        ctx.cov["float_precondition"] = {
            "ceil_div_pairs_checked_numpy": checked,
            "ceil_div_pairs_checked_python": len(pairs),
            "ceil_sqrt_values_checked": len(sq),
            "max_operand": max([N] + big),
            "result": "exact",
        }
        ctx.dist("float-precondition", len(pairs) + len(sq))

    # ---- replay / corpus ------------------------------------------------------------------
    def replay_one(self, payload: dict, stream: str):
        fn = payload.get("fn")
        if fn == "get_possible_factor_sizes":
            c = {k: payload[k] for k in ("outer", "inner", "imp", "cn", "cd")}
            if c["cn"] == 1 and c["cd"] == 1:
                c["default_coarseness"] = True
            in_dom = c["outer"] % c["inner"] == 0 and c["cn"] == c["cd"]
            if c["cn"] > c["cd"] and not float_path_is_exact(c["outer"], c["inner"], Fraction(c["cn"], c["cd"])):
                return
            self.run_cands([c], stream, in_dom, brute=c["outer"] <= 512, trace=True)
        elif fn == "_factorize":
            self.run_factorize([payload["n"]])
        elif fn == "_count_factorizations":
            self.run_count([(payload["n"], tuple(payload["pattern"]))], stream, brute_n=8)
        else:
            raise HarnessError(f"unknown replay payload {payload}")


def run(ctx: Ctx):
    ctx.lean_gate()
    ctx.anchors(ANCHORS)
    thorough = ctx.thorough
    N = 8192 if thorough else 2048
    ctx.cov["rule"] = (
        f"EXHAUSTIVE: every outer in 1..{N}, every inner dividing it, perfect and imperfect mode, default coarseness "
        "(implementation vs Lean model vs Lean spec; spec = brute-force filter in perfect mode, required least shapes in "
        "imperfect mode, additionally the brute-force least-shape search for outer ≤ 256/512); _factorize on every n up to "
        "4N; counter on every pattern in {perfect,imperfect}^L, L ≤ 4, every n up to 32/64 (+ all tuples brute force for "
        "small n, + L = 5, 6 and large n samples).  Beyond the stated domain (model vs implementation, and the parts of the "
        "property that still apply): non-dividing and too-large inner in imperfect mode, seeded large outers (squares, "
        "primes, highly composite), coarseness in {1/2, 3/4, 5/4, 3/2, 2, 2.0, 3} whenever the float path is exact.  "
        "non-trivial = at least 3 candidates / a pattern with a real choice."
    )
    ctx.cov["trusted_base"] += [
        "IEEE-754 double arithmetic of the platform for the float precondition (checked, not proved)",
        "harness/props/c10.py canonicalisation: candidate arrays are compared as sets of Python ints",
    ]
    ctx.assumptions += [
        "FLOAT PRECONDITION: math.ceil(a/b) is the exact integer ceiling, math.ceil(n**0.5) the exact ceiling square "
        "root, round(n/inner) round-half-even of the exact quotient, for every operand in scope; checked on every run "
        "(all a,b ≤ N with numpy, samples up to 2^40 for sqrt) and, for coarseness > 1, per case by replaying the loop "
        "with exact rationals; floats are not modelled in Lean",
        "domain: inner ≥ 1, outer ≥ 1 (the code raises ZeroDivisionError otherwise); exactness theorems need coarseness ≤ 1 "
        "(property is stated for coarseness 1); for coarseness > 1 only imperfect_le_outer / outer_mem are proved and the model "
        "is compared with the implementation",
        "the candidate array is observed as a set (order / duplicates of the returned array are not part of the property)",
        "multiply_n_pmappings_by_permutations (product of the counter over rank variables, loop-order factorials) is not "
        "modelled: the property's counter anchor is _count_factorizations",
    ]
    chk = C10(ctx)
    if chk.gpfs is None or chk.count is None:
        ctx.broken("cannot drive the anchored functions: get_possible_factor_sizes / _count_factorizations not found",
                   {"gpfs": chk.gpfs is not None, "count": chk.count is not None})
        return
    rng = ctx.rng

    # ------------------------------------------------------------ replay mode
    if ctx.replay:
        rp = ctx.replay if os.path.isabs(ctx.replay) else str(VERIF / ctx.replay)  # ./check cds to the tree root
        body = json.loads(open(rp).read())
        chk.replay_one(body.get("replay", body), "replay")
        chk.fails.flush(ctx)
        if chk.corr_mismatch and not ctx.n_violations():
            ctx.broken("replayed input: implementation and model differ", {"mismatches": chk.corr_mismatch[:5]})
        return

    # ------------------------------------------------------------ corpus first
    for f in sorted(glob.glob(str(CORPUS_DIR / "C10" / "*.json"))):
        body = json.loads(open(f).read())
        chk.replay_one(body.get("replay", body), "corpus")

    # ------------------------------------------------------------ large outers (seeded)
    big = [720720, 1441440, 1000 * 1000, 999983, 1024 * 1024, 46656, 65536, 99991, 2 * 3 * 5 * 7 * 11 * 13, 510510,
           997 * 991, 1009 * 1009, 360360, 83160, 2 ** 20 - 1]
    big += [rng.randint(4097, 2_000_000) for _ in range(40 if thorough else 10)]
    big += [rng.randint(70, 1400) ** 2 for _ in range(10 if thorough else 4)]
    chk.float_precondition(N, big)

    # ------------------------------------------------------------ _factorize
    chk.run_factorize(list(range(0, 4 * N + 1)) + (big if thorough else big[:12]))

    # ------------------------------------------------------------ exhaustive in-domain
    BR = 512 if thorough else 256
    cases = []
    for outer in range(1, N + 1):
        for inner in divisors(outer):
            for imp in (False, True):
                cases.append({"outer": outer, "inner": inner, "imp": imp, "cn": 1, "cd": 1, "default_coarseness": True})
    small = [c for c in cases if c["outer"] <= BR]
    rest = [c for c in cases if c["outer"] > BR]
    chk.run_cands(small, "exhaustive-domain", True, brute=True, trace=True)
    chk.run_cands(rest, "exhaustive-domain", True)
    ctx.cov["exhaustive"] = {
        "get_possible_factor_sizes": f"all outer in 1..{N}, all inner | outer, both modes, default coarseness: {len(cases)} calls",
        "brute_force_least_shape_spec_up_to_outer": BR,
    }

    # ------------------------------------------------------------ beyond the stated domain
    # (a) imperfect mode, every inner (dividing or not, also > outer), small outers exhaustively
    ext = []
    for outer in range(1, (96 if thorough else 48) + 1):
        for inner in range(1, outer + 3):
            ext.append({"outer": outer, "inner": inner, "imp": True, "cn": 1, "cd": 1, "default_coarseness": True})
    for _ in range(3000 if thorough else 600):
        outer = rng.randint(2, N)
        inner = rng.randint(1, outer + 1)
        ext.append({"outer": outer, "inner": inner, "imp": True, "cn": 1, "cd": 1, "default_coarseness": True})
    chk.run_cands(ext, "imperfect-any-inner", False, trace=True)
    # (b) large outers: perfect with dividing inner; imperfect with inner large enough to keep the loop short
    ext = []
    for outer in big:
        ds = divisors(outer)
        for inner in {1, ds[len(ds) // 2], ds[-2] if len(ds) > 1 else 1, outer, rng.choice(ds)}:
            ext.append({"outer": outer, "inner": inner, "imp": False, "cn": 1, "cd": 1, "default_coarseness": True})
        for inner in {d for d in ds if outer // d <= 3000} | {max(1, outer // rng.randint(2, 2500))}:
            if len([e for e in ext if e["outer"] == outer and e["imp"]]) < 6:
                ext.append({"outer": outer, "inner": inner, "imp": True, "cn": 1, "cd": 1, "default_coarseness": True})
    chk.run_cands(ext, "large-outer", False)
    # (c) other coarseness values
    ext, skipped = [], 0
    NC = 256 if thorough else 128
    for (cn, cd, as_int) in [(1, 2, False), (3, 4, False), (1, 1, False), (5, 4, False), (3, 2, False), (2, 1, True),
                             (2, 1, False), (3, 1, True)]:
        for outer in range(1, NC + 1):
            for inner in divisors(outer):
                for imp in (False, True):
                    coarse = cn if (cd == 1 and as_int) else cn / cd
                    if imp and not float_path_is_exact(outer, inner, coarse):
                        skipped += 1
                        continue
                    ext.append({"outer": outer, "inner": inner, "imp": imp, "cn": cn, "cd": cd, "int_coarseness": as_int})
    for _ in range(1500 if thorough else 300):
        cn, cd = rng.choice([(5, 4), (3, 2), (2, 1), (3, 1), (7, 4), (9, 8)])
        outer = rng.randint(2, N)
        inner = rng.randint(1, outer)
        imp = rng.random() < 0.7
        if imp and not float_path_is_exact(outer, inner, cn / cd):
            skipped += 1
            continue
        if not imp:
            inner = rng.choice(divisors(outer))
        ext.append({"outer": outer, "inner": inner, "imp": imp, "cn": cn, "cd": cd, "int_coarseness": False})
    ctx.cov["coarseness_cases_skipped_float_inexact"] = skipped
    chk.run_cands(ext, "other-coarseness", False)

    # ------------------------------------------------------------ counter
    NCNT = 64 if thorough else 32
    BRN = 12 if thorough else 8
    cases = []
    for L in range(0, 5):
        for pat in itertools.product((False, True), repeat=L):
            for n in range(0, NCNT + 1):
                cases.append((n, pat))
    chk.run_count(cases, "count-exhaustive", BRN)
    ctx.cov["exhaustive"]["_count_factorizations"] = f"all patterns of length 0..4, all n in 0..{NCNT}: {len(cases)} calls; all-tuples brute force for n ≤ {BRN}"
    cases = []
    for L in (5, 6):
        for pat in itertools.product((False, True), repeat=L):
            for n in (1, 2, 3, 4, 6, 8, 12) if L == 5 else (1, 2, 4, 6):
                cases.append((n, pat))
    for pat in itertools.product((False, True), repeat=2):
        for n in (97, 360, 1024, 2048, 4096, 5040):
            cases.append((n, pat))
    for pat in itertools.product((False, True), repeat=3):
        for n in (97, 360, 720, 1024, 2048):
            cases.append((n, pat))
    for pat in [(False,) * 4, (False, False, True, False), (True, False, False, False)]:
        for n in (210, 256, 360):
            cases.append((n, pat))
    chk.run_count(cases, "count-long-or-large", 0)

    # ------------------------------------------------------------ verdicts
    chk.fails.flush(ctx)
    ctx.cov["correspondence_mismatches"] = len(chk.corr_mismatch)
    if chk.corr_mismatch and not ctx.n_violations():
        # impl ≠ model but every part of the property that applies still holds on all explored inputs;
        # the exhaustive streams above ARE the search for a failing input.
        dom = [m for m in chk.corr_mismatch if m.get("in_domain")]
        ctx.broken(
            "correspondence no longer checks: get_possible_factor_sizes/_factorize differ from the Lean model on "
            f"{len(chk.corr_mismatch)} explored inputs ({len(dom)} inside the property's domain) although no explored input violates the property",
            {"first_mismatches": (dom or chk.corr_mismatch)[:5]},
        )
