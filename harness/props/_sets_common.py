"""Shared machinery of the C22 (set algebra) and C29 (rename precedence) checks.

A *case* is a JSON-able dict

    {"workload": {"einsums": [{"name", "accesses": [{"name","output","persistent","rank_vars"}],
                               "renames": [{"name","source": <str>,"expected_count": int|None}],
                               "renames_form": "dict"|"list"}],
                  "persistent_tensors": <str>|None},
     "renames":  [{"name", "tensor_accesses": [rename…], "rank_variables": [rename…], "form": …}],
     "exprs":    [<str>…],                      # each becomes  !Memory  tensors: {keep: <str>}
     "dicts":    [[[<str>, int]…]…]}            # each becomes  !Memory  bits_per_value: {<str>: int,…}

Set expressions are *strings* (what a user writes).  The tree sent to the Lean model is obtained with
CPython's own parser (`ast.parse`), i.e. exactly the tree `eval` evaluates in
`accelforge.util._setexpressions.eval_set_expression`.

The implementation is always driven through the public path
`Spec.from_yaml(...)._spec_eval_expressions(einsum_name=…)`.
"""
from __future__ import annotations

import ast
import copy
import json

RESERVED = ["All", "Tensors", "Nothing", "Inputs", "Outputs", "Intermediates", "Shared", "Persistent"]
TENSOR_POOL = ["A", "B", "C", "D", "W0", "W1", "X", "Y_out"]
RANKVAR_POOL = ["m", "n", "k"]
RENAME_POOL = ["input", "output", "weight", "foo", "bar", "x1"]
_OPS = {ast.BitAnd: "&", ast.BitOr: "|", ast.Sub: "-", ast.BitXor: "^"}


# --------------------------------------------------------------------------- expressions
class Unsupported(Exception):
    pass


def parse_expr(s: str):
    """String → JSON tree for the Lean driver, through CPython's parser."""
    try:
        node = ast.parse(s.strip(), mode="eval").body
    except SyntaxError as e:  # pragma: no cover - generator never produces these
        raise Unsupported(str(e))
    return _conv(node)


def _conv(n):
    if isinstance(n, ast.Name):
        return ["n", n.id]
    if isinstance(n, ast.BinOp) and type(n.op) in _OPS:
        return [_OPS[type(n.op)], _conv(n.left), _conv(n.right)]
    if isinstance(n, ast.UnaryOp) and isinstance(n.op, ast.Invert):
        return ["~", _conv(n.operand)]
    if isinstance(n, ast.Call) and not n.args and not n.keywords:
        return ["()", _conv(n.func)]
    raise Unsupported(ast.dump(n))


def render_full(t) -> str:
    """Fully parenthesised rendering of a tree."""
    if t[0] == "n":
        return t[1]
    if t[0] == "~":
        return "~(" + render_full(t[1]) + ")" if t[1][0] != "n" else "~" + t[1][1]
    if t[0] == "()":
        return "(" + render_full(t[1]) + ")()" if t[1][0] != "n" else t[1][1] + "()"
    return "(" + render_full(t[1]) + " " + t[0] + " " + render_full(t[2]) + ")"


def render(t, rng) -> str:
    """Full parentheses, or the minimal parentheses CPython's unparser chooses (exercises Python's
    operator precedence  ~  >  -  >  &  >  ^  >  |)."""
    s = render_full(t)
    r = rng.random()
    if r < 0.45:
        return ast.unparse(ast.parse(s, mode="eval"))
    if r < 0.55:
        return "  " + s.replace(" ", "  ") + " "
    return s


def names_of(t) -> list[str]:
    if t[0] == "n":
        return [t[1]]
    return [x for c in t[1:] for x in names_of(c)]


def depth(t) -> int:
    return 0 if t[0] == "n" else 1 + max(depth(c) for c in t[1:])


def ops_of(t) -> list[str]:
    if t[0] == "n":
        return []
    return [t[0]] + [x for c in t[1:] for x in ops_of(c)]


def gen_tree(rng, leaves: list[str], max_depth: int, p_leaf: float = 0.25):
    if max_depth == 0 or rng.random() < p_leaf:
        return ["n", rng.choice(leaves)]
    r = rng.random()
    if r < 0.2:
        return ["~", gen_tree(rng, leaves, max_depth - 1, p_leaf)]
    if r < 0.25:
        return ["()", gen_tree(rng, leaves, max_depth - 1, p_leaf)]
    op = rng.choice(["&", "|", "-", "^"])
    return [op, gen_tree(rng, leaves, max_depth - 1, p_leaf), gen_tree(rng, leaves, max_depth - 1, p_leaf)]


def subtrees(t):
    yield t
    if t[0] != "n":
        for c in t[1:]:
            yield from subtrees(c)


# --------------------------------------------------------------------------- workloads
def gen_workload(rng, n_einsums=None, allow_persistent_expr=True):
    """Random 1–4 Einsum workload with random input/output/persistent structure.

    * tensor names from a pool of 8, 1–4 distinct tensors per Einsum, 0..all of them outputs
      (so: no outputs, several outputs, tensors produced twice, consumed and produced, private …)
    * `persistent` is a property of the tensor (the repo rejects flags that differ between Einsums)
    * each tensor has a fixed projection over {m,n,k} (ranks must agree between Einsums)
    * optionally a workload-level `persistent_tensors` expression whose value for a tensor does
      not depend on the Einsum (tensor names, Intermediates, Shared, All, Nothing)."""
    n = n_einsums or rng.choice([1, 2, 2, 3, 3, 4])
    pool = rng.sample(TENSOR_POOL, rng.randint(2, len(TENSOR_POOL)))
    proj = {t: sorted(rng.sample(RANKVAR_POOL, rng.randint(1, 3))) for t in pool}
    mode = rng.choice(["flags", "flags", "none", "expr", "expr", "both"])
    pers = {t: (mode in ("flags", "both") and rng.random() < 0.35) for t in pool}
    einsums = []
    for i in range(n):
        k = rng.randint(1, min(4, len(pool)))
        ts = rng.sample(pool, k)
        outstyle = rng.random()
        accs = []
        for j, t in enumerate(ts):
            if outstyle < 0.1:
                out = False
            elif outstyle < 0.2:
                out = True
            elif outstyle < 0.6:
                out = j == len(ts) - 1
            else:
                out = rng.random() < 0.4
            accs.append({"name": t, "output": out, "persistent": pers[t], "rank_vars": proj[t]})
        einsums.append({"name": f"E{i}", "accesses": accs, "renames": [], "renames_form": "dict"})
    pt = None
    if allow_persistent_expr and mode in ("expr", "both"):
        used = [t for t in pool if any(a["name"] == t for e in einsums for a in e["accesses"])]
        # (a tensor no Einsum uses is an undefined name: the workload is rejected — kept as a rare case)
        leaves = (pool if rng.random() < 0.1 else used) + ["Intermediates", "Shared", "All", "Nothing"]
        pt = render(gen_tree(rng, leaves, rng.choice([0, 1, 1, 2]), 0.3), rng)
    return {"einsums": einsums, "persistent_tensors": pt}


def tensors_of(e) -> list[str]:
    out = []
    for a in e["accesses"]:
        if a["name"] not in out:
            out.append(a["name"])
    return out


def workload_tensors(w) -> list[str]:
    out = []
    for e in w["einsums"]:
        for t in tensors_of(e):
            if t not in out:
                out.append(t)
    return out


# --------------------------------------------------------------------------- to Lean / to YAML
def rename_json(r):
    return {"name": r["name"], "source": parse_expr(r["source"]), "expected_count": r.get("expected_count")}


def case_to_lean(case) -> dict:
    w = case["workload"]
    return {
        "op": "case",
        "workload": {
            "einsums": [
                {
                    "name": e["name"],
                    "accesses": e["accesses"],
                    "renames": [rename_json(r) for r in e["renames"]],
                }
                for e in w["einsums"]
            ],
            "persistent_tensors": parse_expr(w["persistent_tensors"]) if w.get("persistent_tensors") else None,
        },
        "renames": [
            {
                "name": er["name"],
                "tensor_accesses": [rename_json(r) for r in er["tensor_accesses"]],
                "rank_variables": [rename_json(r) for r in er["rank_variables"]],
            }
            for er in case.get("renames", [])
        ],
        "exprs": [parse_expr(x) for x in case.get("exprs", [])],
        "dicts": [[[parse_expr(k), v] for k, v in d] for d in case.get("dicts", [])],
    }


def _q(s: str) -> str:
    return json.dumps(s)  # a JSON string is a valid double-quoted YAML scalar


def _rename_list_yaml(rs, form) -> str:
    if form == "dict" and all(r.get("expected_count") is None for r in rs):
        return "{" + ", ".join(f"{_q(r['name'])}: {_q(r['source'])}" for r in rs) + "}"
    items = []
    for r in rs:
        s = f"{{name: {_q(r['name'])}, source: {_q(r['source'])}"
        if r.get("expected_count") is not None:
            s += f", expected_count: {int(r['expected_count'])}"
        items.append(s + "}")
    return "[" + ", ".join(items) + "]"


def case_to_yaml(case, mems: list[tuple[str, str | None, list | None]]) -> str:
    """`mems` : (name, keep expression | None, bits_per_value items | None)."""
    L = ["arch:", "  nodes:"]
    for name, keep, bpv in mems:
        L += ["  - !Memory", f"    name: {name}", "    size: inf", "    leak_power: 0", "    area: 0"]
        if keep is not None:
            L += [f"    tensors: {{keep: {_q(keep)}}}"]
        if bpv is not None:
            L += ["    bits_per_value: {" + ", ".join(f"{_q(k)}: {int(v)}" for k, v in bpv) + "}"]
        L += ["    actions:", "    - {name: read, energy: 1, latency: 0}", "    - {name: write, energy: 1, latency: 0}"]
    L += ["  - !Compute", "    name: MAC", "    leak_power: 0", "    area: 0", "    actions:",
          "    - {name: compute, energy: 1, latency: 1}"]
    if case.get("renames"):
        L += ["renames:", "  einsums:"]
        for er in case["renames"]:
            L += [f"  - name: {_q(er['name'])}"]
            if er["tensor_accesses"] or er.get("always_emit"):
                L += ["    tensor_accesses: " + _rename_list_yaml(er["tensor_accesses"], er.get("form", "list"))]
            if er["rank_variables"]:
                L += ["    rank_variables: " + _rename_list_yaml(er["rank_variables"], er.get("form", "list"))]
    w = case["workload"]
    L += ["workload:", "  rank_sizes: {M: 4, N: 4, K: 4}", "  bits_per_value: {All: 8}"]
    if w.get("persistent_tensors"):
        L += [f"  persistent_tensors: {_q(w['persistent_tensors'])}"]
    L += ["  einsums:"]
    for e in w["einsums"]:
        L += [f"  - name: {e['name']}", "    tensor_accesses:"]
        for a in e["accesses"]:
            s = f"    - {{name: {a['name']}, projection: [{', '.join(a['rank_vars'])}]"
            if a["output"]:
                s += ", output: true"
            if a["persistent"]:
                s += ", persistent: true"
            L += [s + "}"]
        if e["renames"]:
            L += ["    renames: " + _rename_list_yaml(e["renames"], e.get("renames_form", "dict"))]
    return "\n".join(L) + "\n"


# --------------------------------------------------------------------------- implementation side
_counter = [0]


def classify_exc(ex) -> str:
    msg = str(ex)
    t = type(ex).__name__
    if t != "EvaluationError":
        return "other:" + t
    if "overlap" in msg:
        return "overlap"
    if "more than once" in msg:
        return "other-twice"
    if "Expected count" in msg or "expected_count" in msg:
        return "wrong-count"
    if "is not defined" in msg:
        return "undefined-name"
    return "evaluation-error"


def load_spec(yaml_text: str):
    from accelforge.frontend.spec import Spec

    _counter[0] += 1
    fn = f"case_{_counter[0] % 8}.yaml"
    with open(fn, "w") as f:
        f.write(yaml_text)
    return Spec.from_yaml(fn)


def _iset(x):
    return sorted(x.instance) if hasattr(x, "instance") and hasattr(x, "full_space") else None


def impl_workload(case) -> dict:
    """Stage 1: workload + renames only (eval_arch=False).  Per Einsum: status, the resolved table
    {name: [inst, full]} and the persistent flags."""
    spec = load_spec(case_to_yaml(case, []))
    out = {}
    for e in case["workload"]["einsums"]:
        try:
            ev = spec._spec_eval_expressions(einsum_name=e["name"], eval_arch=False)
        except Exception as ex:  # observable outcome
            out[e["name"]] = {"status": "err", "class": classify_exc(ex), "type": type(ex).__name__,
                              "msg": str(ex)[:300]}
            continue
        ein = ev.workload.einsums[e["name"]]
        table = {}
        for r in ein.renames:
            inst = _iset(r.source)
            if inst is not None:
                table[r.name] = [inst, sorted(r.source.full_space)]
        out[e["name"]] = {
            "status": "ok",
            "table": table,
            "persistent": sorted({t.name for t in ein.tensor_accesses if t.persistent}),
        }
    return out


def _eval_mems(case, mems, einsum_name):
    spec = load_spec(case_to_yaml(case, mems))
    ev = spec._spec_eval_expressions(einsum_name=einsum_name)
    res = {}
    for name, keep, bpv in mems:
        c = ev.arch.find(name)
        if keep is not None:
            inst = _iset(c.tensors.keep)
            res[name] = {"ok": inst} if inst is not None else {"err": "unresolved", "value": repr(c.tensors.keep)[:120]}
        else:
            res[name] = {"ok": sorted([k, int(v)] for k, v in dict(c.bits_per_value).items())}
    return res


def impl_arch(case, einsum_name: str, expect_reject: list[bool] | None = None) -> dict:
    """Stage 2: the architecture evaluated for one Einsum.  Every expression of the case sits in its
    own Memory (`tensors.keep`), every dictionary in its own Memory (`bits_per_value`).

    Memories predicted to be accepted are evaluated together in one Spec; if that raises, or for
    dictionaries predicted to be rejected, each Memory is evaluated in a Spec of its own, so an
    exception is attributed to exactly one dictionary."""
    exprs, dicts = case.get("exprs", []), case.get("dicts", [])
    expect_reject = expect_reject or [False] * len(dicts)
    mems = [(f"X{i}", x, None) for i, x in enumerate(exprs)]
    mems += [(f"D{i}", None, d) for i, d in enumerate(dicts)]
    res: dict = {}
    batch = [m for m in mems if m[0][0] == "X" or not expect_reject[int(m[0][1:])]]
    single = [m for m in mems if m not in batch]
    if batch:
        try:
            res.update(_eval_mems(case, batch, einsum_name))
        except Exception:
            single = mems
    for m in single:
        try:
            res.update(_eval_mems(case, [m], einsum_name))
        except Exception as ex:
            res[m[0]] = {"err": classify_exc(ex), "type": type(ex).__name__, "msg": str(ex)[:300]}
    return {
        "exprs": [res[f"X{i}"] for i in range(len(exprs))],
        "dicts": [res[f"D{i}"] for i in range(len(dicts))],
    }


# --------------------------------------------------------------------------- reading Lean replies
def lean_einsum(reply_side, name):
    if "err" in reply_side:
        return None
    for e in reply_side["einsums"]:
        if e["name"] == name:
            return e
    return None


def table_dict(lean_table) -> dict:
    return {row[0]: [row[1], row[2]] for row in lean_table}


def prune_case(case) -> dict:
    return copy.deepcopy(case)


_PROBE = {"workload": {"einsums": [{"name": "E0", "accesses": [
    {"name": "A", "output": False, "persistent": False, "rank_vars": ["m"]},
    {"name": "B", "output": True, "persistent": False, "rank_vars": ["m"]}], "renames": [], "renames_form": "dict"}],
    "persistent_tensors": None}, "renames": [], "exprs": ["All"], "dicts": [[["All", 3]]]}


def can_drive(ctx) -> bool:
    """The fixed two-tensor spec must load and evaluate; otherwise the anchored entry point can no longer
    be driven the way this harness drives it (API change) — reported as a broken correspondence."""
    try:
        w = impl_workload(_PROBE)
        a = impl_arch(_PROBE, "E0")
        ok = w["E0"]["status"] == "ok" and a["exprs"][0] == {"ok": ["A", "B"]} and "ok" in a["dicts"][0]
        detail = {"workload": w, "arch": a}
    except Exception as ex:  # noqa: BLE001
        ok, detail = False, {"exception": repr(ex)[:500]}
    if not ok:
        ctx.broken("Spec.from_yaml(...)._spec_eval_expressions(einsum_name=…) can no longer be driven on the fixed probe "
                   "spec (keep: All / bits_per_value: {All: 3} on a two-tensor Einsum)", detail)
    return ok


def load_replay_case(path: str) -> dict:
    """A replay file written by ctx.fail (…["replay"]["case"]) or a corpus file (…["case"]); relative
    paths are taken relative to the verification tree (the check runs in a scratch cwd)."""
    from pathlib import Path

    from harness.core import VERIF

    p = Path(path)
    if not p.is_absolute():
        p = VERIF / p
    body = json.loads(p.read_text())
    inner = body.get("replay", body)
    case = inner.get("case") or body["case"]
    case.pop("n_user_exprs", None)
    return case
