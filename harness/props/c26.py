"""C26 — component totals count every instance of the component.

Proof:  AFV/Props/C26.lean
          fixed model (proposed repair):  instances_eq, total_eq, arch_total_eq_sum            (property in full)
          current model (/repo today):    current_fanout_char (exact characterisation), instances_eq_partial,
                                          total_eq_partial, total_eq_counterexample_own_fanout,
                                          total_eq_counterexample_sibling_compute            (property violated)
Model:  AFV/Model/ArchTree.lean  `iter` (ArchNode.iterate_hierarchically), `globalFanout`, `componentTotals`
        (the global_fanout loop of Spec.calculate_component_costs); spec AFV/Spec/ArchTree.lean `instances`.
Tie:    correspondence.  A generated tree is built as real arch objects (or YAML), `Spec.calculate_component_costs()`
        is run, and `Arch.per_component_total_area`, `per_component_total_leak_power`, `total_area`,
        `total_leak_power` are compared with per-instance value (read from the costed spec) x `instances` as
        computed by the Lean spec, and with both Lean models.
Verdict: the spec is the judge.  impl total != per-instance x instances -> failing input, shrunk, classified by the
        position of the fanout that is miscounted.  Two classes are genuine defects of the unchanged tree
        (known_findings.jsonl): `self-fanout-not-counted`, `sibling-compute-fanout-counted`.
"""
from __future__ import annotations

import copy
import json

from harness.core import Ctx, CORPUS_DIR
from harness.props import _archtree as A

ANCHORS = [
    "accelforge.frontend.spec:Spec.calculate_component_costs",
    "accelforge.frontend.arch.structure:ArchNode.iterate_hierarchically",
    "accelforge.frontend.arch.arch:Arch.per_component_total_area",
    "accelforge.frontend.arch.arch:Arch.per_component_total_leak_power",
    "accelforge.frontend.arch.arch:Arch.total_area",
    "accelforge.frontend.arch.arch:Arch.total_leak_power",
    "accelforge.frontend.arch.spatialable:Spatialable.get_fanout",
]

WITNESSES = {
    # the two Lean witnesses (Props/C26.lean), replayed on the real code on every run
    "ownFanoutWitness": [A.mk_leaf("Memory", "Buf", [4], 100, 1), A.mk_leaf("Compute", "MAC", [], 10, 1)],
    "siblingComputeWitness": [A.mk_leaf("Compute", "MAC0", [3], 10, 1), A.mk_leaf("Memory", "Reg", [], 100, 1),
                              A.mk_leaf("Compute", "MAC", [], 10, 1)],
}


def _num(x):
    """Exact integer value of an implementation number (ints and integral floats only)."""
    if isinstance(x, bool) or x is None:
        raise ValueError(f"not a number: {x!r}")
    if isinstance(x, int):
        return x
    if isinstance(x, float) and x == int(x):
        return int(x)
    raise ValueError(f"non-integral value {x!r}: generator must keep arithmetic exact")


def impl_totals(tree, via="objects"):
    """Run the real code. Returns dict with per-instance and total values, or {"exc": type}."""
    try:
        spec = A.spec_from_yaml(tree) if via == "yaml" else A.build_spec(tree)
        s = spec.calculate_component_costs()
        pa = dict(s.arch.per_component_total_area)
        pl = dict(s.arch.per_component_total_leak_power)
        inst_a, inst_l = {}, {}
        for l in A.leaves(tree):
            if l["kind"] == "Container":
                continue
            node = s.arch.find(l["name"])
            inst_a[l["name"]] = _num(node.area)
            inst_l[l["name"]] = _num(node.leak_power)
        return {
            "area": {k: _num(v) for k, v in pa.items()},
            "leak": {k: _num(v) for k, v in pl.items()},
            "total_area": _num(s.arch.total_area),
            "total_leak": _num(s.arch.total_leak_power),
            "inst_area": inst_a,
            "inst_leak": inst_l,
        }
    except ValueError:
        raise
    except Exception as e:  # noqa: BLE001 - an exception on a valid architecture is an observable outcome
        return {"exc": type(e).__name__, "msg": str(e)[:300]}


def run(ctx: Ctx):
    ctx.lean_gate()
    ctx.anchors(ANCHORS)
    ctx.cov["rule"] = (
        "architecture trees over Memory/Toll/Container/Compute, Fork, nested Hierarchical (depth <= 4) with spatial fanouts "
        "(0-2 dimensions per node, values 1..7) at every position and integer area / leak / area_scale / n_parallel_instances: "
        "(W) the two Lean witnesses, (A) every tree shape with <= N nodes (3 quick / 4 thorough) x every single position of a "
        "fanout-3 node, (B) hypothesis-directed: fanout only on Containers / only on one component itself / only on an earlier "
        "sibling Compute / only inside a Fork, (C) random fanouts everywhere. non-trivial = some component has a fanout-bearing "
        "node among itself, its ancestors or the nodes visited before it"
    )
    ctx.cov["trusted_base"] += [
        "pydantic construction / YAML loading / Spec._spec_eval_expressions leave structure, fanouts and declared costs as generated",
        "per-instance area / leak_power are read from the costed spec (Component.area / .leak_power); C27 covers how they are computed",
        "harness/props/_archtree.py: conversion of a generated tree to real arch objects and to the driver's JSON",
    ]
    ctx.assumptions += [
        "Array nodes are outside the property's quantifier and the model",
        "leaf names are distinct (Arch.model_post_init rejects duplicates)",
        "generated costs, scales and fanouts are integers, so Python arithmetic is exact and compared exactly (tolerance 0)",
        "today's code violates the property (two known findings); the theorems proved in full are about the `fixed` model, "
        "the `current` model is proved to violate the spec and to meet it when no Component carries its own fanout",
    ]
    ctx.cov["tolerance"] = 0
    drv = ctx.driver()
    rng = ctx.rng
    stats = {"matches_spec": 0, "matches_current_only": 0, "matches_neither": 0}
    by_key: dict[str, int] = {}
    shrunk_per_key: dict[str, int] = {}
    seen = set()

    # ------------------------------------------------------------------ one evaluation
    def evaluate(tree, via="objects"):
        """-> (impl, driver reply, list of problems). problem = (kind, component, detail)"""
        impl = impl_totals(tree, via)
        if "exc" in impl:
            d = drv.ask("C26", {"op": "totals", "tree": A.to_driver(tree)})
            return impl, d, [("exception", None, impl["exc"])]
        d = drv.ask("C26", {"op": "totals", "tree": A.to_driver(tree, impl["inst_area"], impl["inst_leak"])})
        if "err" in d or not d["wf"]:
            raise RuntimeError(f"generator produced a tree the driver rejects: {d}")
        if d["fixed"] != d["spec"]:
            raise RuntimeError(f"Lean `fixed` model disagrees with its proved spec on {A.shape(tree)}")
        probs = []
        comps = [e[0] for e in d["spec"]]
        if sorted(impl["area"]) != sorted(comps) or sorted(impl["leak"]) != sorted(comps):
            probs.append(("component-set", None, {"impl": sorted(impl["area"]), "want": sorted(comps)}))
        for name, cnt, ta, tl in d["spec"]:
            ga, gl = impl["area"].get(name), impl["leak"].get(name)
            if ga != ta or gl != tl:
                probs.append(("count", name, {"instances": cnt, "want_area": ta, "got_area": ga, "want_leak": tl, "got_leak": gl}))
        if not probs:
            if impl["total_area"] != d["specArea"] or impl["total_leak"] != d["specLeak"]:
                probs.append(("arch-total", None, {"got": [impl["total_area"], impl["total_leak"]],
                                                   "want": [d["specArea"], d["specLeak"]]}))
        else:
            if impl["total_area"] != sum(impl["area"].values()) or impl["total_leak"] != sum(impl["leak"].values()):
                probs.append(("arch-total-not-sum", None, {}))
        return impl, d, probs

    def matches_current(impl, d):
        if "exc" in impl:
            return False
        cur = {e[0]: (e[2], e[3]) for e in d["current"]}
        got = {k: (impl["area"][k], impl["leak"].get(k)) for k in impl["area"]}
        return cur == got and impl["total_area"] == d["currentArea"] and impl["total_leak"] == d["currentLeak"]

    # ------------------------------------------------------------------ classification of a (minimised) failing tree
    def relation(tree, d, x, f):
        """Where the fanout-bearing leaf f sits relative to the component x."""
        paths = {p[0]: p[1] for p in d["paths"]}
        order = [l["name"] for l in A.leaves(tree)]
        kinds = {l["name"]: l["kind"] for l in A.leaves(tree)}
        if f == x:
            return "self"
        if f in paths[x]:
            return "ancestor"
        if order.index(f) > order.index(x):
            return "later-node"
        # f is visited before x and is not above it
        in_fork = _in_fork_without(tree, f, x)
        if kinds[f] == "Compute" and not in_fork:
            return "sibling-compute"
        if in_fork:
            return "fork-branch-" + ("compute" if kinds[f] == "Compute" else "node")
        return "earlier-non-ancestor"

    def _in_fork_without(tree, f, x):
        def rec(nodes):
            for n in nodes:
                if n["k"] == "leaf":
                    continue
                names = [l["name"] for l in A.leaves(n["nodes"])]
                if n["k"] == "fork" and f in names and x not in names:
                    return True
                if f in names and rec(n["nodes"]):
                    return True
            return False

        return rec(tree)

    def classify(tree, impl, d, prob):
        kind, x, det = prob
        if kind == "exception":
            return "exception-" + det
        if kind != "count":
            return kind
        fan = [l for l in A.leaves(tree) if A.fanout(l) != 1]
        ia, il = impl["inst_area"].get(x, 0), impl["inst_leak"].get(x, 0)
        if det["got_area"] is None:
            return "component-missing"
        # the count the implementation used
        counts = set()
        if ia:
            counts.add(det["got_area"] / ia)
        if il:
            counts.add(det["got_leak"] / il)
        if len(counts) != 1:
            return "area-and-leak-counts-differ"
        got = counts.pop()
        if len(fan) == 1:
            f = fan[0]
            rel = relation(tree, d, x, f["name"])
            fo = A.fanout(f)
            if got == 1 and det["instances"] == fo:
                return f"{rel}-fanout-not-counted"
            if got == fo and det["instances"] == 1:
                return f"{rel}-fanout-counted"
            return f"{rel}-fanout-miscounted"
        if len(fan) == 0:
            return "count-wrong-without-fanout"
        rels = sorted({relation(tree, d, x, f["name"]) for f in fan})
        return "count-mismatch-" + "+".join(rels)

    def causes(tree, d, x):
        """For a component whose wrong count is explained by the `current` model: the causes theorem
        current_fanout_char leaves open (own fanout missing / earlier sibling Compute counted)."""
        fo = {l["name"]: A.fanout(l) for l in A.leaves(tree)}
        kinds = {l["name"]: l["kind"] for l in A.leaves(tree)}
        parents = {p[0]: p[1] for p in d["parents"]}
        keys = set()
        if x in fo and fo[x] != 1:
            keys.add("self-fanout-not-counted")
        if any(kinds[p] == "Compute" and fo[p] != 1 for p in parents.get(x, [])):
            keys.add("sibling-compute-fanout-counted")
        return keys

    def follows_current(impl, d, x):
        """Is the implementation's total for component x the one today's-code model computes?"""
        cur = {e[0]: (e[2], e[3]) for e in d["current"]}
        return x in cur and (impl["area"].get(x), impl["leak"].get(x)) == cur[x]

    def neutral(tree, d, x):
        """Hypotheses of theorem instances_eq_partial for x: no own fanout, no fanout on a Compute visited before x
        in its chain.  Under them today's code provably counts x correctly, so a failure there is a new defect."""
        return not causes(tree, d, x)

    def neutralise(tree, d, x):
        t = copy.deepcopy(tree)
        parents = {p[0]: p[1] for p in d["parents"]}
        for l in A.leaves(t):
            if l["name"] == x or (l["kind"] == "Compute" and l["name"] in parents.get(x, [])):
                l["spatial"] = []
        return t

    def minimise(tree, kind, x, cond):
        """Shrink while problem (kind, x) persists and cond(tree, driver reply) holds. -> (tree, impl, d, [problem]) | None"""
        def pick(t):
            if x is not None and x not in [l["name"] for l in A.leaves(t)]:
                return None
            i2, d2, p2 = evaluate(t)
            px = [p for p in p2 if p[0] == kind and p[1] == x]
            if not px or (cond is not None and not cond(t, d2)):
                return None
            return i2, d2, px

        if pick(tree) is None:
            return None
        small = A.shrink(tree, lambda t: pick(t) is not None, budget=300)
        return (small,) + pick(small)

    MULTI = "count-mismatch-"

    def report(tree, via, impl, d, probs, stream):
        """Each failing component is minimised on its own.  If it still fails once the situations of the two known
        defects are removed (theorem instances_eq_partial: today's code is then correct) it is a new defect and is
        minimised inside that region; otherwise it is minimised freely and classified by the minimal case."""
        results = []  # (key, small, impl, d, px, x, new)
        all_explained = True
        budget_left = sum(shrunk_per_key.values()) < 60
        done_kinds = set()
        for kind, x, _ in probs:
            if kind != "count":
                all_explained = False
                if kind in done_kinds or not budget_left:
                    continue
                done_kinds.add(kind)
                m = minimise(tree, kind, None, None)
                if m:
                    results.append((classify(m[0], m[1], m[2], m[3][0]),) + m + (None, True))
                continue
            all_explained &= follows_current(impl, d, x)
            if not budget_left:
                continue
            # impl(x) == today's-code model(x): theorem current_fanout_char says the cause is a known one; otherwise test
            # whether x still fails where the known defects provably cannot show
            m = None
            if not follows_current(impl, d, x):
                ntree = neutralise(tree, d, x)
                m = minimise(ntree, "count", x, lambda t, d2: neutral(t, d2, x))
            if m:  # fails although the known defects cannot show: new
                if "new" in done_kinds:
                    continue
                done_kinds.add("new")
                results.append((classify(m[0], m[1], m[2], m[3][0]),) + m + (x, True))
                continue
            for k in sorted(causes(tree, d, x)) or [None]:
                if k is not None and (shrunk_per_key.get(k, 0) >= 2 or (k, "pending") in done_kinds):
                    by_key[k] = by_key.get(k, 0) + 1
                    continue
                done_kinds.add((k, "pending"))
                m = minimise(tree, "count", x, (lambda t, d2: k in causes(t, d2, x)) if k else None)
                key = classify(m[0], m[1], m[2], m[3][0]) if m else None
                if m is None or key.startswith(MULTI):
                    m = minimise(tree, "count", x, None)
                    key = classify(m[0], m[1], m[2], m[3][0]) if m else None
                if m:
                    results.append((key,) + m + (x, False))
        stats["matches_current_only" if all_explained else "matches_neither"] += 1
        for key, small, i2, d2, px, x, new in results:
            shrunk_per_key[key] = shrunk_per_key.get(key, 0) + 1
            by_key[key] = by_key.get(key, 0) + 1
            sig = (key, A.shape(small))
            if sig in seen:
                continue
            seen.add(sig)
            ctx.fail(key, f"component totals of {A.shape(small)} are not per-instance x instances ({px[0][0]}: {px[0][1]} {px[0][2]})",
                     {"tree": small, "shape": A.shape(small), "component": x, "problem": [list(p) for p in px[:4]],
                      "impl": {k: i2.get(k) for k in ("area", "leak", "inst_area", "inst_leak", "total_area", "total_leak", "exc", "msg")},
                      "spec": d2.get("spec"), "model_current": d2.get("current"),
                      "fails_outside_known_defect_situations": new, "original_shape": A.shape(tree), "via": via, "stream": stream})

    def handle(tree, via="objects", stream="random"):
        impl, d, probs = evaluate(tree, via)
        feats = d.get("features", [])
        ctx.case({"shape": A.shape(tree), "fan": [A.fanout(l) for l in A.leaves(tree)]},
                 nontrivial=any(f in feats for f in ("own-fanout", "sibling-compute-fanout", "ancestor-fanout")), branches=feats)
        ctx.dist(f"stream={stream}")
        ctx.dist(f"via={via}")
        ctx.dist(f"depth={A.depth(tree) + 1}")
        if not probs:
            stats["matches_spec"] += 1
            return
        report(tree, via, impl, d, probs, stream)

    # ---------------- replay / corpus / witnesses first
    if ctx.replay:
        body = A.load_replay(ctx.replay)
        handle(body["replay"]["tree"], "objects", "replay")
        _finish(ctx, stats, by_key)
        return
    cdir = CORPUS_DIR / "C26"
    if cdir.exists():
        for f in sorted(cdir.glob("*.json")):
            handle(json.load(open(f))["tree"], "objects", "corpus")
    for name, tree in WITNESSES.items():
        handle(copy.deepcopy(tree), "objects", "lean-witness")

    # ---------------- stream A: every small shape x every single fanout position
    max_nodes = 4 if ctx.thorough else 3
    n_ex = 0
    for sh in A.enumerate_shapes(max_nodes, 3):
        base = A.shape_to_tree(sh)
        ls = A.leaves(base)
        if not any(l["kind"] != "Container" for l in ls):
            continue
        for i in range(len(ls)):
            tree = copy.deepcopy(base)
            A.leaves(tree)[i]["spatial"] = [3]
            n_ex += 1
            handle(tree, "objects", "exhaustive")
    ctx.cov["exhaustive"] = True
    ctx.cov["exhaustive_scope"] = (
        f"{n_ex} cases: every tree shape with <= {max_nodes} nodes (branch depth <= 3) containing a Component, "
        "with a fanout of 3 on each single leaf position in turn"
    )

    # ---------------- stream B: hypothesis-directed
    n_dir = 1500 if ctx.thorough else 120
    for i in range(n_dir):
        tree = A.gen_tree(rng, max_depth=3, max_len=rng.choice([3, 4, 5]), p_branch=rng.choice([0.2, 0.35]), fan=(1,))
        for l in A.leaves(tree):
            l["spatial"] = []
        ls = A.leaves(tree)
        mode = ["containers-only", "one-component-self", "one-sibling-compute", "inside-fork-only"][i % 4]
        if mode == "containers-only":
            for l in ls:
                if l["kind"] == "Container":
                    l["spatial"] = [rng.choice([2, 3, 4, 5])] * rng.choice([1, 1, 2])
        elif mode == "one-component-self":
            c = rng.choice([l for l in ls if l["kind"] != "Container"])
            c["spatial"] = [rng.choice([2, 3, 5])]
        elif mode == "one-sibling-compute":
            ks = [l for l in ls if l["kind"] == "Compute"]
            rng.choice(ks[:-1] or ks)["spatial"] = [rng.choice([2, 3, 5])]
        else:
            inside = [l for n in A.walk(tree) if n["k"] == "fork" for l in A.leaves(n["nodes"])]
            for l in inside:
                if rng.random() < 0.6:
                    l["spatial"] = [rng.choice([2, 3])]
        handle(tree, "objects", "directed:" + mode)

    # ---------------- stream C: random fanouts everywhere, random scales
    n_rand = 6000 if ctx.thorough else 400
    for i in range(n_rand):
        tree = A.gen_tree(rng, max_depth=3, max_len=rng.choice([2, 3, 4, 5]), p_branch=rng.choice([0.2, 0.35, 0.5]),
                          fan=rng.choice([(1, 1, 1, 2, 3), (1, 2, 3, 4, 5, 7), (1, 1, 1, 1, 1, 2)]))
        for l in A.leaves(tree):
            if l["kind"] != "Container":
                l["area"] = rng.randint(0, 9) if rng.random() < 0.2 else rng.randint(1, 9)
                l["leak"] = rng.randint(0, 9) if rng.random() < 0.2 else rng.randint(1, 9)
                l["area_scale"] = rng.choice([1, 1, 1, 2, 3])
                l["leak_scale"] = rng.choice([1, 1, 1, 2])
                l["n_parallel"] = rng.choice([1, 1, 1, 2, 4])
        handle(tree, "yaml" if rng.random() < 0.1 else "objects", "random")
    _finish(ctx, stats, by_key)


def _finish(ctx, stats, by_key):
    ctx.cov["agreement"] = dict(stats)
    ctx.cov["failing_components_by_key"] = dict(by_key)
    ctx.cov["model_variant_followed_by_code"] = (
        "current (today's code: violates the property, see known findings)" if stats["matches_current_only"]
        else ("fixed (the code satisfies the spec on every case of this run)" if not stats["matches_neither"] else "neither")
    )
