"""sympy expression  <->  the JSON form of `AFV.Expr9.E`, exact evaluation, boxes (shared by C09 and C08).

JSON form: ["n",p,q] ["s",i] ["+",[..]] ["*",[..]] ["^",b,k] ["max",[..]] ["min",[..]] ["ceil",x] ["floor",x]
           ["H",x] ["dceil",x] ["did",x] ["?",tag,[..]]

Symbols are indexed in `str` order (that is the tie-break `_compare_to_zero` uses when it picks a symbol).
"""
from __future__ import annotations

import itertools
import math
from fractions import Fraction


class Unsupported(Exception):
    """The expression is outside the fragment `E` models."""


class Undefined(Exception):
    """Division by zero at this point."""


def sym_index(symbols) -> dict:
    return {s: i for i, s in enumerate(sorted(symbols, key=str))}


def export(e, idx: dict):
    import sympy

    if isinstance(e, (int,)):
        return ["n", int(e), 1]
    if isinstance(e, float):
        fr = Fraction(e)
        return ["n", fr.numerator, fr.denominator]
    if isinstance(e, sympy.Integer):
        return ["n", int(e), 1]
    if isinstance(e, sympy.Rational):
        return ["n", int(e.p), int(e.q)]
    if isinstance(e, sympy.Float):
        fr = float_fraction(e)
        return ["n", fr.numerator, fr.denominator]
    if isinstance(e, sympy.Symbol):
        if e not in idx:
            raise Unsupported(f"symbol {e} not in the box")
        return ["s", idx[e]]
    if isinstance(e, sympy.Add):
        return ["+", [export(a, idx) for a in e.args]]
    if isinstance(e, sympy.Mul):
        return ["*", [export(a, idx) for a in e.args]]
    if isinstance(e, sympy.Pow):
        b, k = e.args
        if isinstance(k, sympy.Integer):
            return ["^", export(b, idx), int(k)]
        raise Unsupported(f"non-integer power {e}")
    if isinstance(e, sympy.Max):
        return ["max", [export(a, idx) for a in e.args]]
    if isinstance(e, sympy.Min):
        return ["min", [export(a, idx) for a in e.args]]
    if isinstance(e, sympy.ceiling):
        return ["ceil", export(e.args[0], idx)]
    if isinstance(e, sympy.floor):
        return ["floor", export(e.args[0], idx)]
    if isinstance(e, sympy.Heaviside):
        if len(e.args) == 2 and e.args[1] != sympy.Rational(1, 2):
            raise Unsupported("Heaviside with H0 != 1/2")
        return ["H", export(e.args[0], idx)]
    if isinstance(e, sympy.Subs):
        # Subs(Derivative(ceiling(xi), xi), xi, x)
        inner, variables, point = e.args
        if (isinstance(inner, sympy.Derivative) and len(variables) == 1 and len(point) == 1
                and inner.args[0] == variables[0] and tuple(inner.variables) == (variables[0],)):
            return ["did", export(point[0], idx)]
        if (isinstance(inner, sympy.Derivative) and len(variables) == 1 and len(point) == 1
                and isinstance(inner.args[0], sympy.ceiling) and inner.args[0].args[0] == variables[0]
                and tuple(inner.variables) == (variables[0],)):
            return ["dceil", export(point[0], idx)]
        raise Unsupported(f"Subs {e}")
    if isinstance(e, sympy.Derivative):
        if (isinstance(e.args[0], sympy.ceiling) and isinstance(e.args[0].args[0], sympy.Symbol)
                and tuple(e.variables) == (e.args[0].args[0],)):
            return ["dceil", export(e.args[0].args[0], idx)]
        raise Unsupported(f"Derivative {e}")
    if isinstance(e, sympy.DiracDelta) and len(e.args) == 1:
        return ["?", "DiracDelta", [export(e.args[0], idx)]]
    raise Unsupported(f"{type(e).__name__}: {e}")


def float_fraction(e) -> Fraction:
    """Exact binary value of a sympy Float."""
    import mpmath

    m = e._mpf_
    sign, man, exp, _bc = m
    v = Fraction(int(man)) * (Fraction(2) ** int(exp))
    return -v if sign else v


def build(t, syms: list):
    """Tree -> sympy through the ordinary constructors (so sympy's automatic evaluation happens)."""
    import sympy

    tag = t[0]
    if tag == "n":
        return sympy.Rational(t[1], t[2])
    if tag == "s":
        return syms[t[1]]
    if tag == "+":
        return sympy.Add(*[build(a, syms) for a in t[1]])
    if tag == "*":
        return sympy.Mul(*[build(a, syms) for a in t[1]])
    if tag == "^":
        return sympy.Pow(build(t[1], syms), sympy.Integer(t[2]))
    if tag == "max":
        return sympy.Max(*[build(a, syms) for a in t[1]])
    if tag == "min":
        return sympy.Min(*[build(a, syms) for a in t[1]])
    if tag == "ceil":
        return sympy.ceiling(build(t[1], syms))
    if tag == "floor":
        return sympy.floor(build(t[1], syms))
    if tag == "H":
        return sympy.Heaviside(build(t[1], syms))
    if tag == "dceil":
        xi = sympy.Dummy("xi")
        return sympy.Subs(sympy.Derivative(sympy.ceiling(xi), xi), xi, build(t[1], syms))
    if tag == "did":
        xi = sympy.Dummy("xi")
        return sympy.Subs(sympy.Derivative(xi, xi, evaluate=False), xi, build(t[1], syms))
    if tag == "?":
        fn = getattr(sympy, t[1], None)
        if fn is None:
            raise Unsupported(t[1])
        return fn(*[build(a, syms) for a in t[2]])
    raise ValueError(t)


def compile_eval(e, idx: dict):
    """sympy expression -> python closure over a list of ints (exact Fractions).  Independent of `export`."""
    import sympy

    if isinstance(e, (int, sympy.Integer)):
        v = Fraction(int(e))
        return lambda env: v
    if isinstance(e, float):
        v = Fraction(e)
        return lambda env: v
    if isinstance(e, sympy.Rational):
        v = Fraction(int(e.p), int(e.q))
        return lambda env: v
    if isinstance(e, sympy.Float):
        v = float_fraction(e)
        return lambda env: v
    if isinstance(e, sympy.Symbol):
        i = idx[e]
        return lambda env: Fraction(env[i])
    if isinstance(e, sympy.Add):
        fs = [compile_eval(a, idx) for a in e.args]
        return lambda env: sum((f(env) for f in fs), Fraction(0))
    if isinstance(e, sympy.Mul):
        fs = [compile_eval(a, idx) for a in e.args]

        def mul(env):
            r = Fraction(1)
            for f in fs:
                r *= f(env)
            return r

        return mul
    if isinstance(e, sympy.Pow):
        b, k = e.args
        if not isinstance(k, sympy.Integer):
            raise Unsupported(f"non-integer power {e}")
        fb, k = compile_eval(b, idx), int(k)

        def pw(env):
            v = fb(env)
            if k < 0 and v == 0:
                raise Undefined()
            return v ** k

        return pw
    if isinstance(e, (sympy.Max, sympy.Min)):
        fs = [compile_eval(a, idx) for a in e.args]
        op = max if isinstance(e, sympy.Max) else min
        return lambda env: op(f(env) for f in fs)
    if isinstance(e, sympy.ceiling):
        f = compile_eval(e.args[0], idx)
        return lambda env: Fraction(math.ceil(f(env)))
    if isinstance(e, sympy.floor):
        f = compile_eval(e.args[0], idx)
        return lambda env: Fraction(math.floor(f(env)))
    if isinstance(e, sympy.Heaviside):
        if len(e.args) == 2 and e.args[1] != sympy.Rational(1, 2):
            raise Unsupported("Heaviside with H0 != 1/2")
        f = compile_eval(e.args[0], idx)

        def hv(env):
            v = f(env)
            return Fraction(1) if v > 0 else (Fraction(0) if v < 0 else Fraction(1, 2))

        return hv
    raise Unsupported(f"{type(e).__name__}: {e}")


def points(box: list):
    """All integer points of [[lo,hi],...], first coordinate slowest (the driver's order)."""
    return itertools.product(*[range(lo, hi + 1) for lo, hi in box])


def n_points(box: list) -> int:
    n = 1
    for lo, hi in box:
        n *= hi - lo + 1
    return n


def scan(fn, box: list) -> dict:
    """min / max / sum over the box, with the FIRST arg-min / arg-max in enumeration order; None values skipped."""
    res = {"n": 0, "undefined": 0}
    for p in points(box):
        try:
            v = fn(p)
        except Undefined:
            res["undefined"] += 1
            continue
        if res["n"] == 0:
            res.update(n=1, sum=v, min=v, max=v, argmin=list(p), argmax=list(p))
        else:
            res["n"] += 1
            res["sum"] += v
            if v < res["min"]:
                res["min"], res["argmin"] = v, list(p)
            if v > res["max"]:
                res["max"], res["argmax"] = v, list(p)
    return res


def mono(fn, box: list, s: int) -> dict:
    """First adjacent pair along coordinate s on which fn increases / decreases."""
    res = {"pairs": 0, "inc": None, "dec": None}
    hi = box[s][1]
    for p in points(box):
        if p[s] < hi:
            q = list(p)
            q[s] += 1
            try:
                a, b = fn(p), fn(q)
            except Undefined:
                continue
            res["pairs"] += 1
            if res["inc"] is None and a < b:
                res["inc"] = list(p)
            if res["dec"] is None and b < a:
                res["dec"] = list(p)
    return res


def frac(pair) -> Fraction:
    return Fraction(int(pair[0]), int(pair[1]))


def has_node(t, tags) -> bool:
    if t[0] in tags:
        return True
    if t[0] in ("+", "*", "max", "min"):
        return any(has_node(a, tags) for a in t[1])
    if t[0] == "^":
        return has_node(t[1], tags)
    if t[0] in ("ceil", "floor", "H", "dceil", "did"):
        return has_node(t[1], tags)
    if t[0] == "?":
        return any(has_node(a, tags) for a in t[2])
    return False
